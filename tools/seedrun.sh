#!/bin/bash
# usage: seedrun.sh <seed dir name, e.g. C08-1> <property>...   applies the seeded patch to /repo, runs the quick checks, reverts.
cd /verif
s=$1; shift
if ! git -C /repo apply /verif/seeded/$s/patch.diff 2>/dev/null; then echo "$s: patch does not apply to the current tree"; exit 3; fi
for p in "$@"; do
  out=$(./check $p 2>/dev/null)
  rc=$?
  v=$(echo "$out" | grep -m1 -E "^VIOLATION" | cut -c1-160)
  echo "seed=$s check=$p exit=$rc ${v}"
done
git -C /repo checkout -- . ; git -C /repo reset -q 2>/dev/null
