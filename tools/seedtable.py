#!/usr/bin/env python3
"""Turns the output of tools/seedmatrix.sh into the markdown table of DESIGN.md 12.5/12.7.
usage: seedtable.py matrix.log [--round 2]"""
import json, re, sys, os
log = open(sys.argv[1]).read()
rnd = 2 if "--round" in sys.argv and sys.argv[sys.argv.index("--round") + 1] == "2" else 1
res = {}
for m in re.finditer(r"^seed=(\S+) check=(\S+) exit=(\d+)", log, re.M):
    res.setdefault(m.group(1), []).append((m.group(2), int(m.group(3))))
bad = re.findall(r"^(\S+): patch does not apply", log, re.M)
print("| seeded change | what it breaks (from its meta.json) | caught by (quick tier) | not caught by |")
print("|---|---|---|---|")
for s in sorted(res):
    n = int(s.split("-")[1])
    if (rnd == 2) != (n >= 3):
        continue
    meta = json.load(open(f"/verif/seeded/{s}/meta.json"))
    title = meta.get("title", "")[:150].replace("|", "/")
    hit = [c for c, rc in res[s] if rc == 1]
    miss = [c for c, rc in res[s] if rc == 0]
    other = [f"{c}(exit {rc})" for c, rc in res[s] if rc not in (0, 1)]
    print(f"| {s} | {title} | {', '.join(hit)} | {', '.join(miss + other)} |")
for b in bad:
    print(f"| {b} | PATCH DOES NOT APPLY | | |")
