#!/usr/bin/env python3
"""Turns the output of tools/seedmatrix*.sh (one or more runs) into the markdown table of DESIGN.md 12.5/12.7/12.8.
usage: seedtable.py --round N matrix.log [matrix2.log ...]
A check is listed under "caught by" when it reported the violation in every given run, as "check (k/n runs)" when
only in some, and under "not caught by" when in none."""
import json, re, sys
args = sys.argv[1:]
rnd = 1
if "--round" in args:
    i = args.index("--round"); rnd = int(args[i + 1]); del args[i:i + 2]
runs = []
for f in args:
    res = {}
    for m in re.finditer(r"^seed=(\S+) check=(\S+) exit=(\d+)", open(f).read(), re.M):
        res.setdefault(m.group(1), {})[m.group(2)] = int(m.group(3))
    runs.append(res)
seeds = sorted(set().union(*[set(r) for r in runs]))
lo, hi = {1: (1, 2), 2: (3, 4), 3: (5, 6), 4: (7, 8)}[rnd]
print("| seeded change | what it breaks (from its meta.json) | caught by (quick tier) | not caught by |")
print("|---|---|---|---|")
for s in seeds:
    n = int(s.split("-")[1])
    if not (lo <= n <= hi):
        continue
    meta = json.load(open(f"/verif/seeded/{s}/meta.json"))
    title = meta.get("title", "")[:150].replace("|", "/")
    checks = sorted(set().union(*[set(r.get(s, {})) for r in runs]))
    hit, miss = [], []
    for c in checks:
        rcs = [r[s][c] for r in runs if s in r and c in r[s]]
        k = sum(1 for x in rcs if x == 1)
        if k == len(rcs):
            hit.append(c)
        elif k > 0:
            hit.append(f"{c} ({k}/{len(rcs)} runs)")
        else:
            miss.append(c + ("" if all(x == 0 for x in rcs) else " (inconclusive)"))
    print(f"| {s} | {title} | {', '.join(hit)} | {', '.join(miss)} |")
