#!/usr/bin/env python3
"""Regenerates /verif/MANIFEST.json from tools/checkcfg.py (single source of truth)."""
import json, os, subprocess, sys
ROOT = os.path.dirname(os.path.dirname(os.path.abspath(__file__)))
sys.path.insert(0, os.path.join(ROOT, "tools"))
from checkcfg import CHECKS, NOT_APPLICABLE, HOOK_COMMITS
props = [json.loads(l) for l in open(os.path.join(ROOT, "properties.jsonl"))]
checks = []
for p in props:
    pid = p["id"]
    if pid not in CHECKS:
        continue
    c = CHECKS[pid]
    checks.append({
        "property_id": pid,
        "quick_cmd": "./check %s --tier quick" % pid,
        "thorough_cmd": "./check %s --tier thorough" % pid,
        "evidence_file": "/verif/evidence/%s.json" % pid,
        "replay_cmd_template": "./check %s --replay {path}" % pid,
        "engine": "harness",
        "level_claimed": {"category": c.get("level", "exploration"), "text": c["level_text"], "design_ref": c.get("design_ref", "DESIGN.md section 5 (" + pid + ")")},
        "level_note": c["level_note"],
        "technique": c["technique"],
    })
na = [{"property_id": p["id"], "reason": NOT_APPLICABLE.get(p["id"], "check not built yet (work in progress; DESIGN.md section 10 gives the build order)")} for p in props if p["id"] not in CHECKS]
m = {
    "version": 1,
    "setup_cmd": "./check --setup",
    "hooks": {
        "guard": "verif",
        "enable": "the harness builds /repo with `go test -tags verif` (GOFLAGS=-mod=mod, module verifharness with replace directives to /repo)",
        "baseline_off_cmd": "python3 /verif/tools/baseline.py /repo",
        "source_commits": HOOK_COMMITS,
        "add_only": True,
    },
    "engines": [{"name": "harness", "path": "/verif/harness", "serves_properties": sorted(CHECKS.keys()),
                 "kind_free_text": "Go test binary (go1.26.8, rapid v1.3.0, testing/synctest, porcupine, native fuzzing) driven by /verif/check; reference models in harness/model do not import ro"}],
    "checks": checks,
    "notes": "All checks are property-based testing / fuzzing: generated cases judged by explicit oracles (reference model, differential, round-trip, history invariants). Known findings: /verif/known_findings.json. See DESIGN.md.",
    "not_applicable": na,
}
json.dump(m, open(os.path.join(ROOT, "MANIFEST.json"), "w"), indent=1)
code = "import json,jsonschema,sys;jsonschema.validate(json.load(open(sys.argv[1])),json.load(open(sys.argv[2])))"
r = subprocess.run(["python3-vt", "-c", code, os.path.join(ROOT, "MANIFEST.json"), "/root/.vp/MANIFEST.schema.json"], capture_output=True, text=True)
print("MANIFEST.json:", "valid" if r.returncode == 0 else "INVALID\n" + r.stderr[-1500:], "| claimed:", len(checks), "| not claimed:", len(na))
