#!/bin/bash
# usage: seedtry.sh <seed dir name> <property>...   applies the seeded patch in a scratch worktree under /var/tmp
# (never /repo), runs the quick checks against it through VERIF_REPO, removes the worktree.
cd /verif
# builds against scratch trees get a build cache of their own, removed afterwards (each tree path would
# otherwise add about a gigabyte to the shared cache)
export GOCACHE=/var/tmp/seed-gocache-$$
s=$1; shift
wt=/var/tmp/seedtry-$s-$$
git -C /repo worktree add -q --detach $wt HEAD || exit 3
if ! git -C $wt apply /verif/seeded/$s/patch.diff 2>/dev/null; then echo "$s: patch does not apply to the current tree"; git -C /repo worktree remove --force $wt; exit 3; fi
for p in "$@"; do
  out=$(VERIF_REPO=$wt ./check $p 2>/dev/null); rc=$?
  v=$(echo "$out" | grep -a -m1 -E "^VIOLATION" | cut -c1-170)
  echo "seed=$s check=$p exit=$rc ${v}"
done
git -C /repo worktree remove --force $wt
rm -rf $GOCACHE
