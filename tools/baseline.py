#!/usr/bin/env python3
"""Run the repository's pinned baseline test suite (guard OFF) against a tree and
compare with /root/.vp/BASELINE.json stable_pass.
usage: baseline.py [REPO_DIR] [--modules m1,m2] [--tags TAG]
exit 0 iff every stable_pass test (of the selected modules) passed."""
import json, os, subprocess, sys, argparse
ap = argparse.ArgumentParser()
ap.add_argument('repo', nargs='?', default='/repo')
ap.add_argument('--modules', default='')
ap.add_argument('--tags', default='')
ap.add_argument('-q', action='store_true')
a = ap.parse_args()
base = json.load(open('/root/.vp/BASELINE.json'))
stable = set(base['stable_pass'])
mods = [m.strip() for m in open('/w/out/gomods.txt').read().split()]
if a.modules:
    sel = set(a.modules.split(','))
    mods = [m for m in mods if m in sel]
env = dict(os.environ)
for k in ('GOFLAGS',):
    env.pop(k, None)
env.update(GOPROXY='off', GOSUMDB='off', GOTOOLCHAIN='local')
passed, failed, pkgs = set(), set(), set()
for m in mods:
    d = os.path.join(a.repo, m)
    if not os.path.isdir(d):
        continue
    gw = subprocess.run(['go', 'env', 'GOWORK'], cwd=d, env=env, capture_output=True, text=True).stdout.strip()
    cmd = ['go', 'test']
    if gw in ('', 'off'):
        cmd.append('-mod=mod')
    if a.tags:
        cmd += ['-tags', a.tags]
    cmd += ['-json', '-vet=off', '-count=1', '-timeout', '25m', './...']
    p = subprocess.run(cmd, cwd=d, env=env, capture_output=True, text=True)
    for line in p.stdout.splitlines():
        try:
            ev = json.loads(line)
        except Exception:
            continue
        if 'Test' not in ev:
            continue
        name = ev['Package'] + '::' + ev['Test']
        pkgs.add(ev['Package'])
        if ev.get('Action') == 'pass':
            passed.add(name)
        elif ev.get('Action') == 'fail':
            failed.add(name)
want = {s for s in stable if s.split('::')[0] in pkgs} if a.modules else stable
missing = sorted(want - passed)
print(f"baseline: modules={len(mods)} passed={len(passed)} failed={len(failed)} stable_wanted={len(want)} stable_missing={len(missing)}")
for mname in missing[:40]:
    print("  MISSING/FAILED:", mname)
sys.exit(0 if not missing else 1)
