"""Per-property configuration of the driver: which tests decide the property,
tier budgets, and the non-triviality rule reported in the evidence."""

COMMON_ASSUMPTIONS = [
    "the reference models (harness/model, written from the documentation; they import nothing from ro) are the oracle",
    "the harness' recording observer and instrumented sources behave as described in DESIGN.md section 4",
    "exploration only: nothing is claimed beyond the explored cases",
]

NOT_APPLICABLE = {}

HOOK_COMMITS = []

CHECKS = {
    "C01": {
        "run": "^TestC01_",
        "rule": ("cases = (constructor | catalogue row | subject kind and buffer size, producer word over {N1,N2,E,C} including illegal suffixes after a terminal, "
                 "observer style, subscriber placement) enumerated exhaustively up to the stated word length, plus rapid-generated concurrent cases "
                 "(2-4 goroutines each playing a word into one safe observable or subject, 5 repetitions each, slow Next callback). Non-trivial = the word "
                 "has at least one notification after its first terminal, or >= 2 producers with a terminal among their words; distinct by descriptor hash."),
        "quick": {"rapid": 300, "timeout": 600, "shards": 4},
        "thorough": {"rapid": 5000, "timeout": 3000, "shards": 16},
        "assumptions": COMMON_ASSUMPTIONS,
        "technique": "property-based testing: exhaustive word enumeration + rapid-generated concurrent producers, judged by a grammar automaton and drop-hook accounting",
        "level_text": ("Exploration. A raw recording observer (no status guard of its own) is attached through Subscribe to every observable constructor, every "
                       "catalogue row and every subject kind/buffer size, and the producer plays every word of length <= 4 (quick) / 5 (thorough) over "
                       "{Next 1, Next 2, Error, Complete}, most of which break the contract after the first terminal; the automaton Next* (Error|Complete)? "
                       "must accept what the observer saw and, for bare observables and subjects, delivered + dropped-hook calls must equal what was emitted. "
                       "Concurrent producers are generated for the safe constructors and the subjects (statistical)."),
        "level_note": ("The concurrent part only sees the interleavings the Go scheduler produces (5 repetitions per generated case, widened by a slow callback); "
                       "asynchronous / multi-source rows are covered by C02/C05, panicking callbacks by C07."),
    },
    "C04": {
        "run": "^TestC04_",
        "rule": ("cases = (catalogue row, constructor variant, boundary parameters, input script, ending); enumerated exhaustively "
                 "inside the small scope stated in 'enumerated_scope', then drawn by rapid (longer scripts, wider values, random chains, "
                 "Pipe/PipeN/PipeOpN arities 1..25). A case is non-trivial when the input has >= 1 value, or it is a chain of >= 2 stages; "
                 "distinct = distinct (row/chain, variant, params, script) descriptor, counted by hash set."),
        "quick": {"rapid": 300, "timeout": 600, "shards": 4},
        "thorough": {"rapid": 4000, "timeout": 3000, "shards": 16},
        "assumptions": COMMON_ASSUMPTIONS,
        "technique": "property-based testing: bounded-exhaustive enumeration + rapid generation against a reference model; variant and composition differentials",
        "level_text": ("Exploration. Every catalogue row (about 65 behaviours, all their plain/I/WithContext/IWithContext/alias variants) is run on every value "
                       "sequence up to length 4 (quick) / 5 (thorough) over {1,2,3} with completion, error and open endings and every boundary parameter, "
                       "and compared with a reference model written from the documentation; every ordered pair of rows and random chains up to length 5 are "
                       "compared with the composition of the models; Pipe/PipeN/PipeOp/PipeOpN/manual nesting are compared for every arity 1..25 with "
                       "non-commuting maps; creation operators are compared with their definition including int64 extremes; delivered slices/maps are "
                       "checked for later mutation. Sampled beyond the small scope; no claim outside explored cases."),
        "level_note": ("Trusts the hand-written reference models (harness/model) and the documentation reading recorded in DESIGN.md appendix A. "
                       "Time-driven, hand-off and multi-source rows are judged by C05/C08/C16/C17, float rounding helpers by validity predicates only."),
    },
}
