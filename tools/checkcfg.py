"""Per-property configuration of the driver: which tests decide the property,
tier budgets, and the non-triviality rule reported in the evidence."""

COMMON_ASSUMPTIONS = [
    "the reference models (harness/model, written from the documentation; they import nothing from ro) are the oracle",
    "the harness' recording observer and instrumented sources behave as described in DESIGN.md section 4",
    "exploration only: nothing is claimed beyond the explored cases",
]

NOT_APPLICABLE = {}

HOOK_COMMITS = []

CHECKS = {
    "C04": {
        "run": "^TestC04_",
        "rule": ("cases = (catalogue row, constructor variant, boundary parameters, input script, ending); enumerated exhaustively "
                 "inside the small scope stated in 'enumerated_scope', then drawn by rapid (longer scripts, wider values, random chains, "
                 "Pipe/PipeN/PipeOpN arities 1..25). A case is non-trivial when the input has >= 1 value, or it is a chain of >= 2 stages; "
                 "distinct = distinct (row/chain, variant, params, script) descriptor, counted by hash set."),
        "quick": {"rapid": 300, "timeout": 600, "shards": 4},
        "thorough": {"rapid": 4000, "timeout": 3000, "shards": 16},
        "assumptions": COMMON_ASSUMPTIONS,
        "technique": "property-based testing: bounded-exhaustive enumeration + rapid generation against a reference model; variant and composition differentials",
        "level_text": ("Exploration. Every catalogue row (about 65 behaviours, all their plain/I/WithContext/IWithContext/alias variants) is run on every value "
                       "sequence up to length 4 (quick) / 5 (thorough) over {1,2,3} with completion, error and open endings and every boundary parameter, "
                       "and compared with a reference model written from the documentation; every ordered pair of rows and random chains up to length 5 are "
                       "compared with the composition of the models; Pipe/PipeN/PipeOp/PipeOpN/manual nesting are compared for every arity 1..25 with "
                       "non-commuting maps; creation operators are compared with their definition including int64 extremes; delivered slices/maps are "
                       "checked for later mutation. Sampled beyond the small scope; no claim outside explored cases."),
        "level_note": ("Trusts the hand-written reference models (harness/model) and the documentation reading recorded in DESIGN.md appendix A. "
                       "Time-driven, hand-off and multi-source rows are judged by C05/C08/C16/C17, float rounding helpers by validity predicates only."),
    },
}
