"""Per-property configuration of the driver: which tests decide the property,
tier budgets, and the non-triviality rule reported in the evidence."""

COMMON_ASSUMPTIONS = [
    "the reference models (harness/model, written from the documentation; they import nothing from ro) are the oracle",
    "the harness' recording observer and instrumented sources behave as described in DESIGN.md section 4",
    "exploration only: nothing is claimed beyond the explored cases",
]

NOT_APPLICABLE = {}

HOOK_COMMITS = ["1619173"]

CHECKS = {
    "C19": {
        "run": "^TestC19_",
        "rule": ("cases = (PipeN arity 1-24 with one generated call site per arity, operator slots filled with catalogue rows each followed by a counting tap, script and ending, 1-3 sequential "
                 "or 2-4 concurrent subscriptions, licence on/off); stand-alone counters x every word of length <= 3 x subscriptions x licence. Non-trivial = arity >= 2, or >= 2 "
                 "subscriptions, or an ending other than completion; distinct by descriptor hash."),
        "quick": {"rapid": 1000, "timeout": 300, "shards": 4},
        "thorough": {"rapid": 30000, "timeout": 3000, "shards": 16},
        "assumptions": COMMON_ASSUMPTIONS + ["the licence check is switched by the verif-tagged setter VerifSetLicenseBypass (the real check needs a vendor-signed key)",
                        "metrics are read back through prometheus.Registry.Gather on the collector returned by PipeN"],
        "technique": "differential property-based testing (instrumented PipeN vs plain composition: trace, context values, source release) + exact counter equalities against counting taps",
        "level_text": ("Exploration. For every arity 1..24 (generated call sites, one call per line as the plugin's source introspection requires) and rapid-generated operator slots, scripts "
                       "and subscription patterns: what subscribers observe through roprometheus.PipeN - values, order, terminal, context values attached at Subscribe and per item, "
                       "release of the source - equals the plain composition, licence on or off. With the licence on: subscriptions_total = Subscribe calls, notification_in_total = "
                       "values the source emitted into the pipe, notification_out_total = values the subscribers received, one lag observation per source value, and per operator index "
                       "one processing-time observation per value leaving that operator; the stand-alone counters equal the Next/Error/Complete/subscription events. Licence off: "
                       "nothing exported, stand-alone operators are the identity."
                       " Per-operator processing-time counts are compared with the values that descend from a value that ENTERED the operator (each slot's tap marks the context), so the listed finding covers only the operator that emits on its own. The collector is also registered with a pedantic registry BEFORE the first subscription (Describe must agree with what Collect later yields), and a consumer that emits the next value from inside its Next callback is run through instrumented and plain pipes of lock-free operators: same trace, no deadlock."),
        "level_note": "One listed finding (no processing-time observation for values emitted off the item path). In/lag/per-operator equalities are asserted for chains without early-terminating or re-subscribing stages (a synchronous source keeps emitting into a closed chain there).",
    },
    "C18": {
        "run": "^(TestC18_|FuzzC18_)",
        "rule": ("cases = (plugin operator, parameters, input items) drawn by rapid from domain-specific generators with boundary pools (empty, multi-byte and invalid UTF-8, NUL, number-like "
                 "strings, bases and bit sizes in and out of range, regexps from a pool, layouts and zones, templates over a generated struct, base64 encodings, JSON/gob values incl. NaN, CSV "
                 "rows with quotes and newlines, byte slices with spare capacity, sort inputs of sizes crossing 12 with few distinct keys, readers with 1-byte / exact-buffer reads, data "
                 "returned together with EOF, faults after j bytes, sizes around 1024 and 4096, lines up to 70000 bytes). Non-trivial = malformed / non-ASCII / threshold-crossing / "
                 "equal-but-distinguishable input as stated per sub-check; distinct by descriptor hash."),
        "quick": {"rapid": 200, "timeout": 300, "shards": 4},
        "thorough": {"rapid": 4000, "timeout": 3000, "shards": 16,
                     "fuzz": {"seconds": 45, "targets": ["FuzzC18_Strconv", "FuzzC18_Regexp", "FuzzC18_TextHelpers", "FuzzC18_TimeTemplateEncodings", "FuzzC18_Sort", "FuzzC18_Stdio", "FuzzC18_TextRandom"]}},
        "assumptions": COMMON_ASSUMPTIONS + ["the standard-library functions the plugins wrap (strconv, regexp, time, text/html template, encoding/*, sort) are the oracles"],
        "technique": "differential property-based testing against the wrapped standard-library function, flavour agreement, round trips, permutation/stability and concatenation predicates; native Go fuzz targets in the thorough tier",
        "level_text": ("Exploration. Item by item, every plugin operator is compared with the library function it wraps applied directly (same value, or an Error notification carrying "
                       "that function's error, never a panic); string and byte flavours of the text helpers must agree on the same text; encode-then-decode is the identity (base64, gob, "
                       "CSV); sort emits a sorted permutation, stable where it says so; reader chunks concatenate to the input (lines: minus terminators), including data returned with "
                       "EOF and injected read faults; no operator modifies the value it was handed or a value already delivered; every plugin row keeps grammar, source release and context."
                       " Time operators are also fed moments within a day of a zone-offset change in six daylight-saving locations (time/tzdata linked in)."
                       " time.Parse is judged with the process's local zone drawn from the same locations (zone abbreviations and offsets are matched against time.Local)."
                       " Random(size, charset) of the text plugins by a validity predicate (exactly size characters, all from the charset, for charsets of 1..68 characters incl. multi-byte runes); ParseUint64 and FormatComplex against strconv. The JSON plugin is also driven with types whose MarshalJSON / UnmarshalJSON have pointer receivers, by value and by pointer, against encoding/json called directly."),
        "level_note": "One listed finding pinned by the plugins' own tests (byte-wise word splitting on non-ASCII text).",
    },
    "C20": {
        "run": "^TestC20_",
        "rule": ("cases = (limiter {native, ulule with the in-memory store}, quota 1-3, window 5-40 ms (ulule: 3-10 ms, or one hour for the exact model), 1-3 keys, arrival timeline "
                 "{burst, steady, sparse, mixed}, ending, synchronous or asynchronous source; native: items may each carry a context of their own, one of which - or every one, a few items later - is cancelled mid-stream). Non-trivial = some key exceeds its quota inside one window, i.e. the limiter has to "
                 "drop; distinct by descriptor hash."),
        "quick": {"rapid": 1200, "timeout": 300, "shards": 4},
        "thorough": {"rapid": 6000, "timeout": 3000, "shards": 16},
        "assumptions": COMMON_ASSUMPTIONS + ["native limiter runs in virtual time (synctest); the ulule limiter reads the wall clock: with short periods only the alignment-independent bound is asserted, with a one-hour period the exact model"],
        "technique": "property-based testing of generated key distributions and timelines with an alignment-independent quota bound, per-key subsequence check and terminal propagation",
        "level_text": ("Exploration. For every generated timeline: per key, the items passed within any span L never exceed quota x (floor(L/window) + 2); per key the output is a "
                       "strictly increasing subsequence of that key's input (order kept, nothing duplicated or invented); with a period far longer than the run exactly the first "
                       "`quota` items of each key pass, keys independently; completion and error of the source reach the subscriber; the native limiter leaves no goroutine behind."
                       " The ulule limiter is also shared by 2..8 concurrent streams: the quota of a key holds for what all of them let through together."
                       " Native limiter with per-item contexts that are cancelled while the stream goes on (as after ContextWithTimeout): the bound still holds for every key, the other keys "
                       "and the source's own ending are unaffected."),
        "level_note": "No 'nothing is lost' clause: the property does not state one.",
    },
    "C17": {
        "run": "^TestC17_",
        "rule": ("cases = (ToChannel | FromChannel, channel capacity 0-3, script and ending, consumer behaviour {reads to the end, pauses between reads, stops after k reads}, Unsubscribe after k "
                 "reads / sends, synchronous or asynchronous source, producer closes or abandons the channel) enumerated; (ToSlice, ToMap, Collect, Materialize|Dematerialize) x every word "
                 "up to the stated length (illegal suffixes included) plus rapid scripts. Non-trivial = a cut, a stalled or stopping consumer, capacity below the number of values, or an "
                 "error ending; distinct by descriptor hash."),
        "quick": {"rapid": 1500, "timeout": 300, "shards": 4},
        "thorough": {"rapid": 60000, "timeout": 3000, "shards": 16},
        "assumptions": COMMON_ASSUMPTIONS + ["testing/synctest quiescence decides 'the reader is not blocked', 'the producer has returned' and 'no goroutine is left'"],
        "technique": "property-based testing: enumerated consumer/producer behaviours in synctest bubbles with a materialised-sequence oracle; round-trip and model oracles for the synchronous bridges",
        "level_text": ("Exploration. ToChannel: exactly one channel is handed out; what a consumer reads is the materialised notification sequence in order (a prefix when cut); the channel "
                       "is closed after the terminal notification or on unsubscription; the producer's own calls never panic and never stay blocked once the consumer has unsubscribed. "
                       "FromChannel: every value sent before the close is delivered, then Complete; no completion without a close; after Unsubscribe nothing is delivered, later values "
                       "stay in the channel, and the reader goroutine exits (a leftover is reported when the bubble ends). ToSlice / ToMap / Collect equal the delivered values (last "
                       "write wins), emitted once at completion; Materialize|Dematerialize is the identity on every word, including producers that go on after their terminal."
                       " Materialize|Dematerialize also over streams ending with Error(nil). ToChannel subscribed with an already-cancelled context: whatever is read is a prefix of the materialised stream and the channel is closed once the stream has ended."),
        "level_note": "A send that loses the race with the close is recovered inside the library and may reach OnUnhandledError: counted, not judged (it is the designated sink).",
    },
    "C16": {
        "run": "^TestC16_",
        "rule": ("virtual time: cases = (time-driven operator, duration 1-50 ms, count / initial delay, source timeline given by inter-arrival gaps (bursts of 0, gaps just below / equal / "
                 "just above the configured duration, arbitrary), ending, optional unsubscription or context cancellation at a generated instant); real time (ThrottleTime, TimeInterval, "
                 "Timestamp, Timeout under a slow observer): cases = (operator, duration, gaps, observer delays). Non-trivial = a cut strictly inside the timeline, or >= 2 source values "
                 "with a gap within 1 ms of the configured duration, or a periodic source; distinct by descriptor hash."),
        "quick": {"rapid": 1000, "timeout": 300, "shards": 4},
        "thorough": {"rapid": 20000, "timeout": 3000, "shards": 16},
        "assumptions": COMMON_ASSUMPTIONS + ["virtual-time stamps come from testing/synctest's fake clock: comparisons are exact and load-independent; the real-time part asserts one-sided bounds only"],
        "technique": "property-based testing of generated timelines in virtual time (testing/synctest) with lower-bound / order / count oracles; one-sided real-time bounds for the operators bound to the process clock",
        "level_text": ("Exploration. Timer, Interval, IntervalWithInitial, Range/RepeatWithInterval, Delay, DelayEach, Timeout, SampleTime, ThrottleWhen(Interval), BufferWithTime, "
                       "BufferWithTimeOrCount and WindowWhen(Interval) run inside synctest bubbles on generated timelines: nothing is delivered earlier than the statement allows, "
                       "periodic values are 0,1,2.., delayed values keep emission order, a timeout needs a full quiet period and never follows the source's terminal, sampled / "
                       "throttled / buffered outputs are a sub-sequence (prefix) of the source with at most one value per period, and nothing is delivered after Unsubscribe or "
                       "(for the context-aware stages) cancellation. ThrottleTime, TimeInterval, Timestamp and Timeout-with-a-slow-observer run in real time with one-sided bounds."
                       " Delay / DelayEach with the context cancelled while a producer that does not watch the context goes on: nothing arrives early. ThrottleTime with a period far longer than the run, in real time: exactly the first value of every subscription passes. Timer, Delay, DelayEach and Timeout are also drawn with a duration of zero."),
        "level_note": "Only what the property states is asserted (lower bounds on time, order and count relations): exact firing times and losslessness are not.",
    },
    "C14": {
        "run": "^TestC14_",
        "rule": ("cases = (stage or chain placed between a never-ending manually driven source and an early terminator, terminator {Take n, First, Head, ElementAt, TakeWhile, TakeUntil(signal), "
                 "MapErr failing at the n-th value, external Unsubscribe, cancellation of the subscription context}, cut position). The source is NOT driven again after the cut. Every case is "
                 "non-trivial (the source is still live at the cut); distinct by descriptor hash."),
        "quick": {"rapid": 150, "timeout": 300, "shards": 4},
        "thorough": {"rapid": 20000, "timeout": 3000, "shards": 16},
        "assumptions": COMMON_ASSUMPTIONS + ["testing/synctest: after synctest.Wait() a goroutine that is still blocked is definitely blocked; time is virtual"],
        "technique": "property-based testing inside testing/synctest bubbles: enumerated stage x terminator x cut position, release and return observed at bubble quiescence (no timeouts)",
        "level_text": ("Exploration. Each stage of the catalogue (and ten time-driven / hand-off / context stages) is put between a never-ending source and each early terminator; "
                       "once the downstream side has terminated and the bubble is quiescent, the source's teardown must have run exactly once, nothing may remain subscribed (signal "
                       "included), the Subscribe call must have returned, and - after the harness has released everything it controls - no goroutine may be left blocked in the bubble. The operators with SEVERAL sources (merge, combine-latest, zip, race, until, sample/buffer/window-when and sequence-equal families, every arity incl. the hand-written ones) over never-ending hot sources, one of which may deliver a first value from inside its subscription: once a source has failed, a Take(n) below is satisfied or the subscriber has unsubscribed, every subscribed source is released. Metamorphic over the catalogue: whether the first value of a never-ending source arrives from inside its subscription or right after it returned, the source is released alike once a Take(1) below is satisfied or the subscriber unsubscribes (rows that wait inside their subscribe function are the listed finding and are excluded by construction, counted)."),
        "level_note": "One design-level listed finding (operators that wait inside Subscribe); a sample of those cases keeps running to print the KNOWN-FINDING, the rest is excluded by construction and counted.",
    },
    "C13": {
        "run": "^TestC13_",
        "race": True,
        "rule": ("cases = concurrent scenarios compiled with -race and run with quiet observers: every multi-producer stage of C02 (alone and with stages below), the five subject kinds under "
                 "{several producers + state getters, subscribe/unsubscribe churn, racing terminals}, every Share configuration and connectable under concurrent subscribe / unsubscribe / "
                 "Connect / disconnect / emission, one subscriber under Add | Next | Unsubscribe | terminal | Wait. All scenarios have >= 2 goroutines inside library code (non-trivial); "
                 "distinct by scenario descriptor. race_detector in the coverage gives the number of reports and of distinct access pairs seen."),
        "quick": {"rapid": 20, "timeout": 600, "shards": 8},
        "thorough": {"rapid": 200, "timeout": 3400, "shards": 16},
        "assumptions": COMMON_ASSUMPTIONS + ["the Go race detector (go1.26.8 -race) is the oracle: a report with a library frame in either access is a violation, a report with harness frames only is a harness bug (exit 2)"],
        "technique": "generated concurrent scenarios executed under the Go race detector over many repetitions; reports classified by the innermost library function of each conflicting access",
        "level_text": ("Exploration. The concurrent scenarios generated for C02, C03, C10 and C11 are executed in a -race build with observers that add no synchronisation of their own; every "
                       "race report is attributed to the library functions of the two conflicting accesses. Any pair that is not a listed finding is a violation."
                       " Also: operators with goroutines of their own against one producer, and Share with every subscriber leaving while the source ends."
                       " Instrumented (Prometheus) pipes containing a hand-off operator, three subscriptions at once."),
        "level_note": "The detector only sees executed interleavings: no report is not race freedom. One listed finding (close vs send in ObserveOn/SubscribeOn).",
    },
    "C02": {
        "run": "^TestC02_",
        "rule": ("cases = (multi-producer stage {merge, combine-latest, zip, race, take/skip-until, buffer/sample/throttle-when, concat, Serialize over a multi-goroutine producer, MergeMap, "
                 "GroupBy|MergeAll, WindowWhen|MergeAll, Merge of ObserveOn hand-offs, Share}, number of producers 2-6 each driven by exactly one goroutine, the stages placed below it "
                 "{none, unsafe rows, pass-through rows that hand their destination upstream, Serialize}, scripts with and without terminals, observer dwell), each repeated. "
                 "Every case has >= 2 concurrently emitting producers (non-trivial); distinct by (stage, below, k, script shape, dwell) hash."),
        "quick": {"rapid": 40, "timeout": 300, "shards": 8},
        "thorough": {"rapid": 600, "timeout": 3000, "shards": 16},
        "assumptions": COMMON_ASSUMPTIONS,
        "technique": "schedule exploration by repetition with a dwelling observer; oracle = online overlap monitor (inside-counter and nested enter/exit stamps) + grammar automaton",
        "level_text": ("Exploration. Each producer goroutine drives its own sequential source; all start on a barrier; the bottom observer sleeps a few tens of microseconds in every "
                       "callback so that any missing serialisation shows as two callbacks inside at once. Checked for every multi-producer stage alone and with unsafe / pass-through / "
                       "Serialize stages below it, 12 (quick) / 150 (thorough) repetitions per configuration plus rapid-generated configurations. Subjects and the safe "
                       "constructors under many producers are covered by the concurrent parts of C01 and C10."
                       " Operators that notify from a goroutine of their own (Timeout, Delay, time samplers and buffers, ThrowOnContextCancel, ObserveOn/SubscribeOn, Interval-driven windows and merges) are run with ONE producer against the operator's timer / watcher, the observer dwelling in its callbacks."),
        "level_note": "Statistical: absence of overlap in the repetitions run is not absence in all schedules; the dwell makes a wrong subscriber mode show within a few repetitions.",
    },
    "C05": {
        "run": "^TestC05_",
        "rule": ("cases = (multi-source row and form, number of sources k, one script per source, one interleaving of those scripts); every tuple of scripts and every interleaving "
                 "inside the stated scope is enumerated, each notification processed to bubble quiescence before the next is issued; concurrent cases = the same scripts driven by one "
                 "goroutine per source, repeated. Non-trivial = at least two sources notify and the arrival order is not 'source after source' (the only shape the suite feeds); "
                 "distinct by (row, k, arrival order) hash."),
        "quick": {"rapid": 200, "timeout": 300, "shards": 6},
        "thorough": {"rapid": 1000, "timeout": 3000, "shards": 16},
        "assumptions": COMMON_ASSUMPTIONS + ["testing/synctest's notion of durable blocking decides quiescence after each notification"],
        "technique": "bounded-exhaustive enumeration of arrival orders against step models (per-step output, subscription and release state); concurrent runs judged by membership in the set of model outputs over all interleavings",
        "level_text": ("Exploration. For the merge, combine-latest, concat, race, zip, take/skip-until, buffer/sample/throttle-when and sequence-equal families (creation, With, "
                       "WithN and All forms), window-when, group-by and merge-map: every tuple of short source scripts (completion, error or silence as ending) and EVERY "
                       "interleaving is fed one notification at a time; after each step the output so far, which sources are subscribed, which must still be connected and "
                       "which must have been released are compared with a step model written from the property text and the documentation. Free-running goroutines: the "
                       "observed output must be the model's output for some interleaving compatible with each source's own order."
                       " Free-running producers: one goroutine per source, repeated; the observed output must be a member of the set of model outputs over all interleavings; WindowWhen with source and boundary on two goroutines (and with a producer driven by window completions) is judged by a validity predicate (windows concatenate to the source's values, every window closed)."
                       " Random arrival orders with up to 3 values per source (three sources included); GroupBy |> Take(n) |> MergeAll and a hand-written consumer that stops inside the Next delivering the n-th group: the item that opened a delivered group is not lost."
                       " The hand-written higher arities (MergeWith3/4, CombineLatest4/5, CombineLatestWith3/4, Zip4..6, ZipWith3..5, ZipAll and CombineLatestAll over 3-4 sources, CombineLatestAny) take part in the random arrival orders and in the concurrent membership check. A quarter of the random arrival orders carry values whose own context is already cancelled: the step model is unchanged. Interface-typed instantiations (CombineLatestAny, CombineLatestAll/ZipAll/Merge/Race[any], CombineLatest2/Zip2[any,any]) are fed streams whose values have different dynamic types, nil included (a one-to-one dressing of the ints, undone on the way out): same step model."),
        "level_note": ("Two listed findings pinned by the suite (TakeUntil/SkipUntil notifier error, SequenceEqual prefix comparison). The concurrent part only sees the schedules the "
                       "scheduler produces. FlatMap with asynchronous inners is covered through Concat + the cold-inner rows of C04."),
    },
    "C15": {
        "run": "^TestC15_",
        "rule": ("cases = (operator and configuration {Retry MaxRetries x ResetOnSuccess, Retry(), RepeatWith n, DoWhile/While variant x truth sequence, Catch, OnErrorResumeNextWith, "
                 "Concat/ConcatWith/ConcatAll with 0..3 further sources}, sequence of attempt outcomes (each a short script ending in completion or error), synchronous or "
                 "asynchronous attempts, optional cancellation of the subscription context during attempt j). Non-trivial = at least two attempts with different outcomes, or "
                 "several sources, or a cancellation; distinct by descriptor hash."),
        "quick": {"rapid": 2000, "timeout": 300, "shards": 4},
        "thorough": {"rapid": 60000, "timeout": 3000, "shards": 16},
        "assumptions": COMMON_ASSUMPTIONS + ["unbounded re-subscription is cut out-of-band: past 12 subscriptions the instrumented source completes and raises a flag"],
        "technique": "property-based testing: enumerated outcome sequences against a reference model with subscription counting and a sequencing monitor on the instrumented sources",
        "level_text": ("Exploration. An instrumented source whose n-th subscription plays the n-th outcome script is put under every re-subscribing operator; for every outcome "
                       "sequence up to length 3 (quick) / 4 (thorough) and every configuration in the small range, the output trace and the exact number of subscriptions of "
                       "every source must equal the model's, at most one attempt may be live at any time, and at each new subscription every earlier attempt must have "
                       "delivered its terminal and had its teardown run. Retry under cancellation: no further attempt and Error(context.Canceled)."
                       " Asynchronous attempts are repeated in virtual time with teardowns that take time and a first notification that comes after the operator started waiting: the next attempt may only be subscribed once the previous teardown has FINISHED."
                       " Retry with a Delay (virtual time): spacing, budget, and a cancellation of the subscription context during a wait ends the stream at that instant whatever context the failed attempt's error carried."
                       " The same operators over attempts ending with Error(nil): same output, same number of subscriptions of the source as with a non-nil error. Budgets at the top of the parameter range (Retry MaxRetries = MaxUint64, MaxUint64-1, MaxInt64; RepeatWith(MaxInt64)) behave as 'as many as it takes'."),
        "level_note": "Catch is a listed finding (fallback subscribed from inside the error callback). Retry with a Delay is exercised in the virtual-time check C16.",
    },
    "C11": {
        "run": "^TestC11_",
        "rule": ("sequential: cases = (form {ShareWithConfig with each of the 8 reset-flag combinations x connector, Share, ShareReplay, ShareReplayWithConfig, connectable with/without "
                 "ResetOnDisconnect}, operation sequence over {Subscribe i, Unsubscribe i, SourceNext, SourceError, SourceComplete, Connect, Disconnect}, manual or cold synchronous source); "
                 "non-trivial = a 1->0 transition, a terminal or a disconnect followed by a new subscriber/connect. Concurrent: cases = (config, number of simultaneous first subscribers, "
                 "values, connector delay) repeated; all non-trivial. Distinct by descriptor hash."),
        "quick": {"rapid": 300, "timeout": 300, "shards": 4},
        "thorough": {"rapid": 2000, "timeout": 3000, "shards": 16},
        "assumptions": COMMON_ASSUMPTIONS,
        "technique": "model-based property testing: exhaustive + rapid event sequences against a statement-level model of executions; concurrent invariant checks under repetition",
        "level_text": ("Exploration. After every step of every sequence (exhaustive to length 5/6, rapid to length 30) the number of upstream subscriptions made so far, the number "
                       "live now (never above one) and every subscriber's log must equal a model written at the level of the statement: an execution is one connector subject plus "
                       "one upstream subscription; join or start, discard on error/complete/refcount-zero as configured, replay rules of the connector kind; connectables: nothing "
                       "before Connect, Connect while connected returns the same subscription, disconnect releases upstream and (optionally) installs a fresh subject. "
                       "Concurrently arriving first subscribers must share one upstream subscription and see gap-free, ordered values."
                       " Connectable observables: 2..6 concurrent Connect calls with a source whose subscribe function takes time - one upstream subscription, each value once per subscriber, release after the returned connections are unsubscribed."
                       " Every connectable constructor (Connectable, ConnectableWithConfig, NewConnectableObservable[WithContext][WithConfig[AndContext]]) goes through the same sequences."),
        "level_note": "The concurrent part is statistical and checks invariants only (not the full model).",
    },
    "C10": {
        "run": "^TestC10_",
        "rule": ("sequential: cases = (subject kind and buffer size, operation sequence over {Next v, Error, Complete, Subscribe i, Unsubscribe i}) enumerated exhaustively up to the "
                 "stated length (subscriber ids introduced in order, at most two operations after a terminal) plus rapid sequences up to length 40; non-trivial = the sequence has a "
                 "terminal or an Unsubscribe followed by a later Subscribe. Concurrent: cases = (kind/size, sequential prefix, 2-4 threads of operations), each run several times; "
                 "non-trivial = at least two threads have operations. Distinct by descriptor hash."),
        "quick": {"rapid": 500, "timeout": 300, "shards": 4},
        "thorough": {"rapid": 4000, "timeout": 3000, "shards": 16},
        "assumptions": COMMON_ASSUMPTIONS + ["porcupine v1.3.0 decides linearizability of each recorded history (5 s budget per history; budget exhaustion is counted, not judged)"],
        "technique": "model-based property testing: exhaustive + rapid operation sequences against a sequential reference model; concurrent histories checked for linearizability with porcupine",
        "level_text": ("Exploration. After every step of every enumerated/generated operation sequence, each subscriber's log, CountObservers/HasObserver and IsClosed/HasThrown/"
                       "IsCompleted must equal the 40-line sequential definition of the subject kind (replay rules before and after termination, async final value, unicast "
                       "single subscriber and backlog). Concurrent histories (call/return stamps, final subscriber logs as reads) must be linearizable w.r.t. the same "
                       "definition; callbacks must not overlap and must respect the grammar."
                       " Buffer size 0 is part of the range; publications racing with the terminal call behind a spin barrier, followed by late subscribers. Every Error of a history carries an error value of its own (the stored terminal is the first one); every operation on a subject with a self-unsubscribing subscriber runs under a watchdog (a delivery during which the subscriber leaves must return). Subjects of an interface element type fed values of mixed dynamic types, nil among them (also as the behaviour subject's initial value): every subscriber's log equals that of the int subject."),
        "level_note": ("Two listed unicast findings are reported as KNOWN-FINDING. In the concurrent check the late-subscriber rule of unicast is taken as implemented (it is judged by "
                       "the sequential check). Concurrency coverage is statistical."),
    },
    "C06": {
        "run": "^TestC06_",
        "rule": ("cases = (row or chain, params, script, cut position, way of unsubscribing {harness goroutine, inside the observer's Next, 1-4 concurrent goroutines}); "
                 "(constructor, script, sync/async source, number of concurrent Wait callers, slow terminal callback); (chain, terminating script) for Collect. "
                 "Non-trivial = the cut is strictly inside the script, or >= 2 concurrent callers, or an asynchronous source; distinct by descriptor hash."),
        "quick": {"rapid": 1500, "timeout": 300, "shards": 4},
        "thorough": {"rapid": 60000, "timeout": 3000, "shards": 16},
        "assumptions": COMMON_ASSUMPTIONS + ["'never returns' verdicts use a 10 s real-time bound on operations that are synchronous and finite by construction; 'returns early' verdicts are one-sided"],
        "technique": "property-based testing: history invariant over logical stamps (no callback begins after Unsubscribe returned), Wait/terminal ordering, Collect vs observer differential",
        "level_text": ("Exploration. Every synchronous catalogue row (all params) and random chains are cut by Unsubscribe after every prefix of the script, from the emitting "
                       "goroutine, from inside the observer's Next and from several goroutines at once: IsClosed is true as soon as Unsubscribe has returned, no callback "
                       "begins after that stamp, Wait returns, repeated Unsubscribe is harmless. For all 8 constructors with synchronous and asynchronous producers, 1-3 "
                       "concurrent Wait callers return only after the terminal callback has finished, never on an open stream, and always once it is closed. Collect on "
                       "random chains returns exactly what an observer receives."
                       " Wait after termination when the source's teardown JOINS its other producer goroutines (safe constructors, Serialize)."),
        "level_note": "Asynchronous / queueing rows (Delay, ObserveOn, ToChannel, timers) are cut in the bubble-based checks C16/C17.",
    },
    "C03": {
        "run": "^(TestC03_|FuzzC03_)",
        "rule": ("(a) stateful: rapid action sequences over {Add (optionally panicking), AddUnsubscribable, Add(nil), Unsubscribe, Complete/Error, Wait} on a Subscription / "
                 "Subscriber against a set-of-pending-teardowns model; (a') 2-5 goroutines racing Unsubscribe/Complete/Error/Add/Next on one subscriber, hundreds of "
                 "repetitions each; (b) every catalogue row and random chains over a manually driven source, Unsubscribe at every cut position from the harness, from "
                 "inside Next and from other goroutines; rows that wait inside Subscribe over finite cold sources. Non-trivial = at least one teardown and an ending that "
                 "is a cut or a race (not plain run-to-completion); distinct by descriptor hash."),
        "quick": {"rapid": 1500, "timeout": 300, "shards": 4},
        "thorough": {"rapid": 4000, "timeout": 3000, "shards": 16, "fuzz": {"seconds": 30, "targets": ["FuzzC03_ReleaseChainsRandom"]}},
        "assumptions": COMMON_ASSUMPTIONS,
        "technique": "stateful property-based testing (rapid state machine) + race repetition + enumerated cut positions with instrumented sources",
        "level_text": ("Exploration. Teardown accounting is checked at three levels: the Subscription/Subscriber API against a sequential model (every teardown exactly once, "
                       "late Add runs immediately, all teardowns run before the joined panic is re-raised and it unwraps to every cause, Wait returns, IsClosed tells the "
                       "truth); races between the ways a subscription ends; and for every operator of the catalogue that, once the subscription is closed and Subscribe "
                       "has returned, each upstream subscription's teardown ran exactly once and a TapOnFinalize below the pipeline ran exactly once."
                       " Higher-order operators (ConcatAll, MergeAll, CombineLatestAll, ZipAll, MergeMap, FlatMap) are also fed by an ASYNCHRONOUS outer producer and cut from outside at every position: every inner source released, the producer not left blocked inside the operator, nothing delivered afterwards."
                       " MergeAll / MergeMap over a LIVE outer observable (inners arriving over time, interleaved with the notifications of the running ones, optional Take downstream): per-inner live count after every step and after the cut. A subscription whose teardown panicked must still be usable: a second Unsubscribe and Wait return (watchdog), they do not deadlock."),
        "level_note": ("Race part is statistical. Goroutine-leak freedom of asynchronous rows is asserted in the bubble-based checks (C14/C16/C17), not here."),
    },
    "C08": {
        "run": "^(TestC08_|FuzzC08_)",
        "rule": ("sync clause: cases = (synchronous row or chain, params, script) driven one notification at a time through a manual source from the harness goroutine, "
                 "checked after every call; non-trivial = script with >= 2 values. Hand-off clause: cases = (ObserveOn | SubscribeOn | ToChannel, capacity, input "
                 "length, ending, per-item consumer delays); non-trivial = length > capacity and a consumer that stalls at least once. Distinct by descriptor hash. "
                 "'bound-reached' in classes counts the hand-off cases where the producer actually got capacity+1 ahead (the bound is exercised, not vacuous)."),
        "quick": {"rapid": 1000, "timeout": 300, "shards": 4},
        "thorough": {"rapid": 12000, "timeout": 3000, "shards": 16, "fuzz": {"seconds": 30, "targets": ["FuzzC08_SyncChainsRandom"]}},
        "assumptions": COMMON_ASSUMPTIONS + ["hand-off bounds are upper bounds sampled in the producer and the consumer; machine load can only make them easier to satisfy"],
        "technique": "property-based testing: step-wise differential against an incremental reference model (count, goroutine id, stamp window) + generated consumer-stall patterns with an upper-bound invariant",
        "level_text": ("Exploration. Sync clause: for every synchronous catalogue row (all params, scripts of length <= 4/5) and rapid chains, after each individual "
                       "Next/Error/Complete call on the source returns, the observer must already hold exactly the outputs the incremental model assigns to the "
                       "prefix, each delivered on the caller's goroutine and finished inside the call (logical stamps). Hand-off clause: ObserveOn/SubscribeOn/"
                       "ToChannel with capacities {0,1,2,3,8}, lengths around the capacity, slow consumers: FIFO without loss, terminal after every queued value, "
                       "producer never more than capacity+2 ahead."
                       " The run-ahead bound is the tight one (values accepted from the producer and not yet handled by the consumer <= capacity + 1); hand-off cases are repeated with the subscription context cancelled before notification #j."
                       " Several producers through Serialize, the safe constructors, Merge*, subjects, Share: each producer's Next returns only once the observer has handled THAT value."),
        "level_note": "The hand-off part runs in real time with real goroutines; only upper bounds and order/loss relations are asserted, so timing cannot raise an alarm.",
    },
    "C07": {
        "run": "^(TestC07_|FuzzC07_)",
        "level": "fault_enumeration",
        "rule": ("cases = (row or chain, params, variant, legal script, fault plan) where a fault plan injects, at one (enumerated) or two (rapid) user-callback positions "
                 "- operator callbacks, the source's subscribe function, the final observer's Next/Error/Complete - at a chosen invocation index, a panic(error), "
                 "panic(string), panic(non-error value) or a returned error. Invocation indices come from a fault-free dry run, so every injected fault is reachable. "
                 "Non-trivial = invocation index >= 1, or the position is the subscribe function or an observer callback, or a chain/pair; distinct by descriptor hash."),
        "quick": {"rapid": 2000, "timeout": 300, "shards": 4},
        "thorough": {"rapid": 20000, "timeout": 3000, "shards": 16, "fuzz": {"seconds": 30, "targets": ["FuzzC07_FaultsInChainsRandom"]}},
        "assumptions": COMMON_ASSUMPTIONS,
        "technique": "fault injection by enumeration (position x invocation index x kind) + rapid fault pairs in chains, judged by a fault-aware reference model",
        "level_text": ("Fault enumeration. For every catalogue row with user callbacks (and the source / observer callback positions) every reachable invocation index is "
                       "faulted once, exhaustively over scripts of length <= 3 (quick) / 4 (thorough); rapid adds chains with one or two faults. Oracle: no panic escapes "
                       "Subscribe; the subscriber sees the values the model prescribes before the fault, then exactly one Error whose cause is the injected fault, then "
                       "nothing; faults in the observer's own Error/Complete callbacks reach OnUnhandledError; afterwards a fresh subscription to the same observable "
                       "behaves like an unfaulted run (nothing left locked or closed)."
                       " Observers without an error callback: a Next panic reaches OnUnhandledError exactly once with its cause; an Error addressed to them surfaces exactly once through a hook."),
        "level_note": ("Two listed findings (known_findings.json) are reported as KNOWN-FINDING and excluded from the verdict by (operator, failure class). "
                       "Teardown panics belong to C03; faults in asynchronous rows to C05/C16 harnesses."),
    },
    "C09": {
        "run": "^(TestC09_|FuzzC09_)",
        "rule": ("cases = (row or chain, params, variant, script 1..n with ending, upstream marker operator {none, ContextWithValue, ContextMap}, dynamic kind of the "
                 "subscription context {WithValue, WithCancel, WithDeadline, custom type}). Non-trivial = the case exercises a terminal path (error/complete ending) "
                 "or a row that stores items (SkipLast, TakeLast, Min/Max, Reduce) - not just pass-through Next; distinct by descriptor hash."),
        "quick": {"rapid": 2000, "timeout": 300, "shards": 4},
        "thorough": {"rapid": 30000, "timeout": 3000, "shards": 16, "fuzz": {"seconds": 30, "targets": ["FuzzC09_ChainsRandom", "FuzzC09_ContextOperators"]}},
        "assumptions": COMMON_ASSUMPTIONS,
        "technique": "property-based testing: marker propagation invariants over enumerated rows and rapid chains (subscription marker, upstream marker, per-item provenance, non-nil)",
        "level_text": ("Exploration. Every catalogue row (all variants incl. the context-aware callbacks) and random chains are subscribed with a context carrying a marker; "
                       "sources attach a per-item key; a context operator above the chain attaches a second marker. Checked on every recorded callback (Next, Error, "
                       "Complete) and every context-aware operator callback: context non-nil, subscription marker visible, upstream marker visible wherever the stage "
                       "passes upstream notifications on, the item key of a value-preserving row's output is the key of the item it derives from, contexts returned "
                       "by WithContext callbacks are visible downstream, and every source is subscribed with the subscription context."
                       " Time-driven and hand-off operators (Delay, DelayEach, Timeout, SampleTime, ThrottleTime, time buffers, ObserveOn, SubscribeOn and chains of them, Zip / CombineLatest / WindowWhen with timers) run in virtual time with the same markers: subscription value on every callback, item context travelling with its item, upstream value on forwarded terminals and on Timeout's own error once an item has passed."
                       " Sources written with the context-less API (notifications arrive with context.Background()): what a context operator below the source attaches must be on every kind of notification."
                       " The context operators themselves (ContextWithValue, ContextWithDeadline, ContextWithTimeout, ContextReset incl. nil, ContextMap, ContextMapI) against their documented effect, with pass-through stages in front and behind. The float operators of the math group (Round, Abs, Floor, Ceil, Trunc, Floor/CeilWithPrecision at 21 precisions from -1000 to 1000) over finite, zero, subnormal, largest, NaN and infinite values: the k-th output carries the subscription mark, the mid-pipeline mark and the k-th item mark."),
        "level_note": ("Documented exceptions are encoded, not filtered ad hoc: DefaultIfEmptyWithContext (explicit context), stages that never subscribe their source "
                       "(Take(0) ...), values a stage produces itself (StartWith prefixes, fallbacks). Hand-off/time rows (Delay, ObserveOn, Zip ...) are checked in C08/C16/C05 harnesses."),
    },
    "C12": {
        "run": "^(TestC12_|FuzzC12_)",
        "rule": ("cases = (row or chain, params, variant, cold script(s), mode) with modes: 3 sequential subscriptions; 2 subscriptions alive together over a manually "
                 "driven source; 2-4 concurrent subscriptions; one operator value applied to 2-3 sources and subscribed in every listed order. Non-trivial = the "
                 "row/chain keeps per-subscription state (index, accumulator, buffer, seen-set, counter) or re-subscribes, or an operator value is applied to "
                 ">= 2 sources; distinct by descriptor hash."),
        "quick": {"rapid": 2000, "timeout": 300, "shards": 4},
        "thorough": {"rapid": 20000, "timeout": 3000, "shards": 16, "fuzz": {"seconds": 30, "targets": ["FuzzC12_Random"]}},
        "assumptions": COMMON_ASSUMPTIONS,
        "technique": "property-based testing: differential (n-th / concurrent / co-applied subscription vs first subscription of a fresh pipeline) + model-derived source-subscription counts",
        "level_text": ("Exploration. For every catalogue row (all variants, boundary parameters) and rapid-generated chains, over cold instrumented sources: the trace of "
                       "the 2nd and 3rd subscription, of subscriptions alive at the same time, of concurrent subscriptions, and of pipelines built by applying one "
                       "operator value to several sources must equal the trace of a first subscription to a freshly built pipeline; the source must not be "
                       "subscribed at construction and exactly as often per Subscribe as the definition says (counted on the model)."
                       " Multi-source operators: two overlapping subscriptions to ONE observable over hot sources, second subscription and first unsubscription at every position, each judged by its own step model, per-source count of live subscriptions compared after every step. Time-related operator values and observables (ContextWithTimeout, Timeout, Delay, samplers, time buffers, Timer, Interval*, *WithInterval, TakeUntil(Timer)...) are subscribed after ageing 1 ms..5 s in virtual time and a second time: same notifications at the same offsets and the same relative context deadlines as a fresh one. Every subscription of the resubscribe / apply-many modes brings a context marked with its number: no notification may carry the mark of another subscription."),
        "level_note": "Hot constructs (subjects, Share*, connectables) are excluded as the property says; concurrent mode is statistical (scheduler-dependent).",
    },
    "C01": {
        "run": "^TestC01_",
        "rule": ("cases = (constructor | catalogue row | subject kind and buffer size, producer word over {N1,N2,E,C} including illegal suffixes after a terminal, "
                 "observer style, subscriber placement) enumerated exhaustively up to the stated word length, plus rapid-generated concurrent cases "
                 "(2-4 goroutines each playing a word into one safe observable or subject, 5 repetitions each, slow Next callback). Non-trivial = the word "
                 "has at least one notification after its first terminal, or >= 2 producers with a terminal among their words; distinct by descriptor hash."),
        "quick": {"rapid": 1500, "timeout": 300, "shards": 4},
        "thorough": {"rapid": 20000, "timeout": 3000, "shards": 16},
        "assumptions": COMMON_ASSUMPTIONS,
        "technique": "property-based testing: exhaustive word enumeration + rapid-generated concurrent producers, judged by a grammar automaton and drop-hook accounting",
        "level_text": ("Exploration. A raw recording observer (no status guard of its own) is attached through Subscribe to every observable constructor, every "
                       "catalogue row and every subject kind/buffer size, and the producer plays every word of length <= 4 (quick) / 5 (thorough) over "
                       "{Next 1, Next 2, Error, Complete}, most of which break the contract after the first terminal; the automaton Next* (Error|Complete)? "
                       "must accept what the observer saw and, for bare observables and subjects, delivered + dropped-hook calls must equal what was emitted. "
                       "Concurrent producers are generated for the safe constructors and the subjects (statistical)."
                       " Bare constructors are also run with a subscribe function that panics AFTER having played its word (the recovered panic must obey the grammar like any other notification)."
                       " The subscriber constructors used directly, the partial observers (OnNext / OnError / OnComplete and WithContext forms) and subjects reached through NewSubject / AsObserver / AsObservable are fed every word as well."),
        "level_note": ("The concurrent part only sees the interleavings the Go scheduler produces (5 repetitions per generated case, widened by a slow callback); "
                       "asynchronous / multi-source rows are covered by C02/C05, panicking callbacks by C07."),
    },
    "C04": {
        "run": "^(TestC04_|FuzzC04_)",
        "rule": ("cases = (catalogue row, constructor variant, boundary parameters, input script, ending); enumerated exhaustively "
                 "inside the small scope stated in 'enumerated_scope', then drawn by rapid (longer scripts, wider values, random chains, "
                 "Pipe/PipeN/PipeOpN arities 1..25). A case is non-trivial when the input has >= 1 value, or it is a chain of >= 2 stages; "
                 "distinct = distinct (row/chain, variant, params, script) descriptor, counted by hash set."),
        "quick": {"rapid": 1500, "timeout": 300, "shards": 4},
        "thorough": {"rapid": 12000, "timeout": 3000, "shards": 16, "fuzz": {"seconds": 30, "targets": ["FuzzC04_ChainsRandom", "FuzzC04_LongScripts", "FuzzC04_MathTyped", "FuzzC04_MathRounding", "FuzzC04_Dematerialize"]}},
        "assumptions": COMMON_ASSUMPTIONS,
        "technique": "property-based testing: bounded-exhaustive enumeration + rapid generation against a reference model; variant and composition differentials",
        "level_text": ("Exploration. Every catalogue row (about 65 behaviours, all their plain/I/WithContext/IWithContext/alias variants) is run on every value "
                       "sequence up to length 4 (quick) / 5 (thorough) over {1,2,3} with completion, error and open endings and every boundary parameter, "
                       "and compared with a reference model written from the documentation; every ordered pair of rows and random chains up to length 5 are "
                       "compared with the composition of the models; Pipe/PipeN/PipeOp/PipeOpN/manual nesting are compared for every arity 1..25 with "
                       "non-commuting maps; creation operators are compared with their definition including int64 extremes; delivered slices/maps are "
                       "checked for later mutation. Sampled beyond the small scope; no claim outside explored cases."
                       " Sum, Average, Min, Max, Clamp and Count are run over every numeric element type (int8..uint64, float32/64, values at the type's limits) against exact rational arithmetic."
                       " Dematerialize over arbitrary notification streams (in-band and out-of-band endings, Take upstream); for every operator that delivers slices or maps, a consumer that clears whatever it receives must be delivered the same sequence as a passive one."
                       " Every catalogue row is also fed a stream that ends with Error(nil) (the library accepts it): same values and same kind of ending as with a non-nil error."
                       " Round / Abs / Floor / Ceil / Trunc against the math package bit for bit; FloorWithPrecision / CeilWithPrecision(places in -1000..1000) against a validity predicate in exact rational arithmetic (the multiple of 10^-places next to the value - or to a neighbour within two ulps, a float64 standing for the decimal the user wrote -, +-Inf where the ideal result leaves the float64 range). Memory ownership of delivered containers: a consumer that overwrites the spare capacity of every slice it was handed must not change anything delivered later (an operator may not keep writing into memory it handed out). Every catalogue row is also fed items whose own context is already cancelled, or is cancelled as soon as the emission returned: same values and ending as with live item contexts (only the subscription context stops a pipeline). Subscribed with a subscription context that is already cancelled, every row delivers a prefix of what it delivers otherwise and, if the source ended, an ending (the same one or the context's error). Generic operators instantiated with an interface element type over values of mixed dynamic types (nil, int, string, struct) deliver what the int instantiation delivers (38 operators x 8 scripts). Count parameters at the top of their range (Take/Skip/ElementAtOrDefault(MaxInt64), Range next to MaxInt64/MinInt64)."),
        "level_note": ("Trusts the hand-written reference models (harness/model) and the documentation reading recorded in DESIGN.md appendix A. "
                       "Time-driven, hand-off and multi-source rows are judged by C05/C08/C16/C17, float rounding helpers by validity predicates only."),
    },
}
