#!/usr/bin/env python3
"""Confirms a seeded change produced by an independent sub-agent:
   - the patch applies to /repo HEAD in a scratch worktree (outside /repo and /verif),
   - the pinned suite still passes with it (stable_missing=0, retried once for timing flakes),
   - the demonstration fails with the change and passes without it.
   On success the change is stored as /verif/seeded/<id>-<n>/ {patch.diff, demo_test.go, meta.json}.
usage: confirm_seed.py C07 1 [--modules .,./plugins/x]"""
import json, os, shutil, subprocess, sys, re
pid, n = sys.argv[1], sys.argv[2]
mods = "."
if "--modules" in sys.argv:
    mods = sys.argv[sys.argv.index("--modules") + 1]
root = os.environ.get("SEED_ROOT", "/tmp/seed")
off = int(os.environ.get("SEED_OFFSET", "0"))  # round 2: SEED_ROOT=/tmp/seed2 SEED_OFFSET=2
src = f"{root}/{pid}/out/{n}"
dn = int(n) + off
meta = json.load(open(f"{src}/meta.json"))
wt = f"/tmp/confirm/{pid}-{int(n)+int(os.environ.get('SEED_OFFSET','0'))}"
os.makedirs("/tmp/confirm", exist_ok=True)
subprocess.run(["git", "-C", "/repo", "worktree", "remove", "--force", wt], capture_output=True)
subprocess.run(["git", "-C", "/repo", "worktree", "add", "-q", "--detach", wt, "HEAD"], check=True)
env = dict(os.environ); env.pop("GOFLAGS", None); env.update(GOPROXY="off", GOSUMDB="off", GOTOOLCHAIN="local")
log = {}
def sh(cmd, cwd, timeout=1500):
    p = subprocess.run(cmd, cwd=cwd, env=env, shell=True, capture_output=True, text=True, timeout=timeout)
    return p.returncode, (p.stdout + p.stderr)[-3000:]
try:
    rc, out = sh(f"git apply {src}/patch.diff || git apply -3 {src}/patch.diff", wt)
    log["apply"] = (rc, out)
    if rc != 0:
        raise SystemExit(f"{pid}-{n}: patch does not apply: {out}")
    # module directory for the demo
    ddir = meta.get("demo_dir", ".").strip() or "."
    gomod_flag = ""
    rc, gw = sh("go env GOWORK", os.path.join(wt, ddir))
    if gw.strip() in ("", "off"):
        gomod_flag = "-mod=mod"
    ok_suite = False
    for attempt in range(3):
        rc, out = sh(f"python3 /verif/tools/baseline.py {wt} --modules {mods}", wt)
        log[f"suite{attempt}"] = out.strip().splitlines()[:6]
        if rc == 0:
            ok_suite = True
            break
    if ddir != ".":
        rc, out = sh(f"go test {gomod_flag} -vet=off -count=1 ./...", os.path.join(wt, ddir))
        log["own_suite"] = (rc, out[-500:])
        ok_suite = ok_suite and rc == 0
    demo_dst = os.path.join(wt, ddir, "zz_seed_demo_test.go")
    shutil.copy(f"{src}/demo_test.go", demo_dst)
    runflags = "-race" if "-race" in meta.get("demo_run", "") else ""
    m = re.search(r"-run[ =]'?\"?([^'\" ]+)", meta.get("demo_run", ""))
    runre = m.group(1) if m else "."
    democmd = f"go test {gomod_flag} {runflags} -vet=off -count=1 -timeout 600s -run '{runre}' ."
    rc_with, out_with = sh(democmd, os.path.join(wt, ddir))
    sh(f"git apply -R {src}/patch.diff", wt)
    rc_without, out_without = sh(democmd, os.path.join(wt, ddir))
    log["demo_with"] = (rc_with, out_with[-600:])
    log["demo_without"] = (rc_without, out_without[-300:])
    good = ok_suite and rc_with != 0 and rc_without == 0
    print(f"{pid}-{dn}: suite_ok={ok_suite} demo_fails_with={rc_with != 0} demo_passes_without={rc_without == 0} => {'CONFIRMED' if good else 'REJECTED'}")
    if good:
        dst = f"/verif/seeded/{pid}-{dn}"
        os.makedirs(dst, exist_ok=True)
        shutil.copy(f"{src}/patch.diff", dst)
        shutil.copy(f"{src}/demo_test.go", dst)
        meta["confirmed"] = {"baseline": f"python3 /verif/tools/baseline.py <scratch worktree with patch> --modules {mods} -> stable_missing=0",
                             "demo_cmd": democmd, "demo_with_change": "FAIL", "demo_without_change": "PASS",
                             "demo_fail_excerpt": out_with[-400:]}
        json.dump(meta, open(f"{dst}/meta.json", "w"), indent=1)
    else:
        json.dump(log, open(f"/tmp/confirm/{pid}-{dn}.log.json", "w"), indent=1, default=str)
finally:
    subprocess.run(["git", "-C", "/repo", "worktree", "remove", "--force", wt], capture_output=True)
