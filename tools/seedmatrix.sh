#!/bin/bash
# Runs every seeded change against the check of its own property (and extra checks given in seeded/<id>/also) and prints a matrix.
cd /verif
for d in seeded/*/; do
  s=$(basename $d); p=${s%-*}
  extra=""
  [ -f $d/also ] && extra=$(cat $d/also)
  tools/seedrun.sh $s $p $extra
done
