#!/bin/bash
# Parallel seed matrix: N scratch worktrees of /repo HEAD under /var/tmp (outside /repo and /verif), each seeded
# change applied to one of them, the quick checks run against it through VERIF_REPO, the worktree reset, and at
# the end removed. /repo itself is never touched. usage: seedmatrix_par.sh [N] > matrix.log
N=${1:-4}
cd /verif
# builds against scratch trees get a build cache of their own, removed afterwards (each tree path would
# otherwise add about a gigabyte to the shared cache)
export GOCACHE=/var/tmp/seed-gocache-$$
ls -d seeded/*/ | xargs -n1 basename > /var/tmp/seedlist.$$
worker() {
  w=$1; wt=/var/tmp/seedwt-$$-$w
  git -C /repo worktree add -q --detach $wt HEAD || exit 1
  i=0
  while read s; do
    i=$((i+1)); [ $((i % N)) -eq $w ] || continue
    p=${s%-*}; extra=""; [ -f seeded/$s/also ] && extra=$(cat seeded/$s/also)
    if ! git -C $wt apply /verif/seeded/$s/patch.diff 2>/dev/null; then echo "$s: patch does not apply to the current tree"; continue; fi
    for c in $p $extra; do
      out=$(VERIF_REPO=$wt ./check $c 2>/dev/null); rc=$?
      v=$(echo "$out" | grep -a -m1 -E "^VIOLATION" | cut -c1-160)
      echo "seed=$s check=$c exit=$rc ${v}"
    done
    git -C $wt checkout -q -- . ; git -C $wt clean -fdq
  done < /var/tmp/seedlist.$$
  git -C /repo worktree remove --force $wt
}
for w in $(seq 0 $((N-1))); do worker $w & done
wait
rm -f /var/tmp/seedlist.$$
git -C /repo worktree prune
rm -rf $GOCACHE
