package checks

import (
	"context"
	"encoding/json"
	"fmt"
	"math"
	"sync"
	"testing"
	"time"

	"github.com/samber/ro"
	"pgregory.net/rapid"
	"verifharness/cat"
	"verifharness/rt"
)

// Real-time part of C16: the three operators whose clock is the process
// monotonic clock (ThrottleTime, TimeInterval, Timestamp) and Timeout under a
// slow observer (a virtual sleep under a contended subscriber lock would stall a
// bubble). Only one-sided bounds derived from harness stamps are asserted, so
// machine load can only make them easier to satisfy.

type c16Real struct {
	Op     string `json:"op"`
	DMs    int    `json:"d_ms"`
	GapsMs []int  `json:"gaps_ms"`
	SlowMs []int  `json:"observer_ms,omitempty"` // time the observer spends on value k
	// Forever (ThrottleTime): interval = time.Duration(math.MaxInt64) ("the first value only")
	Forever bool `json:"interval_forever,omitempty"`
}

func init() {
	replayers["realtime"] = func(t *testing.T, raw json.RawMessage) {
		var c c16Real
		if err := json.Unmarshal(raw, &c); err != nil {
			t.Fatal(err)
		}
		c16RunReal(t, c)
	}
}

func c16RunReal(t rt.TB, c c16Real) {
	fail := func(class, msg string) {
		rt.Report(t, rt.Failure{Property: "C16", Check: "realtime", Op: c.Op, Class: class, Msg: msg, Case: c})
	}
	rt.NewSink()
	man := rt.NewManual("src", rt.CtorUnsafeCtx)
	d := ms(c.DMs)
	var obs ro.Observable[any]
	switch c.Op {
	case "ThrottleTime":
		if c.Forever {
			d = time.Duration(math.MaxInt64)
		}
		obs = anyObs(ro.ThrottleTime[int](d)(man.Observable()))
	case "TimeInterval":
		obs = anyObs(ro.TimeInterval[int]()(man.Observable()))
	case "Timestamp":
		obs = anyObs(ro.Timestamp[int]()(man.Observable()))
	case "Timeout":
		obs = anyObs(ro.Timeout[int](d)(man.Observable()))
	}
	type stamp struct {
		k     byte
		v     any
		err   error
		entry time.Time
	}
	var mu sync.Mutex
	var got []stamp
	rec := rt.NewRecorder[any]()
	nvals := 0
	rec.Hook = func(k byte, _ context.Context, v any, err error) {
		now := time.Now()
		mu.Lock()
		got = append(got, stamp{k, v, err, now})
		i := nvals
		if k == 'N' {
			nvals++
		}
		mu.Unlock()
		if k == 'N' && i < len(c.SlowMs) && c.SlowMs[i] > 0 {
			time.Sleep(ms(c.SlowMs[i]))
		}
	}
	subStart := time.Now()
	sub := obs.Subscribe(rec)
	subReturn := time.Now()
	emitStart := make([]time.Time, len(c.GapsMs))
	emitReturn := make([]time.Time, len(c.GapsMs))
	for i, g := range c.GapsMs {
		time.Sleep(ms(g))
		emitStart[i] = time.Now()
		man.Emit(rt.N(i + 1))
		emitReturn[i] = time.Now()
	}
	endStart := time.Now()
	man.Emit(rt.C())
	sub.Unsubscribe()
	mu.Lock()
	defer mu.Unlock()
	desc := fmt.Sprintf("%s(%dms) gaps=%v observer=%v", c.Op, c.DMs, c.GapsMs, c.SlowMs)
	switch c.Op {
	case "ThrottleTime":
		// at most one value per window: two passed values i<j were let through more
		// than one interval apart; entry_j - emitStart_i is an upper bound of that distance
		var passed []stamp
		for _, s := range got {
			if s.k == 'N' {
				passed = append(passed, s)
			}
		}
		prev := 0
		for j, s := range passed {
			x := cat.Norm(s.v).(int)
			if x <= prev {
				fail("not-a-subsequence-of-the-source", fmt.Sprintf("%s: passed %v", desc, passed))
				return
			}
			if j > 0 {
				if dist := s.entry.Sub(emitStart[prev-1]); dist <= d {
					fail("more-than-one-value-per-window", fmt.Sprintf("%s: values %d and %d both passed although at most %v separate them (window %v)", desc, prev, x, dist, d))
					return
				}
			}
			prev = x
		}
	case "TimeInterval", "Timestamp":
		k := 0
		var prevTS time.Duration = -1
		for _, s := range got {
			if s.k != 'N' {
				continue
			}
			if k >= len(c.GapsMs) {
				fail("value-invented", desc)
				return
			}
			var val int
			var dur time.Duration
			switch x := s.v.(type) {
			case ro.IntervalValue[int]:
				val, dur = x.Value, x.Interval
			case ro.TimestampValue[int]:
				val, dur = x.Value, x.Timestamp
			}
			if val != k+1 {
				fail("value-not-preserved", fmt.Sprintf("%s: output #%d carries value %d", desc, k, val))
				return
			}
			if dur < 0 {
				fail("negative-duration", fmt.Sprintf("%s: output #%d reports %v", desc, k, dur))
				return
			}
			if c.Op == "TimeInterval" {
				// the gap between two consecutive values is at least emitStart_k - emitReturn_{k-1}
				lower := emitStart[k].Sub(subReturn)
				if k > 0 {
					lower = emitStart[k].Sub(emitReturn[k-1])
				}
				if dur < lower {
					fail("interval-shorter-than-real-gap", fmt.Sprintf("%s: output #%d reports an interval of %v, the harness measured at least %v", desc, k, dur, lower))
					return
				}
			} else {
				lower := emitStart[k].Sub(subReturn)
				upper := s.entry.Sub(subStart)
				if dur < lower || dur > upper {
					fail("timestamp-outside-measured-window", fmt.Sprintf("%s: output #%d reports %v since subscription, the harness measured between %v and %v", desc, k, dur, lower, upper))
					return
				}
				if dur < prevTS {
					fail("timestamps-decrease", desc)
					return
				}
				prevTS = dur
			}
			k++
		}
	case "Timeout":
		// a timeout is only justified by a quiet period of d. Quiet periods are at most
		// the distances between consecutive "activity ends" and "next activity starts";
		// here: emitReturn_{k-1} -> emitStart_k, subscription -> first, last -> completion.
		for _, s := range got {
			if s.k == 'E' && cat.ErrKey(s.err) != "timeout" {
				fail("unexpected-error", fmt.Sprintf("%s: ended with %v", desc, s.err))
				return
			}
			if s.k == 'E' && cat.ErrKey(s.err) == "timeout" {
				maxQuiet := time.Duration(0)
				prevEnd := subStart
				for i := range c.GapsMs {
					if emitStart[i].After(s.entry) {
						break
					}
					if q := emitStart[i].Sub(prevEnd); q > maxQuiet {
						maxQuiet = q
					}
					prevEnd = emitStart[i] // the timer is re-armed when the value has been forwarded; counting from its arrival is the generous side
				}
				if q := endStart.Sub(prevEnd); s.entry.After(endStart) && q > maxQuiet {
					maxQuiet = q
				} else if q := s.entry.Sub(prevEnd); !s.entry.After(endStart) && q > maxQuiet {
					maxQuiet = q
				}
				if maxQuiet < d {
					fail("timeout-without-a-full-quiet-period", fmt.Sprintf("%s: timeout raised although the longest quiet period measured by the harness was %v", desc, maxQuiet))
				}
				return
			}
		}
	}
}

func TestC16_RealTime(t *testing.T) {
	cases := []c16Real{
		{Op: "ThrottleTime", DMs: 4, GapsMs: []int{0, 0, 0, 5, 0, 1, 6}},
		{Op: "ThrottleTime", DMs: 2, GapsMs: []int{1, 1, 1, 1, 3, 0, 0}},
		{Op: "ThrottleTime", Forever: true, GapsMs: []int{0, 0, 1, 0, 2}},
		{Op: "ThrottleTime", Forever: true, GapsMs: []int{3, 3}},
		{Op: "TimeInterval", GapsMs: []int{0, 2, 0, 3}},
		{Op: "Timestamp", GapsMs: []int{0, 2, 0, 3}},
		{Op: "Timeout", DMs: 30, GapsMs: []int{0, 20, 5}, SlowMs: []int{0, 25, 0}},
		{Op: "Timeout", DMs: 20, GapsMs: []int{5, 12, 12}, SlowMs: []int{15, 0, 15}},
		{Op: "Timeout", DMs: 15, GapsMs: []int{0, 40}},
	}
	for i, c := range cases {
		if !rt.Mine(i) {
			continue
		}
		c16RunReal(t, c)
		rt.Case(caseKey("real", fmt.Sprint(c)), true, "real:"+c.Op, func() any { return c })
	}
	rapid.Check(t, func(t *rapid.T) {
		op := rapid.SampledFrom([]string{"ThrottleTime", "TimeInterval", "Timestamp", "Timeout"}).Draw(t, "op")
		c := c16Real{Op: op, DMs: rapid.IntRange(1, 6).Draw(t, "d"), GapsMs: rapid.SliceOfN(rapid.IntRange(0, 7), 1, 6).Draw(t, "gaps")}
		if op == "Timeout" {
			c.DMs = rapid.IntRange(8, 25).Draw(t, "d")
			c.GapsMs = rapid.SliceOfN(rapid.IntRange(0, 14), 1, 4).Draw(t, "gaps")
			c.SlowMs = rapid.SliceOfN(rapid.IntRange(0, 20), 0, 4).Draw(t, "slow")
		}
		if op == "ThrottleTime" && rapid.IntRange(0, 4).Draw(t, "forever") == 0 {
			c.Forever = true
		}
		c16RunReal(t, c)
		rt.Case(caseKey("realrand", fmt.Sprint(c)), true, "real:"+op, func() any { return c })
	})
}
