package checks

import (
	"encoding/json"
	"fmt"
	"reflect"
	"sync"
	"testing"
	"time"

	"github.com/samber/ro"
	"pgregory.net/rapid"
	"verifharness/cat"
	"verifharness/rt"
)

// C06 — Unsubscribe cuts delivery; IsClosed, Wait and Collect tell the truth.

func init() {
	replayers["cut"] = func(t *testing.T, raw json.RawMessage) {
		var c cutCase
		if err := json.Unmarshal(raw, &c); err != nil {
			t.Fatal(err)
		}
		c06RunCut(t, c)
	}
	replayers["collect"] = func(t *testing.T, raw json.RawMessage) {
		var c c04Chain
		if err := json.Unmarshal(raw, &c); err != nil {
			t.Fatal(err)
		}
		c06RunCollect(t, c)
	}
	replayers["wait"] = func(t *testing.T, raw json.RawMessage) {
		var c c06Wait
		if err := json.Unmarshal(raw, &c); err != nil {
			t.Fatal(err)
		}
		c06RunWait(t, c)
	}
}

func c06RunCut(t rt.TB, c cutCase) {
	name := chainName(c.Links)
	fail := func(class, msg string) {
		rt.Report(t, rt.Failure{Property: "C06", Check: "cut", Op: name, Class: class, Msg: msg, Case: c})
	}
	o := cutRun(c)
	if o.pan != nil {
		fail("panic-escaped", fmt.Sprint(o.pan))
		return
	}
	if o.uStamp == 0 {
		return // never cut in this case
	}
	if !o.closedAtU {
		fail("not-closed-after-unsubscribe", fmt.Sprintf("%s over [%s]: IsClosed() was false right after Unsubscribe returned (cut %d, %s)", name, rt.ScriptString(c.Script), c.Cut, c.How))
		return
	}
	if !o.sub.IsClosed() {
		fail("not-closed-after-unsubscribe", "IsClosed() false at the end")
		return
	}
	// (1b) the harness unsubscribed from the emitting goroutine (or from inside the
	// callback) and the pipeline is synchronous: nothing can be in flight, so no
	// callback may *begin* after U
	for i, r := range o.rec.Recs() {
		if r.In > o.uStamp {
			fail("delivery-after-unsubscribe", fmt.Sprintf("%s over [%s]: Unsubscribe (%s) returned at stamp %d after %d notifications, yet callback #%d %s began at stamp %d", name, rt.ScriptString(c.Script), c.How, o.uStamp, c.Cut, i, r, r.In))
			return
		}
	}
	// Wait returns on a closed subscription
	done := make(chan struct{})
	go func() { o.sub.Wait(); close(done) }()
	select {
	case <-done:
	case <-time.After(10 * time.Second):
		fail("wait-blocks-on-closed-subscription", fmt.Sprintf("%s: Wait() still blocked 10s after Unsubscribe returned", name))
		return
	}
	// idempotent
	func() {
		defer func() {
			if r := recover(); r != nil {
				fail("second-unsubscribe-panics", fmt.Sprint(r))
			}
		}()
		o.sub.Unsubscribe()
		o.sub.Unsubscribe()
	}()
}

func TestC06_CutEnumerated(t *testing.T) {
	maxLen := 3
	if rt.Thorough() {
		maxLen = 4
	}
	scripts := legalScripts([]int{1, 2}, maxLen, []byte{'C', 'E', 0})
	idx := 0
	for _, row := range cat.Rows {
		if row.Waits || row.Async {
			continue
		}
		for _, p := range row.Params {
			idx++
			if !rt.Mine(idx) {
				continue
			}
			v := row.Variants[idx%len(row.Variants)]
			cutCases(row, v, p, scripts, func(c cutCase) {
				if c.Cut > len(c.Script) {
					return
				}
				c06RunCut(t, c)
				rt.Case(caseKey("cut", row.Name, v, p, c.Script, c.Cut, c.How), c.Cut > 0 && c.Cut < len(c.Script) || c.Extra > 0, "cut:"+c.How, func() any { return c })
			})
		}
	}
	rt.Note("enumerated_scope", fmt.Sprintf("every synchronous catalogue row x params x scripts of length <= %d x Unsubscribe after every prefix x {harness, inside Next, 1-3 other goroutines}", maxLen))
}

func TestC06_CutChainsRandom(t *testing.T) {
	rapid.Check(t, func(t *rapid.T) {
		n := rapid.IntRange(2, 4).Draw(t, "chainLen")
		links := make([]cat.Link, n)
		for i := range links {
			links[i] = genLink(t, false)
		}
		s := genScript(t, 8, 1, 3, []byte{'C', 'E', 0})
		c := cutCase{Links: links, Script: s, Cut: rapid.IntRange(0, len(s)).Draw(t, "cut"), How: rapid.SampledFrom([]string{"harness", "other-goroutine", "inside-next"}).Draw(t, "how"), Extra: rapid.IntRange(0, 3).Draw(t, "extra")}
		if c.How == "inside-next" && c.Cut == 0 {
			c.Cut = 1
		}
		c06RunCut(t, c)
		rt.Case(caseKey("cutchain", fmt.Sprint(links), s, c.Cut, c.How, c.Extra), c.Cut > 0 && c.Cut < len(s), "cut-chain:"+c.How, func() any { return c })
	})
}

// ---- Wait: returns only after the terminal callback has returned, and always returns -------------

type c06Wait struct {
	Ctor    rt.Ctor `json:"ctor"`
	Script  []rt.Ev `json:"script"`
	Waiters int     `json:"waiters"`
	SlowUs  int     `json:"terminal_callback_us"`
	Async   bool    `json:"async_source"`
}

func c06RunWait(t rt.TB, c c06Wait) {
	fail := func(class, msg string) {
		rt.Report(t, rt.Failure{Property: "C06", Check: "wait", Op: string(c.Ctor), Class: class, Msg: msg, Case: c})
	}
	rec := rt.NewRecorder[int]()
	rec.Hook = func(k byte, _ ctxT, v any, err error) {
		if k != 'N' && c.SlowUs > 0 {
			time.Sleep(time.Duration(c.SlowUs) * time.Microsecond)
		}
	}
	startEmit := make(chan struct{})
	var obs ro.Observable[int]
	if c.Async {
		obs = rt.Build(c.Ctor, func(ctx ctxT, d ro.Observer[int]) ro.Teardown {
			go func() {
				<-startEmit
				for _, e := range c.Script {
					switch e.K {
					case 'N':
						d.Next(e.V)
					case 'E':
						d.Error(rt.Err(e.V))
					case 'C':
						d.Complete()
					}
				}
			}()
			return nil
		})
	} else {
		obs = rt.NewScript("src", c.Ctor, c.Script).Observable()
	}
	sub := obs.Subscribe(rec)
	var wg sync.WaitGroup
	waitStamps := make([]int64, c.Waiters)
	for i := 0; i < c.Waiters; i++ {
		wg.Add(1)
		go func(i int) {
			defer wg.Done()
			sub.Wait()
			waitStamps[i] = rt.Tick()
		}(i)
	}
	close(startEmit)
	done := make(chan struct{})
	go func() { wg.Wait(); close(done) }()
	terminated := scriptEnd(c.Script) != 0
	if !terminated {
		// never ends by itself: Wait must not return until we unsubscribe
		select {
		case <-done:
			if c.Waiters > 0 {
				fail("wait-returns-on-open-subscription", fmt.Sprintf("%s over [%s]: Wait returned although the stream neither terminated nor was unsubscribed", c.Ctor, rt.ScriptString(c.Script)))
				return
			}
		case <-time.After(3 * time.Millisecond):
		}
		sub.Unsubscribe()
	}
	select {
	case <-done:
	case <-time.After(10 * time.Second):
		fail("wait-never-returns", fmt.Sprintf("%s over [%s] (async=%v): %d Wait callers still blocked 10s after the subscription closed", c.Ctor, rt.ScriptString(c.Script), c.Async, c.Waiters))
		return
	}
	if terminated {
		recs := rec.Recs()
		var termOut int64
		for _, r := range recs {
			if r.K != 'N' {
				termOut = r.Out
				break
			}
		}
		for i, ws := range waitStamps {
			if termOut == 0 || ws < termOut {
				fail("wait-returns-before-terminal-callback-finished", fmt.Sprintf("%s over [%s] (async=%v): Wait caller #%d returned at stamp %d, the terminal callback finished at stamp %d", c.Ctor, rt.ScriptString(c.Script), c.Async, i, ws, termOut))
				return
			}
		}
	}
}

func TestC06_Wait(t *testing.T) {
	scripts := [][]rt.Ev{{rt.C()}, {rt.E(1)}, {rt.N(1), rt.C()}, {rt.N(1), rt.N(2), rt.E(1)}, {rt.N(1)}, {}}
	idx := 0
	for _, ctor := range rt.AllCtors {
		for _, s := range scripts {
			for _, async := range []bool{false, true} {
				for _, w := range []int{1, 3} {
					for _, slow := range []int{0, 300} {
						idx++
						if !rt.Mine(idx) {
							continue
						}
						c := c06Wait{Ctor: ctor, Script: s, Waiters: w, SlowUs: slow, Async: async}
						for rep := 0; rep < 3; rep++ {
							c06RunWait(t, c)
						}
						rt.Case(caseKey("wait", ctor, s, async, w, slow), async || w > 1, "wait", func() any { return c })
					}
				}
			}
		}
	}
}

// ---- Collect -------------------------------------------------------------------------------------

func c06RunCollect(t rt.TB, c c04Chain) {
	name := chainName(c.Links)
	env := cat.NewEnv()
	real := cutBuild(c.Links, env)
	src := rt.NewScript("src", rt.CtorUnsafeCtx, c.Script)
	obs := real(src.Observable())
	rec := rt.NewRecorder[int]()
	func() {
		defer func() { recover() }()
		obs.Subscribe(rec)
	}()
	want := rec.Trace()
	type res struct {
		vals []int
		err  error
	}
	ch := make(chan res, 1)
	go func() {
		defer func() {
			if r := recover(); r != nil {
				ch <- res{nil, fmt.Errorf("panic: %v", r)}
			}
		}()
		v, err := ro.Collect(obs)
		ch <- res{v, err}
	}()
	fail := func(class, msg string) {
		rt.Report(t, rt.Failure{Property: "C06", Check: "collect", Op: name, Class: class, Msg: msg, Case: c})
	}
	select {
	case r := <-ch:
		wantVals := make([]int, len(want.Vals))
		for i, v := range want.Vals {
			wantVals[i] = v.(int)
		}
		if !(len(r.vals) == 0 && len(wantVals) == 0) && !reflect.DeepEqual(r.vals, wantVals) {
			fail("collect-values-differ-from-delivery", fmt.Sprintf("%s over [%s]: Collect returned %v, an observer received %v", name, rt.ScriptString(c.Script), r.vals, wantVals))
			return
		}
		if (want.End == 'E') != (r.err != nil) || (want.End == 'E' && cat.ErrKey(r.err) != cat.ErrKey(want.Err)) {
			fail("collect-error-differs-from-delivery", fmt.Sprintf("%s over [%s]: Collect returned error %v, an observer received %v", name, rt.ScriptString(c.Script), r.err, want))
		}
	case <-time.After(10 * time.Second):
		fail("collect-hangs-on-terminated-stream", fmt.Sprintf("%s over [%s]: Collect did not return within 10s although the stream terminates (%s)", name, rt.ScriptString(c.Script), want))
	}
}

func TestC06_Collect(t *testing.T) {
	rapid.Check(t, func(t *rapid.T) {
		n := rapid.IntRange(1, 4).Draw(t, "chainLen")
		links := make([]cat.Link, n)
		for i := range links {
			links[i] = genLink(t, true)
		}
		if chainDiverges(links) {
			return
		}
		c := c04Chain{Links: links, Script: genScript(t, 8, 1, 4, []byte{'C', 'E'})}
		c06RunCollect(t, c)
		rt.Case(caseKey("collect", fmt.Sprint(links), c.Script), true, "collect", func() any { return c })
	})
}

// ---- Wait racing with Unsubscribe / terminal --------------------------------------------------------

func TestC06_WaitCloseRace(t *testing.T) {
	reps := 240000
	if rt.Thorough() {
		reps = 1500000
	}
	reps /= rt.ShardCount()
	closers := []string{"Unsubscribe", "Complete", "Error"}
	var wg sync.WaitGroup
	workers := 8
	var failMu sync.Mutex
	failed := ""
	for w := 0; w < workers; w++ {
		wg.Add(1)
		go func(w int) {
			defer wg.Done()
			for i := 0; i < reps/workers; i++ {
				how := closers[(i+w)%3]
				s := ro.NewSubscriber[int](ro.NoopObserver[int]())
				start := make(chan struct{})
				waited := make(chan struct{})
				go func() { <-start; s.Wait(); close(waited) }()
				go func() {
					<-start
					switch how {
					case "Unsubscribe":
						s.Unsubscribe()
					case "Complete":
						s.Complete()
					case "Error":
						s.Error(rt.Err(1))
					}
				}()
				close(start)
				select {
				case <-waited:
				case <-time.After(10 * time.Second):
					failMu.Lock()
					failed = fmt.Sprintf("Wait() racing with %s (iteration %d): still blocked 10s after the subscription was closed (IsClosed=%v)", how, i, s.IsClosed())
					failMu.Unlock()
					return
				}
			}
		}(w)
	}
	wg.Wait()
	c := map[string]any{"race": "Wait vs Unsubscribe/Complete/Error on one subscriber", "repetitions": reps}
	if failed != "" {
		rt.Report(t, rt.Failure{Property: "C06", Check: "wait-race", Op: "Subscriber", Class: "wait-never-returns-under-race", Msg: failed, Case: c})
	}
	for _, h := range closers {
		rt.Case("waitrace|"+h, true, "wait-race", func() any { return c })
	}
	rt.NoteAdd("wait_close_race_repetitions", int64(reps))
}
