package checks

import (
	"context"
	"encoding/json"
	"errors"
	"fmt"
	"sync"
	"sync/atomic"
	"testing"
	"time"

	"github.com/samber/ro"
	"pgregory.net/rapid"
	"verifharness/cat"
	"verifharness/rt"
)

// C03 — teardown runs exactly once; closed subscriptions hold nothing upstream.

// ---- (a) subscription algebra: stateful property test -------------------------------------

type tdPanic struct{ id int }

func (p *tdPanic) Error() string { return fmt.Sprintf("teardown-%d", p.id) }

func TestC03_SubscriptionAlgebra(t *testing.T) {
	rapid.Check(t, func(t *rapid.T) {
		useSubscriber := rapid.Bool().Draw(t, "subscriber")
		var sub ro.Subscription
		var subscriber ro.Subscriber[int]
		if useSubscriber {
			subscriber = ro.NewSubscriber[int](rt.NewRecorder[int]())
			sub = subscriber
		} else {
			sub = ro.NewSubscription(nil)
		}
		runs := map[int]int{}     // teardown id -> times run
		panics := map[int]bool{}  // teardown id panics
		pending := map[int]bool{} // added while open
		done := false
		next := 0
		var waits []chan struct{}
		fail := func(class, msg string) {
			rt.Report(t, rt.Failure{Property: "C03", Check: "subscription-algebra", Op: map[bool]string{true: "Subscriber", false: "Subscription"}[useSubscriber], Class: class, Msg: msg, Case: nil})
		}
		nsteps := 0
		dispose := func(how string) {
			var rec any
			func() {
				defer func() { rec = recover() }()
				switch how {
				case "Unsubscribe":
					sub.Unsubscribe()
				case "Complete":
					subscriber.Complete()
				case "Error":
					subscriber.Error(rt.Err(1))
				}
			}()
			if !done {
				// every pending teardown ran exactly once, and the joined panic names every cause
				var want []int
				for id := range pending {
					if runs[id] != 1 {
						fail("teardown-count", fmt.Sprintf("%s: teardown %d ran %d times", how, id, runs[id]))
					}
					if panics[id] {
						want = append(want, id)
					}
				}
				if len(want) > 0 {
					err, ok := rec.(error)
					if !ok {
						fail("teardown-panic-not-reraised", fmt.Sprintf("%s with panicking teardowns %v: recovered %v", how, want, rec))
					} else {
						for _, id := range want {
							found := false
							var tp *tdPanic
							// walk the joined error
							if errors.As(err, &tp) && tp.id == id {
								found = true
							}
							if !found {
								found = containsTd(err, id)
							}
							if !found {
								fail("teardown-panic-cause-lost", fmt.Sprintf("%s: re-raised error %q does not unwrap to teardown %d", how, err, id))
							}
						}
					}
				} else if rec != nil {
					fail("unexpected-panic", fmt.Sprintf("%s panicked: %v", how, rec))
				}
				done = true
				pending = map[int]bool{}
			} else if rec != nil {
				fail("unexpected-panic", fmt.Sprintf("%s on a closed subscription panicked: %v", how, rec))
			}
		}
		actions := map[string]func(*rapid.T){
			"Add": func(t *rapid.T) {
				id := next
				next++
				p := rapid.IntRange(0, 3).Draw(t, "panics") == 0
				panics[id] = p
				var rec any
				func() {
					defer func() { rec = recover() }()
					sub.Add(func() {
						runs[id]++
						if p {
							panic(&tdPanic{id})
						}
					})
				}()
				if done {
					if runs[id] != 1 {
						fail("late-teardown-not-run-immediately", fmt.Sprintf("teardown %d added after disposal ran %d times before Add returned", id, runs[id]))
					}
				} else {
					pending[id] = true
					if runs[id] != 0 {
						fail("teardown-ran-early", fmt.Sprintf("teardown %d ran at Add on an open subscription", id))
					}
					if rec != nil {
						fail("unexpected-panic", fmt.Sprintf("Add panicked: %v", rec))
					}
				}
			},
			"AddUnsubscribable": func(t *rapid.T) {
				id := next
				next++
				inner := ro.NewSubscription(func() { runs[id]++ })
				sub.AddUnsubscribable(inner)
				if done {
					if runs[id] != 1 {
						fail("late-teardown-not-run-immediately", fmt.Sprintf("unsubscribable %d added after disposal ran %d times", id, runs[id]))
					}
				} else {
					pending[id] = true
				}
			},
			"AddNil": func(t *rapid.T) {
				sub.Add(nil)
				sub.AddUnsubscribable(nil)
			},
			"Unsubscribe": func(t *rapid.T) { dispose("Unsubscribe") },
			"Terminal": func(t *rapid.T) {
				if !useSubscriber {
					t.Skip("plain subscription")
				}
				dispose(rapid.SampledFrom([]string{"Complete", "Error"}).Draw(t, "kind"))
			},
			"Wait": func(t *rapid.T) {
				ch := make(chan struct{})
				waits = append(waits, ch)
				go func() { sub.Wait(); close(ch) }()
			},
			"": func(t *rapid.T) {
				nsteps++
				// every call on a subscription returns: a teardown that panicked (also one
				// added after disposal, which runs inside Add) must not leave it locked
				answered := make(chan bool, 1)
				go func() { answered <- sub.IsClosed() }()
				select {
				case <-answered:
				case <-time.After(3 * time.Second):
					fail("subscription-unusable-after-a-teardown-panicked", fmt.Sprintf("IsClosed() still blocked after 3s (teardowns so far: %d, panicking: %v, disposed: %v)", next, panics, done))
					t.FailNow()
				}
				if sub.IsClosed() != done {
					fail("isclosed-wrong", fmt.Sprintf("IsClosed() = %v, model says %v", sub.IsClosed(), done))
				}
				for id, n := range runs {
					if n > 1 {
						fail("teardown-count", fmt.Sprintf("teardown %d ran %d times", id, n))
					}
				}
			},
		}
		t.Repeat(actions)
		if !done {
			dispose("Unsubscribe")
		}
		for i, ch := range waits {
			select {
			case <-ch:
			case <-time.After(10 * time.Second):
				fail("wait-never-returns", fmt.Sprintf("Wait call #%d still blocked 10s after the subscription was closed", i))
			}
		}
		rt.Case(fmt.Sprintf("algebra|%v|%d|%v", useSubscriber, next, panics), next >= 1 && nsteps >= 2, "algebra", func() any {
			return map[string]any{"subscriber": useSubscriber, "teardowns": next, "panicking": fmt.Sprint(panics), "waits": len(waits)}
		})
	})
}

func containsTd(err error, id int) bool {
	if err == nil {
		return false
	}
	var tp *tdPanic
	if errors.As(err, &tp) && tp.id == id {
		return true
	}
	type multi interface{ Unwrap() []error }
	if m, ok := err.(multi); ok {
		for _, e := range m.Unwrap() {
			if containsTd(e, id) {
				return true
			}
		}
	}
	if u := errors.Unwrap(err); u != nil {
		return containsTd(u, id)
	}
	// xerrors.Join of ro: message-based fallback
	return false
}

// ---- (a') races between Complete, Error, Unsubscribe and Add ------------------------------------

type c03Race struct {
	Actors []string `json:"actors"`
	Reps   int      `json:"reps"`
}

func c03RunRace(t rt.TB, c c03Race) {
	for rep := 0; rep < c.Reps; rep++ {
		rec := rt.NewRecorder[int]()
		s := ro.NewSubscriber[int](rec)
		const pre = 3
		var counts [64]int32
		for i := 0; i < pre; i++ {
			i := i
			s.Add(func() { atomic.AddInt32(&counts[i], 1) })
		}
		next := int32(pre)
		var wg sync.WaitGroup
		start := make(chan struct{})
		for _, a := range c.Actors {
			a := a
			wg.Add(1)
			go func() {
				defer wg.Done()
				defer func() { recover() }()
				<-start
				switch a {
				case "Unsubscribe":
					s.Unsubscribe()
				case "Complete":
					s.Complete()
				case "Error":
					s.Error(rt.Err(1))
				case "Add":
					for k := 0; k < 3; k++ {
						id := atomic.AddInt32(&next, 1) - 1
						s.Add(func() { atomic.AddInt32(&counts[id], 1) })
					}
				case "Next":
					s.Next(1)
				}
			}()
		}
		close(start)
		wg.Wait()
		n := int(atomic.LoadInt32(&next))
		for i := 0; i < n; i++ {
			if cnt := atomic.LoadInt32(&counts[i]); cnt != 1 {
				rt.Report(t, rt.Failure{Property: "C03", Check: "subscription-race", Op: "Subscriber", Class: "teardown-count-under-race", Msg: fmt.Sprintf("actors %v (repetition %d): teardown %d ran %d times", c.Actors, rep, i, cnt), Case: c})
				return
			}
		}
		if !s.IsClosed() {
			rt.Report(t, rt.Failure{Property: "C03", Check: "subscription-race", Op: "Subscriber", Class: "not-closed-after-race", Msg: "subscriber still open", Case: c})
			return
		}
		if g := rec.Grammar(); g != "" {
			rt.Report(t, rt.Failure{Property: "C03", Check: "subscription-race", Op: "Subscriber", Class: "grammar-under-race", Msg: g, Case: c})
			return
		}
	}
}

func init() {
	replayers["subscription-race"] = func(t *testing.T, raw json.RawMessage) {
		var c c03Race
		if err := json.Unmarshal(raw, &c); err != nil {
			t.Fatal(err)
		}
		c.Reps *= 20
		c03RunRace(t, c)
	}
	replayers["release"] = func(t *testing.T, raw json.RawMessage) {
		var c cutCase
		if err := json.Unmarshal(raw, &c); err != nil {
			t.Fatal(err)
		}
		c03RunCut(t, c)
	}
}

func TestC03_SubscriptionRaces(t *testing.T) {
	reps := 200
	if rt.Thorough() {
		reps = 3000
	}
	rapid.Check(t, func(t *rapid.T) {
		k := rapid.IntRange(2, 5).Draw(t, "actors")
		actors := make([]string, k)
		closers := 0
		for i := range actors {
			actors[i] = rapid.SampledFrom([]string{"Unsubscribe", "Complete", "Error", "Add", "Add", "Next"}).Draw(t, "actor")
			if actors[i] != "Add" && actors[i] != "Next" {
				closers++
			}
		}
		if closers == 0 {
			actors[0] = "Unsubscribe"
		}
		c := c03Race{Actors: actors, Reps: reps}
		c03RunRace(t, c)
		rt.Case(fmt.Sprint("race|", actors), true, "race", func() any { return c })
	})
}

// ---- (b) catalogue sweep: every source released after the subscription closed ------------------------

// cutCase describes one run of a pipeline over a manual source that is cut by
// Unsubscribe after a prefix of the script (shared by C03 and C06).
type cutCase struct {
	Links  []cat.Link `json:"chain"`
	Script []rt.Ev    `json:"script"`
	Cut    int        `json:"cut"` // Unsubscribe after this many notifications (len(script)+1 = never)
	How    string     `json:"how"` // harness | inside-next | other-goroutine
	Extra  int        `json:"extra_callers,omitempty"`
}

type cutObs struct {
	rec       *rt.Recorder[int]
	man       *rt.ManualSrc
	env       *cat.Env
	sub       ro.Subscription
	uStamp    int64 // stamp right after the first Unsubscribe returned (0 = never)
	closedAtU bool
	finalizeN int
	pan       any
	postCut   int // notifications pushed after the cut
}

func cutBuild(links []cat.Link, env *cat.Env) opII {
	if len(links) == 1 {
		l := links[0]
		return opII(cat.ChainStage(cat.ByName(l.Op).Build(l.Variant, l.P, env)))
	}
	r, _ := buildChain(links, env, cat.NewMEnv(nil))
	return opII(r)
}

// cutRun drives the case and returns the observations.
func cutRun(c cutCase) *cutObs {
	o := &cutObs{rec: rt.NewRecorder[int](), man: rt.NewManual("src", rt.CtorUnsafeCtx), env: cat.NewEnv()}
	rt.NewSink()
	real := cutBuild(c.Links, o.env)
	delivered := 0
	var subMu sync.Mutex
	unsub := func() {
		subMu.Lock()
		s := o.sub
		subMu.Unlock()
		if s == nil {
			return
		}
		s.Unsubscribe()
		if o.uStamp == 0 {
			o.uStamp = rt.Tick()
			o.closedAtU = s.IsClosed()
		}
	}
	if c.How == "inside-next" {
		o.rec.Hook = func(k byte, _ ctxT, v any, err error) {
			if k == 'N' {
				delivered++
				if delivered == c.Cut {
					unsub()
				}
			}
		}
	}
	func() {
		defer func() { o.pan = recover() }()
		s := ro.TapOnFinalize[int](func() { o.finalizeN++ })(real(o.man.Observable())).Subscribe(o.rec)
		subMu.Lock()
		o.sub = s
		subMu.Unlock()
	}()
	if o.pan != nil {
		return o
	}
	for i, e := range c.Script {
		if c.How != "inside-next" && i == c.Cut && o.uStamp == 0 {
			switch c.How {
			case "harness":
				unsub()
			case "other-goroutine":
				var wg sync.WaitGroup
				for k := 0; k <= c.Extra; k++ {
					wg.Add(1)
					go func() { defer wg.Done(); unsub() }()
				}
				wg.Wait()
			}
		}
		if o.uStamp != 0 {
			o.postCut++
		}
		o.man.EmitAll(e)
	}
	if c.How != "inside-next" && c.Cut == len(c.Script) && o.uStamp == 0 {
		unsub()
	}
	return o
}

type ctxT = context.Context

func c03RunCut(t rt.TB, c cutCase) {
	name := chainName(c.Links)
	fail := func(class, msg string) {
		rt.Report(t, rt.Failure{Property: "C03", Check: "release", Op: name, Class: class, Msg: msg, Case: c})
	}
	o := cutRun(c)
	if o.pan != nil {
		fail("panic-escaped", fmt.Sprint(o.pan))
		return
	}
	closed := o.uStamp != 0 || scriptEnd(c.Script) != 0
	if !closed {
		// the stream is still running: release it now so that nothing is left behind
		o.sub.Unsubscribe()
	}
	// the pipeline may legitimately have ended by itself earlier (Take, First ...);
	// in every case the subscription is closed now and Subscribe has returned:
	if r := o.man.Released(); r != "" {
		fail("source-not-released", fmt.Sprintf("%s over [%s] cut at %d (%s): %s", name, rt.ScriptString(c.Script), c.Cut, c.How, r))
		return
	}
	if o.man.LiveDests() != 0 {
		fail("source-not-released", fmt.Sprintf("%s over [%s] cut at %d (%s): %d upstream subscriptions still live", name, rt.ScriptString(c.Script), c.Cut, c.How, o.man.LiveDests()))
		return
	}
	if o.finalizeN != 1 {
		fail("finalizer-count", fmt.Sprintf("%s over [%s] cut at %d (%s): TapOnFinalize below the pipeline ran %d times", name, rt.ScriptString(c.Script), c.Cut, c.How, o.finalizeN))
	}
}

func cutCases(row *cat.Row, v string, p []int, scripts [][]rt.Ev, visit func(c cutCase)) {
	for _, s := range scripts {
		for cut := 0; cut <= len(s)+1; cut++ {
			for _, how := range []string{"harness", "inside-next", "other-goroutine"} {
				if how == "inside-next" && (cut == 0 || cut > scriptValues(s)) {
					continue
				}
				c := cutCase{Links: []cat.Link{{Op: row.Name, Variant: v, P: p}}, Script: s, Cut: cut, How: how}
				if how == "other-goroutine" {
					c.Extra = cut % 3
				}
				visit(c)
			}
		}
	}
}

func TestC03_ReleaseEnumerated(t *testing.T) {
	maxLen := 3
	if rt.Thorough() {
		maxLen = 4
	}
	scripts := legalScripts([]int{1, 2}, maxLen, []byte{'C', 'E', 0})
	idx := 0
	for _, row := range cat.Rows {
		if row.Waits || row.Async {
			continue // rows that wait inside Subscribe cannot sit on a manual source; they are swept with cold sources below
		}
		for _, p := range row.Params {
			idx++
			if !rt.Mine(idx) {
				continue
			}
			v := row.Variants[idx%len(row.Variants)]
			cutCases(row, v, p, scripts, func(c cutCase) {
				c03RunCut(t, c)
				rt.Case(caseKey("release", row.Name, v, p, c.Script, c.Cut, c.How), c.Cut <= len(c.Script), "release:"+c.How, func() any { return c })
			})
		}
	}
	// rows that wait inside Subscribe: finite cold sources, every ending
	cold := legalScripts([]int{1, 2}, maxLen, []byte{'C', 'E'})
	for _, row := range cat.Rows {
		if !row.Waits {
			continue
		}
		for _, p := range row.Params {
			for _, s := range cold {
				if row.Diverges != nil && row.Diverges(p, scriptValues(s), scriptEnd(s)) {
					continue
				}
				idx++
				if !rt.Mine(idx) {
					continue
				}
				v := row.Variants[idx%len(row.Variants)]
				src := rt.NewScript("src", rt.CtorUnsafeCtx, s)
				fin := 0
				rec := rt.NewRecorder[any]()
				env := cat.NewEnv()
				stage := row.Build(v, p, env)
				func() {
					defer func() { recover() }()
					ro.TapOnFinalize[any](func() { fin++ })(stage(src.Observable())).Subscribe(rec)
				}()
				c := cutCase{Links: []cat.Link{{Op: row.Name, Variant: v, P: p}}, Script: s, Cut: len(s) + 1, How: "cold"}
				if r := src.Released(); r != "" {
					rt.Report(t, rt.Failure{Property: "C03", Check: "release", Op: row.Name, Class: "source-not-released", Msg: fmt.Sprintf("%s%v over cold [%s]: %s", row.Name, p, rt.ScriptString(s), r), Case: c})
				}
				if fin != 1 {
					rt.Report(t, rt.Failure{Property: "C03", Check: "release", Op: row.Name, Class: "finalizer-count", Msg: fmt.Sprintf("%s%v over cold [%s]: finalizer ran %d times", row.Name, p, rt.ScriptString(s), fin), Case: c})
				}
				rt.Case(caseKey("release-cold", row.Name, v, p, s), true, "release:cold", func() any { return c })
			}
		}
	}
	rt.Note("enumerated_scope", fmt.Sprintf("every catalogue row x params x scripts of length <= %d over {1,2} x endings x Unsubscribe at every cut position x {from the harness, from inside Next, from 1-3 other goroutines}", maxLen))
}

func TestC03_ReleaseChainsRandom(t *testing.T) { rapid.Check(t, propC03ReleaseChainsRandom) }

func propC03ReleaseChainsRandom(t *rapid.T) {
	n := rapid.IntRange(2, 4).Draw(t, "chainLen")
	links := make([]cat.Link, n)
	for i := range links {
		links[i] = genLink(t, false)
	}
	s := genScript(t, 6, 1, 3, []byte{'C', 'E', 0})
	c := cutCase{Links: links, Script: s, Cut: rapid.IntRange(0, len(s)+1).Draw(t, "cut"), How: rapid.SampledFrom([]string{"harness", "other-goroutine"}).Draw(t, "how")}
	c03RunCut(t, c)
	rt.Case(caseKey("releasechain", fmt.Sprint(links), s, c.Cut, c.How), c.Cut <= len(s), "release-chain", func() any { return c })
}
