package checks

import (
	"context"
	"encoding/json"
	"fmt"
	"reflect"
	"strings"
	"sync"
	"testing"
	"time"

	"github.com/samber/ro"
	"pgregory.net/rapid"
	"verifharness/model"
	"verifharness/rt"
)

// C11 — sharing keeps one upstream subscription and follows the reference count.

type c11Case struct {
	Form  string            `json:"form"` // ShareWithConfig | Share | ShareReplay | ShareReplayWithConfig | Connectable
	Cfg   model.ShareConfig `json:"config"`
	Reset bool              `json:"reset_on_disconnect,omitempty"`
	Ops   []sop             `json:"ops"`
	Cold  []rt.Ev           `json:"cold_source,omitempty"` // when set the source is a synchronous cold script
}

func init() {
	replayers["share-sequential"] = func(t *testing.T, raw json.RawMessage) {
		var c c11Case
		if err := json.Unmarshal(raw, &c); err != nil {
			t.Fatal(err)
		}
		c11Run(t, c)
	}
}

func connectorOf(cfg model.ShareConfig) func() ro.Subject[int] {
	return func() ro.Subject[int] {
		return subjectKind{Kind: cfg.Kind, Size: cfg.Size}.New()
	}
}

func (c c11Case) name() string {
	if strings.Contains(c.Form, "Connectable") {
		return fmt.Sprintf("%s(%s,%d,reset=%v)", c.Form, c.Cfg.Kind, c.Cfg.Size, c.Reset)
	}
	return fmt.Sprintf("%s(%s,%d,E=%v,C=%v,Z=%v)", c.Form, c.Cfg.Kind, c.Cfg.Size, c.Cfg.ResetOnError, c.Cfg.ResetOnComplete, c.Cfg.ResetOnRefZero)
}

func c11Run(t rt.TB, c c11Case) {
	name := c.name()
	rt.NewSink()
	fail := func(class, msg string) {
		rt.Report(t, rt.Failure{Property: "C11", Check: "share-sequential", Op: c.Form, Class: class, Msg: msg, Case: c})
	}
	man := rt.NewManual("src", rt.CtorUnsafeCtx)
	var cold *rt.ScriptSrc
	var source ro.Observable[int] = man.Observable()
	if c.Cold != nil {
		cold = rt.NewScript("cold", rt.CtorUnsafeCtx, c.Cold)
		source = cold.Observable()
	}
	srcSubs := func() int {
		if cold != nil {
			return int(cold.Subs)
		}
		return int(man.Subs)
	}
	srcLive := func() int {
		if cold != nil {
			return int(cold.Live)
		}
		return man.LiveDests()
	}
	maxLive := func() int {
		if cold != nil {
			return int(cold.MaxLive)
		}
		return int(man.MaxLive)
	}
	var shared ro.Observable[int]
	var conn ro.ConnectableObservable[int]
	var connection ro.Subscription
	var ms *model.Share
	var mc *model.Connectable
	switch c.Form {
	case "Share":
		shared = ro.Share[int]()(source)
	case "ShareReplay":
		shared = ro.ShareReplay[int](c.Cfg.Size)(source)
	case "ShareReplayWithConfig":
		shared = ro.ShareReplayWithConfig[int](c.Cfg.Size, ro.ShareReplayConfig{ResetOnRefCountZero: c.Cfg.ResetOnRefZero})(source)
	case "ShareWithConfig":
		shared = ro.ShareWithConfig(ro.ShareConfig[int]{Connector: connectorOf(c.Cfg), ResetOnError: c.Cfg.ResetOnError, ResetOnComplete: c.Cfg.ResetOnComplete, ResetOnRefCountZero: c.Cfg.ResetOnRefZero})(source)
	case "Connectable":
		conn = ro.ConnectableWithConfig(source, ro.ConnectableConfig[int]{Connector: connectorOf(c.Cfg), ResetOnDisconnect: c.Reset})
		shared = conn
		mc = model.NewConnectable(c.Cfg.Kind, c.Cfg.Size, behaviorInitial, c.Reset)
	case "Connectable()", "NewConnectableObservable", "NewConnectableObservableWithContext", "NewConnectableObservableWithConfig", "NewConnectableObservableWithConfigAndContext":
		// the other constructors of the same thing: default connector (publish) and
		// ResetOnDisconnect=true unless a config is given; the subscribe-function forms
		// delegate to the controllable source
		body := func(d ro.Observer[int]) ro.Teardown { return source.Subscribe(d).Unsubscribe }
		bodyCtx := func(cx context.Context, d ro.Observer[int]) ro.Teardown {
			return source.SubscribeWithContext(cx, d).Unsubscribe
		}
		cfg := ro.ConnectableConfig[int]{Connector: connectorOf(c.Cfg), ResetOnDisconnect: c.Reset}
		switch c.Form {
		case "Connectable()":
			conn = ro.Connectable(source)
		case "NewConnectableObservable":
			conn = ro.NewConnectableObservable(body)
		case "NewConnectableObservableWithContext":
			conn = ro.NewConnectableObservableWithContext(bodyCtx)
		case "NewConnectableObservableWithConfig":
			conn = ro.NewConnectableObservableWithConfig(body, cfg)
		default:
			conn = ro.NewConnectableObservableWithConfigAndContext(bodyCtx, cfg)
		}
		shared = conn
		mc = model.NewConnectable(c.Cfg.Kind, c.Cfg.Size, behaviorInitial, c.Reset)
	}
	if mc == nil {
		ms = model.NewShare(c.Cfg, behaviorInitial)
	}
	if srcSubs() != 0 {
		fail("source-touched-at-construction", "source subscribed while building")
		return
	}
	recs := map[int]*rt.Recorder[int]{}
	subs := map[int]ro.Subscription{}
	playCold := func() {
		for _, e := range c.Cold {
			switch e.K {
			case 'N':
				if ms != nil {
					ms.SourceNext(e.V)
				} else {
					mc.SourceNext(e.V)
				}
			case 'E':
				if ms != nil {
					ms.SourceError(fmt.Sprintf("e%d", e.V))
				} else {
					mc.SourceError(fmt.Sprintf("e%d", e.V))
				}
			case 'C':
				if ms != nil {
					ms.SourceComplete()
				} else {
					mc.SourceComplete()
				}
			}
		}
	}
	for step, o := range c.Ops {
		var pan any
		func() {
			defer func() { pan = recover() }()
			switch o.K {
			case 'S':
				recs[o.Id] = rt.NewRecorder[int]()
				subs[o.Id] = shared.Subscribe(recs[o.Id])
				if ms != nil {
					if ms.Subscribe(o.Id) && cold != nil {
						playCold()
					}
				} else {
					mc.Subscribe(o.Id)
				}
			case 'U':
				subs[o.Id].Unsubscribe()
				if ms != nil {
					ms.Unsubscribe(o.Id)
				} else {
					mc.Unsubscribe(o.Id)
				}
			case 'N':
				man.Emit(rt.N(o.V))
				if ms != nil {
					ms.SourceNext(o.V)
				} else {
					mc.SourceNext(o.V)
				}
			case 'E':
				man.Emit(rt.E(1))
				if ms != nil {
					ms.SourceError("e1")
				} else {
					mc.SourceError("e1")
				}
			case 'C':
				man.Emit(rt.C())
				if ms != nil {
					ms.SourceComplete()
				} else {
					mc.SourceComplete()
				}
			case 'K':
				before := connection
				connection = conn.Connect()
				newUp := mc.Connect()
				if newUp && cold != nil {
					playCold()
				}
				if !newUp && before != nil && connection != before {
					fail("connect-while-connected-returns-new-subscription", fmt.Sprintf("%s: Connect while connected returned a different subscription", name))
				}
			case 'D':
				if connection != nil {
					connection.Unsubscribe()
				}
				mc.Disconnect()
			}
		}()
		where := fmt.Sprintf("%s after [%s] (step %d of [%s])", name, opsString(c.Ops[:step+1]), step, opsString(c.Ops))
		if pan != nil {
			fail("panic", fmt.Sprintf("%s: %v", where, pan))
			return
		}
		wantSubs, wantLive := 0, 0
		if ms != nil {
			wantSubs, wantLive = ms.UpstreamSubs, ms.LiveUpstream()
		} else {
			wantSubs = mc.UpstreamSubs
			if mc.Connected {
				wantLive = 1
			}
		}
		if maxLive() > 1 {
			fail("more-than-one-live-upstream-subscription", fmt.Sprintf("%s: %d upstream subscriptions were live at the same time", where, maxLive()))
			return
		}
		if srcSubs() != wantSubs {
			fail("upstream-subscription-count", fmt.Sprintf("%s: the source has been subscribed %d times, the definition says %d", where, srcSubs(), wantSubs))
			return
		}
		if srcLive() != wantLive {
			fail("upstream-live-state", fmt.Sprintf("%s: %d upstream subscriptions are live, the definition says %d", where, srcLive(), wantLive))
			return
		}
		for id, r := range recs {
			got := notifsOf(r)
			var want []model.Notif
			if ms != nil {
				want = ms.Log(id)
			} else {
				want = mc.Log(id)
			}
			if !(len(got) == 0 && len(want) == 0) && !reflect.DeepEqual(got, want) {
				fail("subscriber-log-differs", fmt.Sprintf("%s: subscriber %d received %v, the definition says %v", where, id, got, want))
				return
			}
			if g := r.Grammar(); g != "" {
				fail("grammar", where+": "+g)
				return
			}
		}
	}
}

// enumShareOps enumerates sequences over the Share / connectable alphabet.
func enumShareOps(maxLen, maxSubs int, connectable bool, visit func(ops []sop)) {
	var rec func(ops []sop, nextId int, subscribed []int)
	rec = func(ops []sop, nextId int, subscribed []int) {
		visit(ops)
		if len(ops) == maxLen {
			return
		}
		add := func(o sop, nid int, sub []int) { rec(append(append([]sop(nil), ops...), o), nid, sub) }
		add(sop{K: 'N', V: 1 + len(ops)}, nextId, subscribed)
		add(sop{K: 'E'}, nextId, subscribed)
		add(sop{K: 'C'}, nextId, subscribed)
		if nextId < maxSubs {
			add(sop{K: 'S', Id: nextId}, nextId+1, append(append([]int(nil), subscribed...), nextId))
		}
		for i, id := range subscribed {
			rest := append(append([]int(nil), subscribed[:i]...), subscribed[i+1:]...)
			add(sop{K: 'U', Id: id}, nextId, rest)
		}
		if connectable {
			add(sop{K: 'K'}, nextId, subscribed)
			add(sop{K: 'D'}, nextId, subscribed)
		}
	}
	rec(nil, 0, nil)
}

func c11NonTrivial(ops []sop) bool {
	armed := false
	for _, o := range ops {
		if o.K == 'U' || o.K == 'E' || o.K == 'C' || o.K == 'D' {
			armed = true
		}
		if (o.K == 'S' || o.K == 'K') && armed {
			return true
		}
	}
	return false
}

func c11Configs() []c11Case {
	var out []c11Case
	for _, conn := range []struct {
		k string
		n int
	}{{"publish", 0}, {"behavior", 0}, {"replay", 1}, {"replay", 2}} {
		for bits := 0; bits < 8; bits++ {
			out = append(out, c11Case{Form: "ShareWithConfig", Cfg: model.ShareConfig{Kind: conn.k, Size: conn.n, ResetOnError: bits&1 != 0, ResetOnComplete: bits&2 != 0, ResetOnRefZero: bits&4 != 0}})
		}
		out = append(out, c11Case{Form: "Connectable", Cfg: model.ShareConfig{Kind: conn.k, Size: conn.n}, Reset: true})
		out = append(out, c11Case{Form: "Connectable", Cfg: model.ShareConfig{Kind: conn.k, Size: conn.n}, Reset: false})
	}
	for _, form := range []string{"Connectable()", "NewConnectableObservable", "NewConnectableObservableWithContext"} {
		out = append(out, c11Case{Form: form, Cfg: model.ShareConfig{Kind: "publish"}, Reset: true})
	}
	for _, form := range []string{"NewConnectableObservableWithConfig", "NewConnectableObservableWithConfigAndContext"} {
		out = append(out, c11Case{Form: form, Cfg: model.ShareConfig{Kind: "replay", Size: 2}, Reset: false})
		out = append(out, c11Case{Form: form, Cfg: model.ShareConfig{Kind: "behavior"}, Reset: true})
	}
	out = append(out, c11Case{Form: "Share", Cfg: model.ShareConfig{Kind: "publish", ResetOnError: true, ResetOnComplete: true, ResetOnRefZero: true}})
	for _, n := range []int{1, 2} {
		out = append(out, c11Case{Form: "ShareReplay", Cfg: model.ShareConfig{Kind: "replay", Size: n, ResetOnError: true}})
		out = append(out, c11Case{Form: "ShareReplayWithConfig", Cfg: model.ShareConfig{Kind: "replay", Size: n, ResetOnError: true, ResetOnRefZero: true}})
		out = append(out, c11Case{Form: "ShareReplayWithConfig", Cfg: model.ShareConfig{Kind: "replay", Size: n, ResetOnError: true, ResetOnRefZero: false}})
	}
	return out
}

func TestC11_SequentialEnumerated(t *testing.T) {
	maxLen := 5
	if rt.Thorough() {
		maxLen = 6
	}
	idx := 0
	for _, base := range c11Configs() {
		enumShareOps(maxLen, 3, strings.Contains(base.Form, "Connectable"), func(ops []sop) {
			idx++
			if !rt.Mine(idx) || len(ops) == 0 {
				return
			}
			c := base
			c.Ops = append([]sop(nil), ops...)
			c11Run(t, c)
			rt.Case(caseKey("share", c.name(), opsString(ops)), c11NonTrivial(ops), "form:"+c.Form, func() any { return c })
		})
	}
	// synchronous cold sources: the source finishes inside Subscribe / Connect
	colds := [][]rt.Ev{{rt.C()}, {rt.N(1), rt.N(2), rt.C()}, {rt.N(1), rt.E(1)}, {rt.N(1), rt.N(2)}}
	for _, base := range c11Configs() {
		for _, cold := range colds {
			enumShareOps(maxLen-2, 3, strings.Contains(base.Form, "Connectable"), func(ops []sop) {
				for _, o := range ops {
					if o.K == 'N' || o.K == 'E' || o.K == 'C' {
						return // source events come from the cold script here
					}
				}
				idx++
				if !rt.Mine(idx) || len(ops) == 0 {
					return
				}
				c := base
				c.Ops = append([]sop(nil), ops...)
				c.Cold = cold
				c11Run(t, c)
				rt.Case(caseKey("sharecold", c.name(), opsString(ops), cold), c11NonTrivial(ops), "cold:"+c.Form, func() any { return c })
			})
		}
	}
	rt.Note("enumerated_scope", fmt.Sprintf("ShareWithConfig: 8 reset-flag combinations x connectors {publish, behavior, replay 1, replay 2}; Share, ShareReplay, ShareReplayWithConfig; connectables with and without ResetOnDisconnect; every sequence of length <= %d over {Subscribe i, Unsubscribe i, SourceNext, SourceError, SourceComplete, Connect, Disconnect} on a manual source, and sequences of length <= %d over cold synchronous sources", maxLen, maxLen-2))
}

func TestC11_SequentialRandom(t *testing.T) {
	cfgs := c11Configs()
	rapid.Check(t, func(t *rapid.T) {
		base := cfgs[rapid.IntRange(0, len(cfgs)-1).Draw(t, "config")]
		n := rapid.IntRange(1, 30).Draw(t, "len")
		var ops []sop
		next := 0
		var subscribed []int
		for i := 0; i < n; i++ {
			switch rapid.IntRange(0, 11).Draw(t, "op") {
			case 0, 1, 2:
				ops = append(ops, sop{K: 'N', V: i + 1})
			case 3:
				ops = append(ops, sop{K: 'E'})
			case 4:
				ops = append(ops, sop{K: 'C'})
			case 5, 6, 7:
				ops = append(ops, sop{K: 'S', Id: next})
				subscribed = append(subscribed, next)
				next++
			case 8, 9:
				if len(subscribed) > 0 {
					j := rapid.IntRange(0, len(subscribed)-1).Draw(t, "which")
					ops = append(ops, sop{K: 'U', Id: subscribed[j]})
					subscribed = append(subscribed[:j], subscribed[j+1:]...)
				}
			case 10:
				if strings.Contains(base.Form, "Connectable") {
					ops = append(ops, sop{K: 'K'})
				}
			case 11:
				if strings.Contains(base.Form, "Connectable") {
					ops = append(ops, sop{K: 'D'})
				}
			}
		}
		c := base
		c.Ops = ops
		c11Run(t, c)
		rt.Case(caseKey("sharerand", c.name(), opsString(ops)), c11NonTrivial(ops), "random:"+c.Form, func() any { return c })
	})
}

// ---- concurrent invariants -----------------------------------------------------------------------

type c11Conc struct {
	Cfg         model.ShareConfig `json:"config"`
	Subscribers int               `json:"subscribers"`
	Values      int               `json:"values"`
	ConnectorUs int               `json:"connector_delay_us"`
	Reps        int               `json:"reps"`
}

func init() {
	replayers["share-concurrent"] = func(t *testing.T, raw json.RawMessage) {
		var c c11Conc
		if err := json.Unmarshal(raw, &c); err != nil {
			t.Fatal(err)
		}
		c.Reps *= 20
		c11RunConc(t, c)
	}
}

func c11RunConc(t rt.TB, c c11Conc) {
	fail := func(class, msg string) {
		rt.Report(t, rt.Failure{Property: "C11", Check: "share-concurrent", Op: "ShareWithConfig", Class: class, Msg: msg, Case: c})
	}
	for rep := 0; rep < c.Reps; rep++ {
		man := rt.NewManual("src", rt.CtorSafeCtx)
		connector := func() ro.Subject[int] {
			if c.ConnectorUs > 0 {
				time.Sleep(time.Duration(c.ConnectorUs) * time.Microsecond)
			}
			return subjectKind{Kind: c.Cfg.Kind, Size: c.Cfg.Size}.New()
		}
		shared := ro.ShareWithConfig(ro.ShareConfig[int]{Connector: connector, ResetOnError: c.Cfg.ResetOnError, ResetOnComplete: c.Cfg.ResetOnComplete, ResetOnRefCountZero: c.Cfg.ResetOnRefZero})(man.Observable())
		recs := make([]*rt.Recorder[int], c.Subscribers)
		subs := make([]ro.Subscription, c.Subscribers)
		var wg sync.WaitGroup
		start := make(chan struct{})
		bar := rt.NewBarrier(len(recs))
		for i := range recs {
			recs[i] = rt.NewRecorder[int]()
			wg.Add(1)
			go func(i int) {
				defer wg.Done()
				<-start
				bar.Wait()
				subs[i] = shared.Subscribe(recs[i])
			}(i)
		}
		close(start)
		wg.Wait()
		// all first subscribers arrived together: exactly one upstream subscription
		if man.Subs != 1 || man.MaxLive > 1 {
			fail("more-than-one-live-upstream-subscription", fmt.Sprintf("%d subscribers arriving together on an idle shared observable (repetition %d): the source was subscribed %d times, %d live at once", c.Subscribers, rep, man.Subs, man.MaxLive))
			return
		}
		// a producer emits while half of the subscribers leave
		var wg2 sync.WaitGroup
		wg2.Add(1)
		go func() {
			defer wg2.Done()
			for v := 1; v <= c.Values; v++ {
				man.Emit(rt.N(v))
			}
		}()
		for i := 0; i < c.Subscribers/2; i++ {
			wg2.Add(1)
			go func(i int) { defer wg2.Done(); subs[i].Unsubscribe() }(i)
		}
		wg2.Wait()
		for i, r := range recs {
			if g := r.Grammar(); g != "" {
				fail("grammar", g)
				return
			}
			if o := r.Overlap(); o != "" {
				fail("overlap", o)
				return
			}
			// values are 1..n: what a subscriber saw must be gap-free and in order
			// (replay prefix excluded for behavior's seed)
			prev := 0
			for _, x := range r.Recs() {
				if x.K != 'N' {
					continue
				}
				v := x.V.(int)
				if v == behaviorInitial {
					continue
				}
				if prev != 0 && v != prev+1 {
					fail("subscribers-see-different-or-reordered-values", fmt.Sprintf("subscriber %d saw %v", i, r.Recs()))
					return
				}
				prev = v
			}
			if i >= c.Subscribers/2 && c.Cfg.Kind != "replay" {
				// stayed for the whole emission: must have seen every value
				n := 0
				for _, x := range r.Recs() {
					if x.K == 'N' && x.V.(int) != behaviorInitial {
						n++
					}
				}
				if n != c.Values {
					fail("subscribers-see-different-or-reordered-values", fmt.Sprintf("subscriber %d stayed subscribed but saw %d of %d values", i, n, c.Values))
					return
				}
			}
		}
		for i := c.Subscribers / 2; i < c.Subscribers; i++ {
			subs[i].Unsubscribe()
		}
		if c.Cfg.ResetOnRefZero && man.LiveDests() != 0 {
			fail("upstream-not-released-at-refcount-zero", fmt.Sprintf("all %d subscribers left, the upstream subscription is still live", c.Subscribers))
			return
		}
	}
}

func TestC11_ConcurrentInvariants(t *testing.T) {
	reps := 30
	if rt.Thorough() {
		reps = 400
	}
	rapid.Check(t, func(t *rapid.T) {
		conn := rapid.SampledFrom([]subjectKind{{"publish", 0}, {"behavior", 0}, {"replay", 2}}).Draw(t, "connector")
		c := c11Conc{Cfg: model.ShareConfig{Kind: conn.Kind, Size: conn.Size, ResetOnError: rapid.Bool().Draw(t, "E"), ResetOnComplete: rapid.Bool().Draw(t, "C"), ResetOnRefZero: rapid.Bool().Draw(t, "Z")},
			Subscribers: rapid.IntRange(2, 6).Draw(t, "subscribers"), Values: rapid.IntRange(1, 8).Draw(t, "values"), ConnectorUs: rapid.SampledFrom([]int{0, 0, 50, 500}).Draw(t, "connectorDelay"), Reps: reps}
		c11RunConc(t, c)
		rt.Case(caseKey("shareconc", fmt.Sprint(c.Cfg), c.Subscribers, c.Values, c.ConnectorUs), true, "concurrent", func() any { return c })
	})
}
