package checks

import (
	"context"
	"encoding/json"
	"errors"
	"fmt"
	"math"
	"strings"
	"sync"
	"testing"
	"time"

	"github.com/samber/ro"
	"pgregory.net/rapid"
	"verifharness/cat"
	"verifharness/model"
	"verifharness/rt"
)

// C15 — re-subscribing operators run attempts in sequence, the right number of times.

type c15Case struct {
	Op       string    `json:"op"` // Retry RetryDefault RepeatWith DoWhile While Catch OnErrorResumeNextWith Concat ConcatWith ConcatAll
	Variant  string    `json:"variant,omitempty"`
	P        []int     `json:"params,omitempty"`
	Truth    []bool    `json:"truth,omitempty"`
	Attempts [][]rt.Ev `json:"attempts"`         // scripts of the (first) source, one per attempt
	Others   [][]rt.Ev `json:"others,omitempty"` // scripts of the other sources (fallbacks / later sources)
	Async    bool      `json:"async"`
	CancelAt int       `json:"cancel_during_attempt"` // -1 = never
	Twice    bool      `json:"subscribe_twice,omitempty"`
	// TeardownUs: every attempt's teardown takes this long (an attempt is released
	// when its teardown has finished, not when it starts)
	TeardownUs int `json:"teardown_us,omitempty"`
	// Virtual: run in virtual time, asynchronous attempts deliver their first
	// notification 1ms after being subscribed - by then the operator is waiting for
	// the attempt to end, so the order "teardown, then next attempt" is not left to
	// the scheduler.
	Virtual bool `json:"virtual_time,omitempty"`
}

func init() {
	replayers["attempts"] = func(t *testing.T, raw json.RawMessage) {
		currentT = t
		var c c15Case
		if err := json.Unmarshal(raw, &c); err != nil {
			t.Fatal(err)
		}
		c15Run(t, c)
	}
}

// seqMon checks that attempts are strictly sequential across a family of sources.
type seqMon struct {
	mu      sync.Mutex
	started int
	ended   int // terminal emitted
	torn    int // teardown ran
	maxLive int
	live    int
	bad     string
	dwell   time.Duration
}

func (m *seqMon) attach(s *rt.OutcomesSrc) {
	s.OnSubscribe = func(n int) {
		m.mu.Lock()
		defer m.mu.Unlock()
		if m.bad == "" && m.started > m.torn {
			m.bad = fmt.Sprintf("%s attempt #%d started while %d earlier attempt(s) were not yet released (started=%d, released=%d)", s.Name, n, m.started-m.torn, m.started, m.torn)
		}
		m.started++
		m.live++
		if m.live > m.maxLive {
			m.maxLive = m.live
		}
	}
	s.OnTeardown = func(n int) {
		if m.dwell > 0 {
			time.Sleep(m.dwell)
		}
		m.mu.Lock()
		m.torn++
		m.live--
		m.mu.Unlock()
	}
}

// modelOutcomes is the model twin of OutcomesSrc.
func modelOutcomes(scripts [][]rt.Ev, n *int, cap int) model.Obs {
	return model.Guard(func(d model.Sink) {
		i := *n
		*n++
		if cap > 0 && i >= cap {
			d.Complete()
			return
		}
		var sc []rt.Ev
		if len(scripts) > 0 {
			if i < len(scripts) {
				sc = scripts[i]
			} else {
				sc = scripts[len(scripts)-1]
			}
		}
		for _, e := range cat.ModelIn(sc) {
			switch e.K {
			case 'N':
				d.Emit(e.V)
			case 'E':
				d.Error(e.E)
			case 'C':
				d.Complete()
			}
		}
	})
}

const c15Cap = 12 // out-of-band cut for unbounded re-subscription

func c15Run(t rt.TB, c c15Case) {
	if c.Virtual {
		var inner *rt.Failure
		problem := bubble(currentT, func() { c15RunIn(failCatcher{TB: t, f: &inner}, c) })
		if inner != nil {
			rt.Report(t, *inner)
		} else if problem != "" && !strings.Contains(problem, "blocked goroutines remain") {
			rt.Report(t, rt.Failure{Property: "C15", Check: "attempts", Op: c.Op, Class: "bubble-problem", Msg: problem, Case: c})
		}
		return
	}
	c15RunIn(t, c)
}

// failCatcher keeps the first failure instead of ending the test from inside a bubble.
type failCatcher struct {
	rt.TB
	f **rt.Failure
}

func c15RunIn(t rt.TB, c c15Case) {
	report := func(f rt.Failure) {
		if fc, ok := t.(failCatcher); ok {
			if *fc.f == nil {
				*fc.f = &f
			}
			return
		}
		rt.Report(t, f)
	}
	fail := func(class, msg string) {
		report(rt.Failure{Property: "C15", Check: "attempts", Op: c.Op, Class: class, Msg: msg, Case: c})
	}
	rt.NewSink()
	mon := &seqMon{dwell: time.Duration(c.TeardownUs) * time.Microsecond}
	a := rt.NewOutcomes("A", rt.CtorUnsafeCtx, c.Attempts)
	a.Async = c.Async
	a.SubscribeCap = c15Cap
	if c.Virtual {
		a.StartDelay = time.Millisecond
	}
	mon.attach(a)
	others := make([]*rt.OutcomesSrc, len(c.Others))
	otherObs := make([]ro.Observable[int], len(c.Others))
	for i, s := range c.Others {
		others[i] = rt.NewOutcomes(fmt.Sprintf("B%d", i), rt.CtorUnsafeCtx, [][]rt.Ev{s})
		others[i].Async = c.Async
		if c.Virtual {
			others[i].StartDelay = time.Millisecond
		}
		mon.attach(others[i])
		otherObs[i] = others[i].Observable()
	}
	ctx, cancel := context.WithCancel(context.Background())
	defer cancel()
	if c.CancelAt >= 0 {
		prev := a.OnSubscribe
		a.OnSubscribe = func(n int) {
			prev(n)
			if n == c.CancelAt {
				cancel()
			}
		}
	}
	// model
	nA := 0
	mA := modelOutcomes(c.Attempts, &nA, c15Cap)
	nB := make([]int, len(c.Others))
	mB := make([]model.Obs, len(c.Others))
	for i, s := range c.Others {
		mB[i] = modelOutcomes([][]rt.Ev{s}, &nB[i], 0)
	}
	truthAt := func(i int) bool { return i < len(c.Truth) && c.Truth[i] }
	var obs ro.Observable[int]
	var mobs model.Obs
	condN := 0
	cond := func() bool { v := truthAt(condN); condN++; return v }
	switch c.Op {
	case "Retry":
		budget, mbudget := uint64(c.P[0]), c.P[0]
		if c.P[0] < 0 {
			// budgets at the top of the parameter's range: -1 = MaxUint64, -2 = MaxUint64-1, -3 = MaxInt64
			budget = map[int]uint64{-1: math.MaxUint64, -2: math.MaxUint64 - 1, -3: math.MaxInt64}[c.P[0]]
			mbudget = 1 << 60
		}
		obs = ro.RetryWithConfig[int](ro.RetryConfig{MaxRetries: budget, ResetOnSuccess: c.P[1] == 1})(a.Observable())
		mobs = model.Retry(mbudget, c.P[1] == 1)(mA)
	case "RetryDefault":
		obs = ro.Retry[int]()(a.Observable())
		mobs = model.Retry(0, false)(mA)
	case "RepeatWith":
		if c.P[0] < 0 {
			obs = ro.RepeatWith[int](math.MaxInt64)(a.Observable()) // -1 = the top of the range
			mobs = model.RepeatWith(1 << 60)(mA)
		} else {
			obs = ro.RepeatWith[int](int64(c.P[0]))(a.Observable())
			mobs = model.RepeatWith(c.P[0])(mA)
		}
	case "DoWhile", "While":
		var op func(ro.Observable[int]) ro.Observable[int]
		switch c.Op + c.Variant {
		case "DoWhile":
			op = ro.DoWhile[int](cond)
		case "DoWhileWithContext":
			op = ro.DoWhileWithContext[int](func(cx context.Context) (context.Context, bool) { return cx, cond() })
		case "DoWhileI":
			op = ro.DoWhileI[int](func(i int64) bool { return truthAt(int(i)) })
		case "DoWhileIWithContext":
			op = ro.DoWhileIWithContext[int](func(cx context.Context, i int64) (context.Context, bool) { return cx, truthAt(int(i)) })
		case "While":
			op = ro.While[int](cond)
		case "WhileWithContext":
			op = ro.WhileWithContext[int](func(cx context.Context) (context.Context, bool) { return cx, cond() })
		case "WhileI":
			op = ro.WhileI[int](func(i int64) bool { return truthAt(int(i)) })
		case "WhileIWithContext":
			op = ro.WhileIWithContext[int](func(cx context.Context, i int64) (context.Context, bool) { return cx, truthAt(int(i)) })
		}
		obs = op(a.Observable())
		if c.Op == "DoWhile" {
			mobs = model.DoWhile(truthAt)(mA)
		} else {
			mobs = model.While(truthAt)(mA)
		}
	case "Catch":
		obs = ro.Catch(func(err error) ro.Observable[int] { return otherObs[0] })(a.Observable())
		mobs = model.Catch(func(string) model.Obs { return mB[0] })(mA)
	case "OnErrorResumeNextWith":
		obs = ro.OnErrorResumeNextWith(otherObs...)(a.Observable())
		mobs = model.OnErrorResumeNextWith(mB...)(mA)
	case "Concat":
		obs = ro.Concat(append([]ro.Observable[int]{a.Observable()}, otherObs...)...)
		mobs = model.ConcatWith(mB...)(mA)
	case "ConcatWith":
		obs = ro.ConcatWith(otherObs...)(a.Observable())
		mobs = model.ConcatWith(mB...)(mA)
	case "ConcatAll":
		obs = ro.ConcatAll[int]()(ro.Just(append([]ro.Observable[int]{a.Observable()}, otherObs...)...))
		mobs = model.ConcatWith(mB...)(mA)
	}
	want, blocked := runModelObs(mobs)
	if blocked {
		return
	}
	rec := rt.NewRecorder[int]()
	done := make(chan struct{})
	var pan any
	var sub ro.Subscription
	go func() {
		defer close(done)
		defer func() { pan = recover() }()
		sub = obs.SubscribeWithContext(ctx, rec)
		if c.Async {
			sub.Wait()
		}
	}()
	select {
	case <-done:
	case <-time.After(10 * time.Second):
		fail("subscribe-never-returns", fmt.Sprintf("%s %v over attempts %v: Subscribe still running after 10s (model says %s)", c.Op, c.P, wordsString(c.Attempts), want))
		return
	}
	if pan != nil {
		fail("panic-escaped", fmt.Sprint(pan))
		return
	}
	desc := fmt.Sprintf("%s%s params=%v truth=%v attempts=%v others=%v async=%v cancelAt=%d", c.Op, c.Variant, c.P, c.Truth, wordsString(c.Attempts), wordsString(c.Others), c.Async, c.CancelAt)
	if a.CapExceeded != 0 && nA <= c15Cap {
		fail("unbounded-resubscription", fmt.Sprintf("%s: the source was subscribed more than %d times; the definition says %d", desc, c15Cap, nA))
		return
	}
	got := cat.TraceOf(rec.Trace())
	if c.CancelAt >= 0 {
		// only Retry is specified under cancellation: no further attempt, Error(ctx.Err())
		if c.Op == "Retry" || c.Op == "RetryDefault" {
			if int(a.Subs) > c.CancelAt+1 {
				fail("attempt-after-context-cancellation", fmt.Sprintf("%s: context cancelled during attempt #%d, yet the source was subscribed %d times", desc, c.CancelAt, a.Subs))
				return
			}
			if nA > c.CancelAt+1 { // the definition wanted more attempts: the cancellation must surface
				tr := rec.Trace()
				if tr.End != 'E' || !errors.Is(tr.Err, context.Canceled) {
					fail("cancellation-not-reported", fmt.Sprintf("%s: expected Error(context canceled) after cancellation, got %s", desc, got))
					return
				}
			}
		}
	} else {
		if !cat.SameTrace(got, want) {
			fail("trace-differs", fmt.Sprintf("%s: got %s, the definition says %s", desc, got, want))
			return
		}
		if int(a.Subs) != nA {
			fail("attempt-count", fmt.Sprintf("%s: the source was subscribed %d times, the definition says %d", desc, a.Subs, nA))
			return
		}
		for i, o := range others {
			if int(o.Subs) != nB[i] {
				cl := "attempt-count"
				if nB[i] == 0 {
					cl = "source-subscribed-after-the-stream-ended"
				}
				fail(cl, fmt.Sprintf("%s: source B%d was subscribed %d times, the definition says %d", desc, i, o.Subs, nB[i]))
				return
			}
		}
	}
	if c.Twice && c.CancelAt < 0 {
		// a second subscription of the same observable gets a fresh budget
		want2, blocked2 := runModelObs(mobs)
		if !blocked2 {
			rec2 := rt.NewRecorder[int]()
			done2 := make(chan struct{})
			go func() {
				defer close(done2)
				defer func() { recover() }()
				s2 := obs.SubscribeWithContext(ctx, rec2)
				if c.Async {
					s2.Wait()
				}
			}()
			select {
			case <-done2:
			case <-time.After(10 * time.Second):
				fail("subscribe-never-returns", desc+": second subscription still running after 10s")
				return
			}
			got2 := cat.TraceOf(rec2.Trace())
			if !cat.SameTrace(got2, want2) || int(a.Subs) != nA {
				fail("second-subscription-budget", fmt.Sprintf("%s: second subscription got %s with %d source subscriptions in total, the definition says %s with %d", desc, got2, a.Subs, want2, nA))
				return
			}
		}
	}
	mon.mu.Lock()
	bad, maxLive := mon.bad, mon.maxLive
	mon.mu.Unlock()
	if maxLive > 1 || bad != "" {
		class := "attempts-overlap"
		switch {
		case c.Virtual:
			class = "next-attempt-started-before-release"
		case c.TeardownUs > 0:
			// real time, attempts that end at once and teardowns that take time: whether
			// the operator is already waiting when the attempt ends is up to the scheduler
			class = "attempts-overlap-wait-during-unsubscription"
		}
		fail(class, fmt.Sprintf("%s: %s (max simultaneously live attempts: %d)", desc, bad, maxLive))
		return
	}
	if g := rec.Grammar(); g != "" {
		fail("grammar", g)
	}
}

// attemptScripts: every script of <= maxVals values over {1,2} ending in C or E.
func attemptScripts(maxVals int) [][]rt.Ev {
	return legalScripts([]int{1, 2}, maxVals, []byte{'C', 'E'})
}

// attemptSeqs enumerates sequences of up to n attempt scripts.
func attemptSeqs(scripts [][]rt.Ev, n int, visit func(seq [][]rt.Ev)) {
	var rec func(seq [][]rt.Ev)
	rec = func(seq [][]rt.Ev) {
		if len(seq) > 0 {
			visit(seq)
		}
		if len(seq) == n {
			return
		}
		for _, s := range scripts {
			rec(append(append([][]rt.Ev(nil), seq...), s))
		}
	}
	rec(nil)
}

func c15NonTrivial(c c15Case) bool {
	if len(c.Attempts) >= 2 && scriptEnd(c.Attempts[0]) != scriptEnd(c.Attempts[1]) {
		return true
	}
	return len(c.Others) > 0 || c.CancelAt >= 0
}

func TestC15_Enumerated(t *testing.T) {
	currentT = t
	scripts := [][]rt.Ev{{rt.C()}, {rt.E(1)}, {rt.N(1), rt.C()}, {rt.N(1), rt.E(1)}, {rt.N(1), rt.N(2), rt.E(2)}}
	maxAttempts := 3
	if rt.Thorough() {
		maxAttempts = 4
		scripts = attemptScripts(2)
	}
	idx := 0
	run := func(c c15Case) {
		idx++
		if !rt.Mine(idx) {
			return
		}
		c15Run(t, c)
		rt.Case(caseKey("att", c.Op, c.Variant, c.P, c.Truth, wordsString(c.Attempts), wordsString(c.Others), c.Async, c.CancelAt), c15NonTrivial(c), "op:"+c.Op, func() any { return c })
		if c.Async && len(c.Attempts)+len(c.Others) >= 2 {
			// the same with teardowns that take time: the next attempt may only start
			// when the previous one has been released, i.e. when its teardown is over
			slow := c
			slow.TeardownUs = 150
			slow.Virtual = true
			c15Run(t, slow)
			rt.Case(caseKey("att-slow-teardown", c.Op, c.Variant, c.P, c.Truth, wordsString(c.Attempts), wordsString(c.Others), c.CancelAt), c15NonTrivial(c), "op:"+c.Op, func() any { return slow })
		}
	}
	attemptSeqs(scripts, maxAttempts, func(seq [][]rt.Ev) {
		for _, async := range []bool{false, true} {
			for max := 1; max <= 3; max++ {
				for reset := 0; reset <= 1; reset++ {
					// ResetOnSuccess over a source that keeps delivering a value and failing retries for ever: not generated
					diverges := false
					if reset == 1 {
						last := seq[len(seq)-1]
						if scriptEnd(last) == 'E' && scriptValues(last) > 0 {
							diverges = true
						}
					}
					if diverges {
						continue
					}
					run(c15Case{Op: "Retry", P: []int{max, reset}, Attempts: seq, Async: async, CancelAt: -1})
					if !async {
						run(c15Case{Op: "Retry", P: []int{max, reset}, Attempts: seq, CancelAt: -1, Twice: true})
					}
				}
			}
			if scriptEnd(seq[len(seq)-1]) == 'C' {
				run(c15Case{Op: "RetryDefault", Attempts: seq, Async: async, CancelAt: -1})
				// budgets at the top of the range behave like "as many as it takes"
				for _, max := range []int{-1, -2, -3} {
					run(c15Case{Op: "Retry", P: []int{max, 0}, Attempts: seq, Async: async, CancelAt: -1})
				}
			}
			if scriptEnd(seq[len(seq)-1]) == 'E' {
				run(c15Case{Op: "RepeatWith", P: []int{-1}, Attempts: seq, Async: async, CancelAt: -1})
			}
			for n := 0; n <= 3; n++ {
				run(c15Case{Op: "RepeatWith", P: []int{n}, Attempts: seq, Async: async, CancelAt: -1, Twice: !async})
			}
		}
	})
	// loops: every truth sequence of length <= 3 x all four variants
	for _, v := range []string{"", "WithContext", "I", "IWithContext"} {
		for bits := 0; bits < 16; bits++ {
			truth := []bool{bits&1 != 0, bits&2 != 0, bits&4 != 0, bits&8 != 0}
			for _, seq := range [][][]rt.Ev{{{rt.N(1), rt.C()}}, {{rt.N(1), rt.C()}, {rt.N(2), rt.C()}, {rt.E(1)}}, {{rt.C()}, {rt.N(1), rt.N(2), rt.C()}}} {
				for _, async := range []bool{false, true} {
					run(c15Case{Op: "DoWhile", Variant: v, Truth: truth, Attempts: seq, Async: async, CancelAt: -1})
					run(c15Case{Op: "While", Variant: v, Truth: truth, Attempts: seq, Async: async, CancelAt: -1})
				}
			}
		}
	}
	// fallbacks and concatenations
	for _, first := range scripts {
		for _, async := range []bool{false, true} {
			for _, fb := range scripts {
				run(c15Case{Op: "Catch", Attempts: [][]rt.Ev{first}, Others: [][]rt.Ev{fb}, Async: async, CancelAt: -1})
			}
			for n := 0; n <= 3; n++ {
				for shift := 0; shift < len(scripts); shift++ {
					others := make([][]rt.Ev, n)
					for i := range others {
						others[i] = scripts[(shift+i*2)%len(scripts)]
					}
					for _, op := range []string{"OnErrorResumeNextWith", "Concat", "ConcatWith", "ConcatAll"} {
						run(c15Case{Op: op, Attempts: [][]rt.Ev{first}, Others: others, Async: async, CancelAt: -1})
					}
				}
			}
		}
	}
	// cancellation of the subscription context during attempt j (Retry)
	attemptSeqs([][]rt.Ev{{rt.E(1)}, {rt.N(1), rt.E(1)}, {rt.N(1), rt.C()}}, 3, func(seq [][]rt.Ev) {
		for j := 0; j < len(seq); j++ {
			run(c15Case{Op: "Retry", P: []int{3, 0}, Attempts: seq, CancelAt: j})
			if scriptEnd(seq[len(seq)-1]) == 'C' {
				run(c15Case{Op: "RetryDefault", Attempts: seq, CancelAt: j})
			}
		}
	})
	rt.Note("enumerated_scope", fmt.Sprintf("every sequence of <= %d attempt outcomes over %d attempt scripts x Retry{MaxRetries 1..3, ResetOnSuccess} / Retry() / RepeatWith 0..3, sync and async attempts; DoWhile/While x 4 variants x every truth sequence of length 4; Catch x fallback outcome; OnErrorResumeNextWith/Concat/ConcatWith/ConcatAll with 0..3 further sources; context cancellation during each attempt (Retry)", maxAttempts, len(scripts)))
}

func TestC15_Random(t *testing.T) {
	currentT = t
	scripts := attemptScripts(3)
	rapid.Check(t, func(t *rapid.T) {
		n := rapid.IntRange(1, 5).Draw(t, "attempts")
		seq := make([][]rt.Ev, n)
		for i := range seq {
			seq[i] = scripts[rapid.IntRange(0, len(scripts)-1).Draw(t, "script")]
		}
		op := rapid.SampledFrom([]string{"Retry", "RepeatWith", "DoWhile", "While", "OnErrorResumeNextWith", "ConcatWith"}).Draw(t, "op")
		c := c15Case{Op: op, Attempts: seq, Async: rapid.Bool().Draw(t, "async"), CancelAt: -1}
		switch op {
		case "Retry":
			c.P = []int{rapid.IntRange(1, 4).Draw(t, "max"), 0}
		case "RepeatWith":
			c.P = []int{rapid.IntRange(0, 4).Draw(t, "n")}
		case "DoWhile", "While":
			c.Truth = rapid.SliceOfN(rapid.Bool(), 0, 5).Draw(t, "truth")
			c.Variant = rapid.SampledFrom([]string{"", "WithContext", "I", "IWithContext"}).Draw(t, "variant")
		default:
			k := rapid.IntRange(0, 3).Draw(t, "others")
			for i := 0; i < k; i++ {
				c.Others = append(c.Others, scripts[rapid.IntRange(0, len(scripts)-1).Draw(t, "os")])
			}
			c.Attempts = seq[:1]
		}
		if c.Async {
			c.TeardownUs = rapid.SampledFrom([]int{0, 100, 400}).Draw(t, "teardownUs")
			c.Virtual = c.TeardownUs > 0 && rapid.Bool().Draw(t, "virtual")
		}
		c15Run(t, c)
		rt.Case(caseKey("attrand", fmt.Sprint(c)), c15NonTrivial(c), "random:"+op, func() any { return c })
	})
}
