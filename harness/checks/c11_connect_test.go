package checks

import (
	"encoding/json"
	"fmt"
	"sync"
	"testing"
	"time"

	"github.com/samber/ro"
	"pgregory.net/rapid"
	"verifharness/rt"
)

// C11, connectable observables under concurrent Connect / Subscribe: however
// many goroutines call Connect together, the source is subscribed once, every
// subscriber sees every value once, and disconnecting through the returned
// connections releases the source.

type c11Connect struct {
	Kind        string `json:"connector"`
	Size        int    `json:"size,omitempty"`
	Reset       bool   `json:"reset_on_disconnect"`
	Connectors  int    `json:"connect_calls"`
	Subscribers int    `json:"subscribers"`
	Values      int    `json:"values"`
	SubDwellUs  int    `json:"source_subscribe_dwell_us"` // time the source's subscribe function takes
	Reps        int    `json:"reps"`
}

func init() {
	replayers["connect-concurrent"] = func(t *testing.T, raw json.RawMessage) {
		var c c11Connect
		if err := json.Unmarshal(raw, &c); err != nil {
			t.Fatal(err)
		}
		c.Reps *= 20
		c11RunConnect(t, c)
	}
}

func c11RunConnect(t rt.TB, c c11Connect) {
	fail := func(class, msg string) {
		rt.Report(t, rt.Failure{Property: "C11", Check: "connect-concurrent", Op: "Connectable", Class: class, Msg: msg, Case: c})
	}
	for rep := 0; rep < c.Reps; rep++ {
		man := rt.NewManual("src", rt.CtorSafeCtx)
		if c.SubDwellUs > 0 {
			man.OnSubscribe = func(int) { time.Sleep(time.Duration(c.SubDwellUs) * time.Microsecond) }
		}
		conn := ro.ConnectableWithConfig(man.Observable(), ro.ConnectableConfig[int]{
			Connector:         func() ro.Subject[int] { return subjectKind{Kind: c.Kind, Size: c.Size}.New() },
			ResetOnDisconnect: c.Reset,
		})
		recs := make([]*rt.Recorder[int], c.Subscribers)
		subs := make([]ro.Subscription, c.Subscribers)
		for i := range recs {
			recs[i] = rt.NewRecorder[int]()
			subs[i] = conn.Subscribe(recs[i])
		}
		if man.Subs != 0 {
			fail("source-subscribed-before-connect", fmt.Sprintf("%d subscribers, no Connect yet: the source has been subscribed %d times", c.Subscribers, man.Subs))
			return
		}
		connections := make([]ro.Subscription, c.Connectors)
		var wg sync.WaitGroup
		start := make(chan struct{})
		bar := rt.NewBarrier(len(connections))
		for i := range connections {
			wg.Add(1)
			go func(i int) {
				defer wg.Done()
				<-start
				bar.Wait()
				connections[i] = conn.Connect()
			}(i)
		}
		close(start)
		wg.Wait()
		if man.Subs != 1 || man.MaxLive > 1 {
			fail("more-than-one-live-upstream-subscription", fmt.Sprintf("%d concurrent Connect calls (repetition %d): the source was subscribed %d times, %d live at once", c.Connectors, rep, man.Subs, man.MaxLive))
			return
		}
		for v := 1; v <= c.Values; v++ {
			man.Emit(rt.N(v))
		}
		for i, r := range recs {
			var got []int
			for _, x := range r.Recs() {
				if x.K == 'N' && x.V.(int) != behaviorInitial {
					got = append(got, x.V.(int))
				}
			}
			if fmt.Sprint(got) != fmt.Sprint(seqInts(c.Values + 1)[1:]) && !(len(got) == 0 && c.Values == 0) {
				fail("subscribers-do-not-see-each-value-once", fmt.Sprintf("%d concurrent Connect calls (repetition %d): subscriber %d saw %v of 1..%d", c.Connectors, rep, i, got, c.Values))
				return
			}
			if g := r.Grammar(); g != "" {
				fail("grammar", g)
				return
			}
		}
		for _, cn := range connections {
			if cn != nil {
				cn.Unsubscribe()
			}
		}
		if man.LiveDests() != 0 {
			fail("upstream-not-released-after-disconnect", fmt.Sprintf("%d concurrent Connect calls (repetition %d), every returned connection unsubscribed: the source still has %d live subscriptions", c.Connectors, rep, man.LiveDests()))
			return
		}
		before := make([]int, len(recs))
		for i, r := range recs {
			before[i] = r.Len()
		}
		man.EmitAll(rt.N(77)) // an ill-behaved source that goes on after release: nothing may come through
		for i, r := range recs {
			if r.Len() != before[i] {
				fail("delivery-after-disconnect", fmt.Sprintf("subscriber %d received a value after every connection had been unsubscribed", i))
				return
			}
		}
		for _, s := range subs {
			s.Unsubscribe()
		}
	}
}

func TestC11_ConcurrentConnect(t *testing.T) {
	reps := 25
	if rt.Thorough() {
		reps = 300
	}
	rapid.Check(t, func(t *rapid.T) {
		k := rapid.SampledFrom([]subjectKind{{"publish", 0}, {"behavior", 0}, {"replay", 2}}).Draw(t, "connector")
		c := c11Connect{Kind: k.Kind, Size: k.Size, Reset: rapid.Bool().Draw(t, "reset"), Connectors: rapid.IntRange(2, 6).Draw(t, "connects"), Subscribers: rapid.IntRange(1, 3).Draw(t, "subscribers"),
			Values: rapid.IntRange(0, 4).Draw(t, "values"), SubDwellUs: rapid.SampledFrom([]int{0, 20, 200}).Draw(t, "dwell"), Reps: reps}
		c11RunConnect(t, c)
		rt.Case(caseKey("connectconc", c.Kind, c.Reset, c.Connectors, c.Subscribers, c.Values, c.SubDwellUs), true, "concurrent-connect", func() any { return c })
	})
}
