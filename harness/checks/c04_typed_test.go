package checks

import (
	"encoding/json"
	"errors"
	"fmt"
	"math"
	"math/big"
	"testing"

	"github.com/samber/ro"
	"pgregory.net/rapid"
	"verifharness/rt"
)

// C04, aggregations over every numeric element type: the catalogue instantiates
// Sum / Average / Min / Max / Clamp / Count with int only, and the documented
// result ("the sum", "the average", ...) is a statement about numbers, not about
// one instantiation. Oracle: exact rational arithmetic.

type c04TypedCase struct {
	Type string    `json:"type"`
	Vals []float64 `json:"values"` // exactly representable in the element type
	End  string    `json:"end"`
	Lo   float64   `json:"lo"`
	Hi   float64   `json:"hi"`
}

type numeric interface {
	~int8 | ~int16 | ~int32 | ~int64 | ~int | ~uint8 | ~uint16 | ~uint32 | ~uint64 | ~uint | ~float32 | ~float64
}

func init() {
	replayers["math-typed"] = func(t *testing.T, raw json.RawMessage) {
		var c c04TypedCase
		if err := json.Unmarshal(raw, &c); err != nil {
			t.Fatal(err)
		}
		c04TypedDispatch(t, c)
	}
}

type typeInfo struct {
	min, max float64
	float    bool
}

var c04Types = map[string]typeInfo{
	"int8": {math.MinInt8, math.MaxInt8, false}, "int16": {math.MinInt16, math.MaxInt16, false}, "int32": {math.MinInt32, math.MaxInt32, false},
	"int64": {-(1 << 52), 1 << 52, false}, "int": {-(1 << 52), 1 << 52, false},
	"uint8": {0, math.MaxUint8, false}, "uint16": {0, math.MaxUint16, false}, "uint32": {0, math.MaxUint32, false}, "uint64": {0, 1 << 52, false}, "uint": {0, 1 << 52, false},
	"float32": {-(1 << 23), 1 << 23, true}, "float64": {-(1 << 52), 1 << 52, true},
}
var c04TypeNames = []string{"int8", "int16", "int32", "int64", "int", "uint8", "uint16", "uint32", "uint64", "uint", "float32", "float64"}

func c04TypedDispatch(t rt.TB, c c04TypedCase) {
	switch c.Type {
	case "int8":
		c04TypedRun[int8](t, c)
	case "int16":
		c04TypedRun[int16](t, c)
	case "int32":
		c04TypedRun[int32](t, c)
	case "int64":
		c04TypedRun[int64](t, c)
	case "int":
		c04TypedRun[int](t, c)
	case "uint8":
		c04TypedRun[uint8](t, c)
	case "uint16":
		c04TypedRun[uint16](t, c)
	case "uint32":
		c04TypedRun[uint32](t, c)
	case "uint64":
		c04TypedRun[uint64](t, c)
	case "uint":
		c04TypedRun[uint](t, c)
	case "float32":
		c04TypedRun[float32](t, c)
	case "float64":
		c04TypedRun[float64](t, c)
	}
}

func collectTyped[T any](o ro.Observable[T]) (vals []T, err error, pan any) {
	defer func() { pan = recover() }()
	vals, err = ro.Collect(o)
	return
}

func c04TypedRun[T numeric](t rt.TB, c c04TypedCase) {
	ti := c04Types[c.Type]
	xs := make([]T, len(c.Vals))
	for i, v := range c.Vals {
		xs[i] = T(v)
	}
	boom := errors.New("e1")
	src := func() ro.Observable[T] {
		if c.End == "E" {
			return ro.Concat(ro.FromSlice(xs), ro.Throw[T](boom))
		}
		return ro.FromSlice(xs)
	}
	fail := func(op, class, msg string) {
		rt.Report(t, rt.Failure{Property: "C04", Check: "math-typed", Op: op, Class: class, Msg: msg, Case: c})
	}
	ending := func(op string, err error, pan any) bool {
		if pan != nil {
			fail(op, "panic-escaped", fmt.Sprintf("%s[%s] over %v: panic %v", op, c.Type, c.Vals, pan))
			return false
		}
		if c.End == "E" {
			if !errors.Is(err, boom) {
				fail(op, "error-not-forwarded", fmt.Sprintf("%s[%s] over %v then error: ended with %v", op, c.Type, c.Vals, err))
			}
			return false
		}
		if err != nil {
			fail(op, "unexpected-error", fmt.Sprintf("%s[%s] over %v: %v", op, c.Type, c.Vals, err))
			return false
		}
		return true
	}
	exact := new(big.Rat)
	for _, v := range c.Vals {
		r := new(big.Rat)
		r.SetFloat64(v)
		exact.Add(exact, r)
	}
	sumF, _ := exact.Float64()
	// floating-point accumulation is allowed its rounding: a tolerance relative to
	// the sum of magnitudes (float64 accumulator: 1e-12, float32 accumulator: 1e-5)
	mag := 1.0
	for _, v := range c.Vals {
		mag += math.Abs(v)
	}
	n := len(c.Vals)

	// Sum: exact whenever the true sum is representable
	if got, err, pan := collectTyped(ro.Sum[T]()(src())); ending("Sum", err, pan) {
		fits := sumF >= ti.min && sumF <= ti.max
		if len(got) != 1 {
			fail("Sum", "wrong-number-of-values", fmt.Sprintf("Sum[%s] over %v delivered %v", c.Type, c.Vals, got))
		} else if ti.float {
			tol := 1e-12 * mag
			if c.Type == "float32" {
				tol = 1e-5 * mag
			}
			if math.Abs(float64(got[0])-sumF) > tol {
				fail("Sum", "wrong-sum", fmt.Sprintf("Sum[%s] over %v delivered %v, the sum is %v", c.Type, c.Vals, got[0], sumF))
			}
		} else if fits && float64(got[0]) != sumF {
			fail("Sum", "wrong-sum", fmt.Sprintf("Sum[%s] over %v delivered %v, the sum is %v", c.Type, c.Vals, got[0], sumF))
		}
	}
	// Average: the exact mean, within float64 rounding
	if got, err, pan := collectTyped(ro.Average[T]()(src())); ending("Average", err, pan) {
		switch {
		case n == 0:
			if len(got) != 1 || !math.IsNaN(got[0]) {
				fail("Average", "empty-not-nan", fmt.Sprintf("Average[%s] over nothing delivered %v, documented NaN", c.Type, got))
			}
		case len(got) != 1:
			fail("Average", "wrong-number-of-values", fmt.Sprintf("Average[%s] over %v delivered %v", c.Type, c.Vals, got))
		default:
			want, _ := new(big.Rat).Quo(exact, big.NewRat(int64(n), 1)).Float64()
			if math.Abs(got[0]-want) > 1e-12*mag {
				fail("Average", "wrong-average", fmt.Sprintf("Average[%s] over %v delivered %v, the average is %v", c.Type, c.Vals, got[0], want))
			}
		}
	}
	// Min / Max over a non-empty input (the empty case is a catalogue row)
	if n > 0 {
		mn, mx := c.Vals[0], c.Vals[0]
		for _, v := range c.Vals {
			mn, mx = math.Min(mn, v), math.Max(mx, v)
		}
		if got, err, pan := collectTyped(ro.Min[T]()(src())); ending("Min", err, pan) {
			if len(got) != 1 || float64(got[0]) != mn {
				fail("Min", "wrong-minimum", fmt.Sprintf("Min[%s] over %v delivered %v, want %v", c.Type, c.Vals, got, mn))
			}
		}
		if got, err, pan := collectTyped(ro.Max[T]()(src())); ending("Max", err, pan) {
			if len(got) != 1 || float64(got[0]) != mx {
				fail("Max", "wrong-maximum", fmt.Sprintf("Max[%s] over %v delivered %v, want %v", c.Type, c.Vals, got, mx))
			}
		}
	}
	// Count
	if got, err, pan := collectTyped(ro.Count[T]()(src())); ending("Count", err, pan) {
		if len(got) != 1 || got[0] != int64(n) {
			fail("Count", "wrong-count", fmt.Sprintf("Count[%s] over %v delivered %v", c.Type, c.Vals, got))
		}
	}
	// Clamp: value by value, order kept
	func() {
		var op func(ro.Observable[T]) ro.Observable[T]
		var pan any
		func() {
			defer func() { pan = recover() }()
			op = ro.Clamp[T](T(c.Lo), T(c.Hi))
		}()
		if pan != nil {
			fail("Clamp", "panic-escaped", fmt.Sprintf("Clamp[%s](%v, %v): %v", c.Type, c.Lo, c.Hi, pan))
			return
		}
		got, err, pan := collectTyped(op(src()))
		if pan != nil {
			fail("Clamp", "panic-escaped", fmt.Sprint(pan))
			return
		}
		if c.End == "E" && !errors.Is(err, boom) || c.End != "E" && err != nil {
			fail("Clamp", "wrong-ending", fmt.Sprintf("Clamp[%s] over %v ended with %v", c.Type, c.Vals, err))
			return
		}
		if len(got) != n {
			fail("Clamp", "wrong-number-of-values", fmt.Sprintf("Clamp[%s](%v,%v) over %v delivered %v", c.Type, c.Lo, c.Hi, c.Vals, got))
			return
		}
		for i, v := range c.Vals {
			want := math.Min(math.Max(v, c.Lo), c.Hi)
			if float64(got[i]) != want {
				fail("Clamp", "wrong-value", fmt.Sprintf("Clamp[%s](%v,%v) over %v delivered %v at #%d, want %v", c.Type, c.Lo, c.Hi, c.Vals, got[i], i, want))
				return
			}
		}
	}()
}

func TestC04_MathTyped(t *testing.T) { rapid.Check(t, propC04MathTyped) }

func propC04MathTyped(t *rapid.T) {
	name := rapid.SampledFrom(c04TypeNames).Draw(t, "type")
	ti := c04Types[name]
	val := rapid.Custom(func(t *rapid.T) float64 {
		switch rapid.IntRange(0, 5).Draw(t, "shape") {
		case 0:
			return ti.max - float64(rapid.IntRange(0, 3).Draw(t, "d"))
		case 1:
			return ti.min + float64(rapid.IntRange(0, 3).Draw(t, "d"))
		case 2:
			v := float64(rapid.IntRange(-100, 200).Draw(t, "small"))
			return math.Min(math.Max(v, ti.min), ti.max)
		case 3:
			if ti.float {
				return float64(rapid.IntRange(-4000, 4000).Draw(t, "q")) / 8 // exact in float32
			}
			return math.Min(math.Max(float64(rapid.IntRange(-3, 3).Draw(t, "tiny")), ti.min), ti.max)
		default:
			span := ti.max - ti.min
			return ti.min + math.Floor(rapid.Float64Range(0, 1).Draw(t, "u")*span)
		}
	})
	c := c04TypedCase{Type: name, Vals: rapid.SliceOfN(val, 0, 8).Draw(t, "values"), End: rapid.SampledFrom([]string{"C", "C", "E"}).Draw(t, "end")}
	if name == "float32" {
		for i, v := range c.Vals {
			c.Vals[i] = float64(float32(v))
		}
	}
	a, b := val.Draw(t, "lo"), val.Draw(t, "hi")
	if name == "float32" {
		a, b = float64(float32(a)), float64(float32(b))
	}
	c.Lo, c.Hi = math.Min(a, b), math.Max(a, b)
	c04TypedDispatch(t, c)
	rt.Case(caseKey("mathtyped", name, c.Vals, c.End, c.Lo, c.Hi), len(c.Vals) >= 2 && name != "int", "typed:"+name, func() any { return c })
}
