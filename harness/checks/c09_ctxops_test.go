package checks

import (
	"context"
	"encoding/json"
	"fmt"
	"testing"
	"time"

	"github.com/samber/ro"
	"pgregory.net/rapid"
	"verifharness/rt"
)

// C09, the context operators themselves, each against its documented effect on
// the contexts handed downstream (values, errors and completion alike where the
// documentation says "each item"/"new context"), in chains with pass-through
// operators in front of and behind them:
//   ContextWithValue(k,v)    every notification carries k=v, and the source is subscribed with it
//   ContextWithDeadline(d)   every value's context has a deadline not later than d, and keeps what it carried
//   ContextWithTimeout(t)    every value's context has a deadline within (now, now+t], and keeps what it carried
//   ContextReset(ctx)        every notification arrives with exactly ctx (nil: context.Background())
//   ContextMap / ContextMapI every value's context is the one the callback returned

type c09Ops struct {
	Op     string  `json:"op"`
	Before string  `json:"before"` // pass-through stage in front ("" | Map | Filter | Scan)
	After  string  `json:"after"`
	Script []rt.Ev `json:"script"`
	NilArg bool    `json:"nil_argument,omitempty"` // ContextReset(nil)
}

type c09OpsKey string

func init() {
	replayers["context-operators"] = func(t *testing.T, raw json.RawMessage) {
		var c c09Ops
		if err := json.Unmarshal(raw, &c); err != nil {
			t.Fatal(err)
		}
		c09OpsRun(t, c)
	}
}

func c09Stage(name string) func(ro.Observable[int]) ro.Observable[int] {
	switch name {
	case "Map":
		return ro.Map(func(x int) int { return x })
	case "Filter":
		return ro.Filter(func(int) bool { return true })
	case "Scan":
		return ro.Scan(func(a, x int) int { return x }, 0)
	case "Take":
		return ro.Take[int](100)
	}
	return func(o ro.Observable[int]) ro.Observable[int] { return o }
}

func c09OpsRun(t rt.TB, c c09Ops) {
	fail := func(class, msg string) {
		rt.Report(t, rt.Failure{Property: "C09", Check: "context-operators", Op: c.Op, Class: class, Msg: msg, Case: c})
	}
	rt.NewSink()
	id := 31
	sub0 := context.WithValue(context.Background(), rt.SubKey, id)
	src := rt.NewScript("src", rt.CtorUnsafeCtx, c.Script)
	deadline := time.Now().Add(time.Hour)
	resetCtx := context.WithValue(context.Background(), c09OpsKey("reset"), "fresh")
	var op func(ro.Observable[int]) ro.Observable[int]
	switch c.Op {
	case "ContextWithValue":
		op = ro.ContextWithValue[int](c09OpsKey("k"), "v")
	case "ContextWithDeadline":
		op = ro.ContextWithDeadline[int](deadline)
	case "ContextWithTimeout":
		op = ro.ContextWithTimeout[int](time.Hour)
	case "ContextReset":
		if c.NilArg {
			op = ro.ContextReset[int](nil)
		} else {
			op = ro.ContextReset[int](resetCtx)
		}
	case "ContextMap":
		op = ro.ContextMap[int](func(cx context.Context) context.Context { return context.WithValue(cx, c09OpsKey("mapped"), true) })
	case "ContextMapI":
		op = ro.ContextMapI[int](func(cx context.Context, i int64) context.Context { return context.WithValue(cx, c09OpsKey("mapped"), i) })
	}
	rec := rt.NewRecorder[int]()
	var pan any
	start := time.Now()
	func() {
		defer func() { pan = recover() }()
		c09Stage(c.After)(op(c09Stage(c.Before)(src.Observable()))).SubscribeWithContext(sub0, rec)
	}()
	desc := fmt.Sprintf("%s>%s>%s over [%s]", c.Before, c.Op, c.After, rt.ScriptString(c.Script))
	if pan != nil {
		fail("panic-escaped", fmt.Sprintf("%s: %v", desc, pan))
		return
	}
	if c.Op == "ContextWithValue" {
		for i, sc := range src.SubCtxs {
			if sc == nil || sc.Value(c09OpsKey("k")) != "v" {
				fail("source-not-subscribed-with-the-attached-value", fmt.Sprintf("%s: source subscription #%d got %v", desc, i, sc))
				return
			}
		}
	}
	nextIdx := int64(0)
	for i, r := range rec.Recs() {
		kind := map[byte]string{'N': "Next", 'E': "Error", 'C': "Complete"}[r.K]
		if r.CtxNil {
			fail("nil-context-on-"+kind, fmt.Sprintf("%s: callback #%d received a nil context", desc, i))
			return
		}
		keepsUpstream := c.Op != "ContextReset"
		if keepsUpstream && r.Ctx.Value(rt.SubKey) != id {
			fail("subscription-marker-lost-on-"+kind, fmt.Sprintf("%s: callback #%d %s: the value attached at SubscribeWithContext is not visible", desc, i, kind))
			return
		}
		switch c.Op {
		case "ContextWithValue":
			if r.Ctx.Value(c09OpsKey("k")) != "v" {
				fail("attached-value-missing-on-"+kind, fmt.Sprintf("%s: callback #%d %s does not carry the attached value", desc, i, kind))
				return
			}
		case "ContextWithDeadline", "ContextWithTimeout":
			if r.K != 'N' {
				continue
			}
			dl, ok := r.Ctx.Deadline()
			if !ok {
				fail("deadline-missing", fmt.Sprintf("%s: value #%d has no deadline", desc, i))
				return
			}
			if c.Op == "ContextWithDeadline" && !dl.Equal(deadline) {
				fail("wrong-deadline", fmt.Sprintf("%s: value #%d has deadline %v, configured %v", desc, i, dl, deadline))
				return
			}
			if c.Op == "ContextWithTimeout" && (dl.Before(start.Add(time.Hour)) || dl.After(time.Now().Add(time.Hour))) {
				fail("wrong-deadline", fmt.Sprintf("%s: value #%d has deadline %v, expected within one hour of its emission", desc, i, dl))
				return
			}
			if _, has := r.Ctx.Value(rt.ItemKey).(int); !has {
				fail("item-context-lost", fmt.Sprintf("%s: value #%d lost what its context carried", desc, i))
				return
			}
		case "ContextReset":
			if c.NilArg {
				if r.Ctx != context.Background() {
					fail("not-the-new-context-on-"+kind, fmt.Sprintf("%s: callback #%d %s arrives with %v, want context.Background()", desc, i, kind, r.Ctx))
					return
				}
			} else if r.Ctx.Value(c09OpsKey("reset")) != "fresh" || r.Ctx.Value(rt.SubKey) != nil {
				fail("not-the-new-context-on-"+kind, fmt.Sprintf("%s: callback #%d %s arrives with %v, want the context given to ContextReset", desc, i, kind, r.Ctx))
				return
			}
		case "ContextMap", "ContextMapI":
			if r.K != 'N' {
				continue
			}
			m := r.Ctx.Value(c09OpsKey("mapped"))
			if c.Op == "ContextMap" && m != true || c.Op == "ContextMapI" && m != nextIdx {
				fail("callback-returned-context-lost", fmt.Sprintf("%s: value #%d carries %v, the callback returned a context with the mark (index %d)", desc, i, m, nextIdx))
				return
			}
			nextIdx++
		}
	}
}

func TestC09_ContextOperators(t *testing.T) { rapid.Check(t, propC09ContextOperators) }

func propC09ContextOperators(t *rapid.T) {
	c := c09Ops{Op: rapid.SampledFrom([]string{"ContextWithValue", "ContextWithDeadline", "ContextWithTimeout", "ContextReset", "ContextMap", "ContextMapI"}).Draw(t, "op"),
		Before: rapid.SampledFrom([]string{"", "Map", "Filter", "Scan"}).Draw(t, "before"), After: rapid.SampledFrom([]string{"", "Map", "Filter", "Take"}).Draw(t, "after"),
		Script: seqScript(rapid.IntRange(0, 4).Draw(t, "n"), rapid.SampledFrom([]byte{'C', 'E', 0}).Draw(t, "end"))}
	if c.Op == "ContextReset" {
		c.NilArg = rapid.Bool().Draw(t, "nilArg")
	}
	c09OpsRun(t, c)
	rt.Case(caseKey("ctxops", c.Op, c.Before, c.After, rt.ScriptString(c.Script), c.NilArg), scriptValues(c.Script) > 0, "ctxop:"+c.Op, func() any { return c })
}
