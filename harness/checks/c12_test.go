package checks

import (
	"context"
	"encoding/json"
	"fmt"
	"sync"
	"testing"

	"github.com/samber/ro"
	"pgregory.net/rapid"
	"verifharness/cat"
	"verifharness/model"
	"verifharness/rt"
)

// C12 — pipelines are reusable recipes.

type c12Case struct {
	Mode    string     `json:"mode"` // resubscribe | apply-many | concurrent
	Links   []cat.Link `json:"chain"`
	Scripts [][]rt.Ev  `json:"scripts"` // one per source
	N       int        `json:"n"`       // subscriptions
	Order   []int      `json:"order,omitempty"`
}

func init() {
	replayers["reuse"] = func(t *testing.T, raw json.RawMessage) {
		var c c12Case
		if err := json.Unmarshal(raw, &c); err != nil {
			t.Fatal(err)
		}
		c12Run(t, c)
	}
}

// countingCold is the model's cold source with a subscription counter.
func countingCold(script []rt.Ev, n *int) model.Obs {
	cold := model.Cold(cat.ModelIn(script))
	return func(d model.Sink) { *n++; cold(d) }
}

func c12Stateful(links []cat.Link) bool {
	for _, l := range links {
		if cat.ByName(l.Op).Stateful {
			return true
		}
	}
	return false
}

func c12Run(t rt.TB, c c12Case) {
	name := chainName(c.Links)
	fail := func(class, msg string) {
		rt.Report(t, rt.Failure{Property: "C12", Check: "reuse", Op: name, Class: class, Msg: msg, Case: c})
	}
	env := cat.NewEnv()
	build := func() (opII, model.Operator) {
		if len(c.Links) == 1 {
			l := c.Links[0]
			row := cat.ByName(l.Op)
			return opII(cat.ChainStage(row.Build(l.Variant, l.P, env))), cat.ChainModel(row.Model(l.P, cat.NewMEnv(nil)))
		}
		r, m := buildChain(c.Links, env, cat.NewMEnv(nil))
		return opII(r), m
	}
	op, _ := build()
	// expect: the trace of a FIRST subscription to a FRESHLY built pipeline over
	// script s (differential; C04 ties that trace to the model), and the number of
	// source subscriptions one Subscribe causes according to the definition.
	expect := func(s []rt.Ev) (model.Trace, int, bool) {
		_, mop := build()
		n := 0
		_, blocked := runModelObs(mop(countingCold(s, &n)))
		if blocked {
			return model.Trace{}, 0, true
		}
		fop, _ := build()
		rec := rt.NewRecorder[int]()
		func() {
			defer func() { recover() }()
			fop(rt.NewScript("fresh", rt.CtorUnsafeCtx, s).Observable()).Subscribe(rec)
		}()
		return cat.TraceOf(rec.Trace()), n, false
	}
	switch c.Mode {
	case "resubscribe":
		s := c.Scripts[0]
		want, wantSubs, blocked := expect(s)
		if blocked {
			return
		}
		src := rt.NewScript("src", rt.CtorUnsafeCtx, s)
		obs := op(src.Observable())
		if src.Subs != 0 {
			fail("source-touched-at-construction", fmt.Sprintf("%s: source subscribed %d times while building the pipeline", name, src.Subs))
		}
		for i := 0; i < c.N; i++ {
			rec := rt.NewRecorder[int]()
			before := src.Subs
			var pan any
			func() {
				defer func() { pan = recover() }()
				obs.SubscribeWithContext(c12Ctx(i), rec)
			}()
			if pan != nil {
				fail("panic-escaped", fmt.Sprint(pan))
				return
			}
			if m := c12ForeignCtx(rec, i); m != "" {
				fail("context-of-another-subscription", fmt.Sprintf("%s over [%s]: subscription #%d: %s", name, rt.ScriptString(s), i+1, m))
				return
			}
			got := cat.TraceOf(rec.Trace())
			if !cat.SameTrace(got, want) {
				fail("subscription-state-leaks", fmt.Sprintf("%s over [%s]: subscription #%d got %s, a first subscription gives %s", name, rt.ScriptString(s), i+1, got, want))
				return
			}
			if d := int(src.Subs - before); d != wantSubs {
				fail("source-subscription-count", fmt.Sprintf("%s over [%s]: subscription #%d subscribed the source %d times, definition says %d", name, rt.ScriptString(s), i+1, d, wantSubs))
				return
			}
		}
	case "apply-many":
		// one operator value applied to several sources, then subscribed in the given order
		srcs := make([]*rt.ScriptSrc, len(c.Scripts))
		obss := make([]obsI, len(c.Scripts))
		for i, s := range c.Scripts {
			srcs[i] = rt.NewScript(fmt.Sprintf("src%d", i), rt.CtorUnsafeCtx, s)
			obss[i] = op(srcs[i].Observable())
		}
		for i, s := range srcs {
			if s.Subs != 0 {
				fail("source-touched-at-construction", fmt.Sprintf("source %d subscribed at application time", i))
			}
		}
		for _, i := range c.Order {
			want, _, blocked := expect(c.Scripts[i])
			if blocked {
				continue
			}
			rec := rt.NewRecorder[int]()
			var pan any
			func() {
				defer func() { pan = recover() }()
				obss[i].SubscribeWithContext(c12Ctx(i), rec)
			}()
			if pan != nil {
				fail("panic-escaped", fmt.Sprint(pan))
				return
			}
			if m := c12ForeignCtx(rec, i); m != "" {
				fail("context-of-another-subscription", fmt.Sprintf("%s applied to %d sources, subscribing in order %v: pipeline #%d: %s", name, len(c.Scripts), c.Order, i+1, m))
				return
			}
			got := cat.TraceOf(rec.Trace())
			if !cat.SameTrace(got, want) {
				fail("operator-value-shares-state", fmt.Sprintf("%s applied to %d sources, subscribing in order %v: pipeline over [%s] got %s, alone it gives %s", name, len(c.Scripts), c.Order, rt.ScriptString(c.Scripts[i]), got, want))
				return
			}
		}
	case "interleaved":
		// N subscriptions alive at the same time over one manually driven source:
		// every pushed notification reaches all of them in turn
		s := c.Scripts[0]
		// reference: ONE subscription of a fresh pipeline driven the same way
		var want model.Trace
		{
			fop, _ := build()
			fman := rt.NewManual("fresh", rt.CtorUnsafeCtx)
			frec := rt.NewRecorder[int]()
			func() {
				defer func() { recover() }()
				fop(fman.Observable()).Subscribe(frec)
			}()
			for _, e := range s {
				fman.EmitAll(e)
			}
			want = cat.TraceOf(frec.Trace())
		}
		man := rt.NewManual("src", rt.CtorUnsafeCtx)
		obs := op(man.Observable())
		recs := make([]*rt.Recorder[int], c.N)
		for i := range recs {
			recs[i] = rt.NewRecorder[int]()
			var pan any
			func() {
				defer func() { pan = recover() }()
				obs.Subscribe(recs[i])
			}()
			if pan != nil {
				fail("panic-escaped", fmt.Sprint(pan))
				return
			}
		}
		for _, e := range s {
			man.EmitAll(e)
		}
		for i, r := range recs {
			got := cat.TraceOf(r.Trace())
			if !cat.SameTrace(got, want) {
				fail("live-subscriptions-interfere", fmt.Sprintf("%s: %d subscriptions alive together, each fed [%s]: subscription #%d got %s, alone it gives %s", name, c.N, rt.ScriptString(s), i, got, want))
				return
			}
		}
	case "concurrent":
		s := c.Scripts[0]
		want, _, blocked := expect(s)
		if blocked {
			return
		}
		src := rt.NewScript("src", rt.CtorUnsafeCtx, s)
		obs := op(src.Observable())
		recs := make([]*rt.Recorder[int], c.N)
		var wg sync.WaitGroup
		start := make(chan struct{})
		for i := range recs {
			recs[i] = rt.NewRecorder[int]()
			wg.Add(1)
			go func(r *rt.Recorder[int]) {
				defer wg.Done()
				defer func() { recover() }()
				<-start
				obs.Subscribe(r)
			}(recs[i])
		}
		close(start)
		wg.Wait()
		for i, r := range recs {
			got := cat.TraceOf(r.Trace())
			if !cat.SameTrace(got, want) {
				fail("concurrent-subscriptions-interfere", fmt.Sprintf("%s over [%s]: concurrent subscription #%d of %d got %s, alone it gives %s", name, rt.ScriptString(s), i, c.N, got, want))
				return
			}
		}
	}
}

type obsI = ro.Observable[int]

// every subscription of a reuse check brings a context of its own, marked with its
// number: a notification that carries the mark of ANOTHER subscription shows state
// kept at operator level (a missing mark is C09's business, not judged here)
type c12SubKey struct{}

func c12Ctx(i int) context.Context {
	return context.WithValue(context.Background(), c12SubKey{}, i+1)
}

func c12ForeignCtx(r *rt.Recorder[int], i int) string {
	for _, x := range r.Recs() {
		if x.Ctx == nil {
			continue
		}
		if v, ok := x.Ctx.Value(c12SubKey{}).(int); ok && v != i+1 {
			return fmt.Sprintf("%s arrived with the context of subscription #%d", x.String(), v)
		}
	}
	return ""
}

func c12Scripts() [][]rt.Ev {
	return [][]rt.Ev{
		{rt.C()},
		{rt.N(1), rt.C()},
		{rt.N(1), rt.N(2), rt.C()},
		{rt.N(2), rt.N(1), rt.N(3), rt.C()},
		{rt.N(1), rt.N(2), rt.N(2), rt.N(3), rt.N(1), rt.C()},
		{rt.N(1), rt.N(2), rt.E(1)},
		{rt.E(1)},
		{rt.N(3), rt.N(2), rt.N(1), rt.N(2), rt.C()},
	}
}

func TestC12_Enumerated(t *testing.T) {
	scripts := c12Scripts()
	idx := 0
	for _, row := range cat.Rows {
		for _, p := range row.Params {
			for vi, v := range row.Variants {
				idx++
				if !rt.Mine(idx) {
					continue
				}
				links := []cat.Link{{Op: row.Name, Variant: v, P: p}}
				for si, s := range scripts {
					if row.Diverges != nil && row.Diverges(p, scriptValues(s), scriptEnd(s)) {
						continue
					}
					c := c12Case{Mode: "resubscribe", Links: links, Scripts: [][]rt.Ev{s}, N: 3}
					c12Run(t, c)
					rt.Case(caseKey("resub", row.Name, v, p, s), row.Stateful || row.Resub, "resubscribe", func() any { return c })
					if vi == 0 && !row.Waits {
						c := c12Case{Mode: "interleaved", Links: links, Scripts: [][]rt.Ev{s}, N: 2}
						c12Run(t, c)
						rt.Case(caseKey("interleaved", row.Name, p, s), row.Stateful, "interleaved", func() any { return c })
					}
					if vi == 0 {
						// operator value applied to 2 and 3 sources, every subscription order
						s2 := scripts[(si+3)%len(scripts)]
						s3 := scripts[(si+5)%len(scripts)]
						if row.Diverges != nil && (row.Diverges(p, scriptValues(s2), scriptEnd(s2)) || row.Diverges(p, scriptValues(s3), scriptEnd(s3))) {
							continue
						}
						for _, ord := range [][]int{{0, 1}, {1, 0}, {0, 1, 0}} {
							c := c12Case{Mode: "apply-many", Links: links, Scripts: [][]rt.Ev{s, s2}, Order: ord}
							c12Run(t, c)
							rt.Case(caseKey("apply2", row.Name, p, s, s2, ord), true, "apply-many", func() any { return c })
						}
						for _, ord := range [][]int{{0, 1, 2}, {2, 1, 0}, {1, 2, 0}, {2, 0, 1}} {
							c := c12Case{Mode: "apply-many", Links: links, Scripts: [][]rt.Ev{s, s2, s3}, Order: ord}
							c12Run(t, c)
							rt.Case(caseKey("apply3", row.Name, p, s, s2, s3, ord), true, "apply-many", func() any { return c })
						}
					}
				}
			}
		}
	}
	rt.Note("enumerated_scope", fmt.Sprintf("every catalogue row x params x variant x %d scripts: 3 sequential subscriptions; operator value applied to 2 and 3 sources in 3+4 subscription orders", len(scripts)))
}

func TestC12_Random(t *testing.T) { rapid.Check(t, propC12Random) }

func propC12Random(t *rapid.T) {
	n := rapid.IntRange(1, 4).Draw(t, "chainLen")
	links := make([]cat.Link, n)
	for i := range links {
		links[i] = genLink(t, true)
	}
	if chainDiverges(links) {
		return
	}
	script := genScript(t, 8, 1, 4, []byte{'C', 'E'})
	mode := rapid.SampledFrom([]string{"resubscribe", "concurrent", "apply-many", "interleaved"}).Draw(t, "mode")
	c := c12Case{Mode: mode, Links: links, Scripts: [][]rt.Ev{script}, N: rapid.IntRange(2, 4).Draw(t, "n")}
	switch mode {
	case "concurrent":
		for _, l := range links {
			if l.Op == "DoWhile" || l.Op == "While" {
				return // their loop condition is a stateful closure owned by the harness
			}
		}
	case "interleaved":
		for _, l := range links {
			if cat.ByName(l.Op).Waits {
				return // rows that wait inside Subscribe cannot be driven by a manual source
			}
		}
	case "apply-many":
		c.Scripts = append(c.Scripts, genScript(t, 6, 1, 4, []byte{'C', 'E'}))
		c.Order = rapid.SliceOfN(rapid.IntRange(0, 1), 2, 4).Draw(t, "order")
	}
	c12Run(t, c)
	rt.Case(caseKey("rand", mode, fmt.Sprint(links), c.Scripts, c.N, c.Order), c12Stateful(links) || n >= 2, "random:"+mode, func() any { return c })
}
