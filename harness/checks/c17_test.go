package checks

import (
	"context"
	"encoding/json"
	"fmt"
	"reflect"
	"strings"
	"testing"
	"testing/synctest"
	"time"

	"github.com/samber/ro"
	"pgregory.net/rapid"
	"verifharness/cat"
	"verifharness/model"
	"verifharness/rt"
)

// C17 — bridges to slices, maps and channels are exact and close exactly once.

type c17Case struct {
	Op      string  `json:"op"` // ToChannel | FromChannel | ToSlice | ToMap | Collect | MaterializeRoundTrip
	Cap     int     `json:"capacity"`
	Script  []rt.Ev `json:"script"`
	Reads   int     `json:"reads"`             // ToChannel: the consumer stops reading after this many notifications (-1 = reads to the end)
	ReadGap int     `json:"read_gap_ms"`       // pause between reads
	UnsubAt int     `json:"unsubscribe_after"` // unsubscribe after this many reads / sends (-1 never)
	Async   bool    `json:"async_source"`
	Close   bool    `json:"producer_closes"` // FromChannel: close the channel at the end (false = abandon it)
	// CtxCancelled (ToChannel): subscribed with a context that is already cancelled.
	// Whatever the operator makes of that (the documentation is silent: at most a
	// cut), a reader of the channel is never left blocked once the stream has ended.
	CtxCancelled bool `json:"subscriber_context_already_cancelled,omitempty"`
}

func init() {
	replayers["bridge"] = func(t *testing.T, raw json.RawMessage) {
		var c c17Case
		if err := json.Unmarshal(raw, &c); err != nil {
			t.Fatal(err)
		}
		c17Run(t, t, c)
	}
}

func c17Run(tb rt.TB, t *testing.T, c c17Case) {
	var failure *rt.Failure
	fail := func(class, msg string) {
		if failure == nil {
			failure = &rt.Failure{Property: "C17", Check: "bridge", Op: c.Op, Class: class, Msg: msg, Case: c}
		}
	}
	desc := fmt.Sprintf("%s(cap=%d) script=[%s] reads=%d gap=%dms unsubAt=%d async=%v close=%v ctxCancelled=%v", c.Op, c.Cap, rt.ScriptString(c.Script), c.Reads, c.ReadGap, c.UnsubAt, c.Async, c.Close, c.CtxCancelled)
	problem := bubble(t, func() {
		sink := rt.NewSink()
		switch c.Op {
		case "ToChannel":
			man := rt.NewManual("src", rt.CtorUnsafeCtx)
			var src ro.Observable[int] = man.Observable()
			if !c.Async {
				src = rt.NewScript("src", rt.CtorUnsafeCtx, c.Script).Observable()
			}
			var handed []<-chan ro.Notification[int]
			outerTerm := 0
			obs := ro.NewObserver(func(ch <-chan ro.Notification[int]) { handed = append(handed, ch) }, func(error) { outerTerm++ }, func() { outerTerm++ })
			sctx, scancel := context.WithCancel(context.Background())
			defer scancel()
			if c.CtxCancelled {
				scancel()
			}
			sub := ro.ToChannel[int](c.Cap)(src).SubscribeWithContext(sctx, obs)
			synctest.Wait()
			if len(handed) != 1 {
				fail("channel-not-handed-out-exactly-once", fmt.Sprintf("%s: %d channels handed out at subscription", desc, len(handed)))
				return
			}
			ch := handed[0]
			time.Sleep(2 * time.Millisecond) // the source is subscribed 1 ms after the hand-out
			synctest.Wait()
			// producer (asynchronous source): its own goroutine, may block on a full channel
			producerPanic := make(chan any, 1)
			producerDone := make(chan struct{})
			go func() {
				defer close(producerDone)
				defer func() {
					if r := recover(); r != nil {
						producerPanic <- r
					}
				}()
				if c.Async {
					for _, e := range c.Script {
						man.Emit(e)
					}
				}
			}()
			var got []model.Notif
			closed := false
			reads := 0
			for c.Reads < 0 || reads < c.Reads {
				if c.UnsubAt >= 0 && reads == c.UnsubAt {
					sub.Unsubscribe()
				}
				if c.ReadGap > 0 {
					time.Sleep(ms(c.ReadGap))
				}
				synctest.Wait()
				select {
				case n, ok := <-ch:
					if !ok {
						closed = true
					} else {
						got = append(got, cat.Norm(n).(model.Notif))
						reads++
						continue
					}
				default:
					// nothing available at quiescence: the producer has nothing more (or is cut)
				}
				break
			}
			if c.UnsubAt >= 0 && reads <= c.UnsubAt {
				sub.Unsubscribe()
			}
			if c.Reads >= 0 && reads >= c.Reads {
				// the consumer walks away: unsubscribe so that a producer blocked on the full channel is released
				sub.Unsubscribe()
			}
			synctest.Wait()
			time.Sleep(5 * time.Millisecond)
			synctest.Wait()
			// drain what is left: the channel must be closed now if the stream ended or was unsubscribed
			for {
				select {
				case n, ok := <-ch:
					if ok {
						got = append(got, cat.Norm(n).(model.Notif))
						continue
					}
					closed = true
				default:
				}
				break
			}
			select {
			case p := <-producerPanic:
				fail("panic-escaped-into-producer", fmt.Sprintf("%s: the producer's call panicked: %v", desc, p))
				return
			default:
			}
			select {
			case <-producerDone:
			default:
				fail("producer-still-blocked", desc+": the producer goroutine is still blocked after unsubscription / termination")
				return
			}
			// expected materialised sequence (up to the first terminal)
			var want []model.Notif
			for _, e := range c.Script {
				switch e.K {
				case 'N':
					want = append(want, model.Notif{K: 'N', V: e.V})
				case 'E':
					want = append(want, model.Notif{K: 'E', E: fmt.Sprintf("e%d", e.V)})
				case 'C':
					want = append(want, model.Notif{K: 'C'})
				}
				if e.K != 'N' {
					break
				}
			}
			for i, e := range want {
				if e.K != 'N' {
					want = want[:i+1]
					break
				}
			}
			cutByUs := c.UnsubAt >= 0 || (c.Reads >= 0)
			if len(got) > len(want) || (len(got) > 0 && !reflect.DeepEqual(got, want[:len(got)])) {
				fail("channel-sequence-differs", fmt.Sprintf("%s: the channel carried %v, the materialised stream is %v", desc, got, want))
				return
			}
			if !cutByUs && !c.CtxCancelled && len(got) != len(want) {
				fail("channel-sequence-truncated", fmt.Sprintf("%s: the channel carried %v, the materialised stream is %v", desc, got, want))
				return
			}
			terminated := len(want) > 0 && want[len(want)-1].K != 'N'
			if (terminated || cutByUs) && !closed {
				fail("channel-not-closed", fmt.Sprintf("%s: the channel is still open after %s", desc, map[bool]string{true: "unsubscription", false: "the terminal notification"}[cutByUs]))
				return
			}
			for _, e := range sink.UnhandledErrs() {
				_ = e // a send that loses the race with close is recovered by the library and may surface here: counted, not judged
				rt.Class("tochannel-unhandled-error", 1)
			}
		case "FromChannel":
			in := make(chan int, c.Cap)
			rec := rt.NewRecorder[int]()
			sub := ro.FromChannel[int](in).Subscribe(rec)
			synctest.Wait()
			sent := 0
			var sentAfterUnsub int
			unsubbed := false
			vals := 0
			for _, e := range c.Script {
				if e.K != 'N' {
					break
				}
				vals++
			}
			for i := 0; i < vals; i++ {
				if c.UnsubAt >= 0 && i == c.UnsubAt {
					sub.Unsubscribe()
					unsubbed = true
					synctest.Wait()
				}
				select {
				case in <- c.Script[i].V:
					sent++
					if unsubbed {
						sentAfterUnsub++
					}
				default:
					// nobody reads and the buffer is full
				}
				synctest.Wait()
			}
			if c.UnsubAt >= 0 && !unsubbed {
				sub.Unsubscribe()
				unsubbed = true
			}
			if c.Close {
				close(in)
			}
			synctest.Wait()
			tr := rec.Trace()
			if unsubbed {
				// stops reading when unsubscribed: nothing sent after Unsubscribe returned may be delivered
				for _, v := range tr.Vals {
					idx := v.(int)
					_ = idx
				}
				if len(tr.Vals) > sent-sentAfterUnsub {
					fail("delivery-after-unsubscribe", fmt.Sprintf("%s: %d values delivered, only %d were sent before Unsubscribe", desc, len(tr.Vals), sent-sentAfterUnsub))
					return
				}
				// ... and must leave them in the channel
				if sentAfterUnsub > 0 && len(in) < sentAfterUnsub && !c.Close {
					fail("reads-after-unsubscribe", fmt.Sprintf("%s: %d values were sent after Unsubscribe returned, only %d are still in the channel", desc, sentAfterUnsub, len(in)))
					return
				}
			} else {
				var want []any
				for i := 0; i < sent; i++ {
					want = append(want, c.Script[i].V)
				}
				if !(len(tr.Vals) == 0 && len(want) == 0) && !reflect.DeepEqual(tr.Vals, want) {
					fail("values-differ", fmt.Sprintf("%s: delivered %v, sent %v", desc, tr.Vals, want))
					return
				}
				if c.Close && tr.End != 'C' {
					fail("no-completion-after-close", fmt.Sprintf("%s: the channel was closed, the observer saw %s", desc, cat.TraceOf(tr)))
					return
				}
				if !c.Close && tr.End != 0 {
					fail("terminal-without-close", fmt.Sprintf("%s: the channel is still open, the observer saw %s", desc, cat.TraceOf(tr)))
					return
				}
				if !c.Close {
					sub.Unsubscribe() // the producer abandons the channel: release the reader
				}
			}
			if g := rec.Grammar(); g != "" {
				fail("grammar", g)
			}
			// the reader goroutine must be gone now: a leftover is reported when the bubble ends
		}
	})
	if problem != "" && failure == nil {
		class := "panic-in-bubble"
		if strings.Contains(problem, "deadlock") {
			class = "goroutine-left-blocked"
		}
		if strings.HasPrefix(problem, "stalled") {
			class = "stalled"
		}
		fail(class, fmt.Sprintf("%s: %s", desc, problem))
	}
	if failure != nil {
		rt.Report(tb, *failure)
	}
}

// ---- exactness of the synchronous bridges -----------------------------------------------------------

func c17RunExact(t rt.TB, script []rt.Ev) {
	fail := func(op, class, msg string) {
		rt.Report(t, rt.Failure{Property: "C17", Check: "bridge-exact", Op: op, Class: class, Msg: msg, Case: map[string]any{"script": script}})
	}
	src := func() ro.Observable[int] { return rt.NewScript("src", rt.CtorUnsafeCtx, script).Observable() }
	var vals []int
	for _, e := range script {
		if e.K != 'N' {
			break
		}
		vals = append(vals, e.V)
	}
	end := scriptEnd(script)
	// ToSlice: exactly the delivered values, once, at completion
	{
		rec := rt.NewRecorder[[]int]()
		ro.ToSlice[int]()(src()).Subscribe(rec)
		tr := rec.Trace()
		switch end {
		case 'C':
			if len(tr.Vals) != 1 || !reflect.DeepEqual(append([]int{}, tr.Vals[0].([]int)...), append([]int{}, vals...)) || tr.End != 'C' {
				fail("ToSlice", "slice-differs", fmt.Sprintf("ToSlice over [%s]: %s", rt.ScriptString(script), cat.TraceOf(tr)))
			}
		default:
			if len(tr.Vals) != 0 || tr.End != end {
				fail("ToSlice", "emits-before-completion", fmt.Sprintf("ToSlice over [%s]: %s", rt.ScriptString(script), cat.TraceOf(tr)))
			}
		}
	}
	// ToMap: last write wins per key
	{
		rec := rt.NewRecorder[map[int]int]()
		ro.ToMap(func(x int) (int, int) { return x % 3, x })(src()).Subscribe(rec)
		tr := rec.Trace()
		want := map[int]int{}
		for _, v := range vals {
			want[v%3] = v
		}
		switch end {
		case 'C':
			if len(tr.Vals) != 1 || !reflect.DeepEqual(tr.Vals[0].(map[int]int), want) || tr.End != 'C' {
				fail("ToMap", "map-differs", fmt.Sprintf("ToMap over [%s]: %s, want %v", rt.ScriptString(script), cat.TraceOf(tr), want))
			}
		default:
			if len(tr.Vals) != 0 || tr.End != end {
				fail("ToMap", "emits-before-completion", fmt.Sprintf("ToMap over [%s]: %s", rt.ScriptString(script), cat.TraceOf(tr)))
			}
		}
	}
	// ToMap / ToSlice on a second subscription whose source delivers something else:
	// precisely the delivered values of THAT subscription; the first result is not rewritten
	if end == 'C' {
		n := 0
		other := []int{7, 8}
		obs := ro.ToMap(func(x int) (int, int) { return x % 3, x })(ro.Defer(func() ro.Observable[int] {
			n++
			if n == 1 {
				return ro.Just(other...)
			}
			return src()
		}))
		r1, r2 := rt.NewRecorder[map[int]int](), rt.NewRecorder[map[int]int]()
		obs.Subscribe(r1)
		obs.Subscribe(r2)
		want := map[int]int{}
		for _, v := range vals {
			want[v%3] = v
		}
		if tr := r2.Trace(); len(tr.Vals) != 1 || !reflect.DeepEqual(tr.Vals[0].(map[int]int), want) {
			fail("ToMap", "map-differs-on-second-subscription", fmt.Sprintf("ToMap: second subscription over [%s] (the first one saw %v): %s, want %v", rt.ScriptString(script), other, cat.TraceOf(r2.Trace()), want))
		}
		if m := r1.Mutated(); m != "" {
			fail("ToMap", "delivered-map-rewritten", m)
		}
	}
	// Collect (terminating scripts only)
	if end != 0 {
		got, err := ro.Collect(src())
		if !(len(got) == 0 && len(vals) == 0) && !reflect.DeepEqual(got, vals) || (end == 'E') != (err != nil) {
			fail("Collect", "collect-differs", fmt.Sprintf("Collect over [%s]: %v, %v", rt.ScriptString(script), got, err))
		}
	}
	// Materialize then Dematerialize is the identity, whatever the producer does after its terminal
	{
		rec, ref := rt.NewRecorder[int](), rt.NewRecorder[int]()
		ro.Dematerialize[int]()(ro.Materialize[int]()(src())).Subscribe(rec)
		src().Subscribe(ref)
		if !cat.SameTrace(cat.TraceOf(rec.Trace()), cat.TraceOf(ref.Trace())) || rec.Grammar() != "" {
			fail("Materialize|Dematerialize", "round-trip-not-identity", fmt.Sprintf("over [%s]: %s vs %s", rt.ScriptString(script), cat.TraceOf(rec.Trace()), cat.TraceOf(ref.Trace())))
		}
	}
	// ... including a stream that ends with an error notification whose error value is
	// nil (the library accepts Error(nil): the subscriber ends errored)
	if end == 'E' {
		nilErr := func() ro.Observable[int] {
			return ro.NewUnsafeObservable(func(d ro.Observer[int]) ro.Teardown {
				for _, v := range vals {
					d.Next(v)
				}
				d.Error(nil)
				return nil
			})
		}
		rec, ref := rt.NewRecorder[int](), rt.NewRecorder[int]()
		var pan any
		func() {
			defer func() { pan = recover() }()
			ro.Dematerialize[int]()(ro.Materialize[int]()(nilErr())).Subscribe(rec)
			nilErr().Subscribe(ref)
		}()
		a, b := rec.Trace(), ref.Trace()
		if pan != nil || a.End != b.End || (a.Err == nil) != (b.Err == nil) || !(len(a.Vals) == 0 && len(b.Vals) == 0 || reflect.DeepEqual(a.Vals, b.Vals)) {
			fail("Materialize|Dematerialize", "round-trip-not-identity", fmt.Sprintf("over %v then Error(nil): the round trip delivered %v ending %q (err %v, panic %v), a direct subscription %v ending %q (err %v)", vals, a.Vals, a.End, a.Err, pan, b.Vals, b.End, b.Err))
		}
	}
}

func TestC17_ExactBridges(t *testing.T) {
	maxLen := 4
	if rt.Thorough() {
		maxLen = 5
	}
	for i, w := range allWords(maxLen) {
		if !rt.Mine(i) {
			continue
		}
		c17RunExact(t, w)
		rt.Case(caseKey("exact", w), scriptEnd(w) != 0, "exact", func() any { return map[string]any{"script": w} })
	}
	rapid.Check(t, func(t *rapid.T) {
		s := genScript(t, 30, -5, 9, []byte{'C', 'E', 0})
		c17RunExact(t, s)
		rt.Case(caseKey("exactrand", s), scriptEnd(s) != 0, "exact-random", func() any { return map[string]any{"script": s} })
	})
}

func c17NonTrivial(c c17Case) bool {
	return c.UnsubAt >= 0 || c.Reads >= 0 || c.ReadGap > 0 || c.Cap < scriptValues(c.Script) || scriptEnd(c.Script) == 'E'
}

func TestC17_ChannelsEnumerated(t *testing.T) {
	scripts := legalScripts([]int{1, 2}, 3, []byte{'C', 'E', 0})
	idx := 0
	run := func(c c17Case) {
		idx++
		if !rt.Mine(idx) {
			return
		}
		c17Run(t, t, c)
		rt.Case(caseKey("bridge", fmt.Sprint(c)), c17NonTrivial(c), "bridge:"+c.Op, func() any { return c })
	}
	for _, s := range scripts {
		n := len(s)
		for cp := 0; cp <= 3; cp++ {
			for _, async := range []bool{false, true} {
				if !async && scriptValues(s)+1 > cp {
					// a synchronous source blocked on a full channel holds the library goroutine until the consumer reads: fine, but needs a reader
				}
				run(c17Case{Op: "ToChannel", Cap: cp, Script: s, Reads: -1, UnsubAt: -1, Async: async})
				run(c17Case{Op: "ToChannel", Cap: cp, Script: s, Reads: -1, UnsubAt: -1, Async: async, CtxCancelled: true})
				run(c17Case{Op: "ToChannel", Cap: cp, Script: s, Reads: -1, ReadGap: 2, UnsubAt: -1, Async: async})
				for k := 0; k <= n; k++ {
					run(c17Case{Op: "ToChannel", Cap: cp, Script: s, Reads: -1, UnsubAt: k, Async: async})
					run(c17Case{Op: "ToChannel", Cap: cp, Script: s, Reads: k, UnsubAt: -1, Async: async})
				}
			}
			for _, cl := range []bool{true, false} {
				run(c17Case{Op: "FromChannel", Cap: cp, Script: s, UnsubAt: -1, Close: cl})
				for k := 0; k <= scriptValues(s); k++ {
					run(c17Case{Op: "FromChannel", Cap: cp, Script: s, UnsubAt: k, Close: cl})
				}
			}
		}
	}
	rt.Note("enumerated_scope", "ToChannel and FromChannel x capacity 0..3 x every script of <= 3 values with each ending x {consumer reads to the end, reads with pauses, stops after k reads, Unsubscribe after k reads / sends, producer closes or abandons the channel} x synchronous and asynchronous sources; virtual time")
}
