package checks

import (
	"context"
	"encoding/json"
	"fmt"
	"math"
	"testing"

	"github.com/samber/ro"
	"verifharness/rt"
)

// C09 for the float operators of the math group (Round, Abs, Floor, Ceil, Trunc,
// FloorWithPrecision, CeilWithPrecision): they are one-in one-out, so the k-th
// output must arrive with the context of the k-th input - the subscription's mark,
// the mark attached mid-pipeline and the item's own mark - for every kind of
// float64 (finite, zero, subnormal, the largest, NaN, the infinities) and every
// precision, including those beyond the float64 exponent range where the
// implementation takes separate paths.

type c09Float struct {
	Op     string    `json:"op"`
	Places int       `json:"places"`
	Vals   []float64 `json:"-"`
	Show   []string  `json:"values"`
	End    string    `json:"end"`
}

type c09fKey string

func init() {
	replayers["float-operators"] = func(t *testing.T, raw json.RawMessage) {
		var c c09Float
		if err := json.Unmarshal(raw, &c); err != nil {
			t.Fatal(err)
		}
		c.Vals = nil
		for _, s := range c.Show {
			var f float64
			switch s {
			case "NaN":
				f = math.NaN()
			case "+Inf":
				f = math.Inf(1)
			case "-Inf":
				f = math.Inf(-1)
			default:
				fmt.Sscan(s, &f)
			}
			c.Vals = append(c.Vals, f)
		}
		c09FloatRun(t, c)
	}
}

func c09FloatRun(t rt.TB, c c09Float) {
	fail := func(class, msg string) {
		rt.Report(t, rt.Failure{Property: "C09", Check: "float-operators", Op: c.Op, Class: class, Msg: msg, Case: c})
	}
	var op func(ro.Observable[float64]) ro.Observable[float64]
	switch c.Op {
	case "Round":
		op = ro.Round()
	case "Abs":
		op = ro.Abs()
	case "Floor":
		op = ro.Floor()
	case "Ceil":
		op = ro.Ceil()
	case "Trunc":
		op = ro.Trunc()
	case "FloorWithPrecision":
		op = ro.FloorWithPrecision(c.Places)
	case "CeilWithPrecision":
		op = ro.CeilWithPrecision(c.Places)
	}
	src := ro.NewUnsafeObservableWithContext(func(ctx context.Context, d ro.Observer[float64]) ro.Teardown {
		for i, v := range c.Vals {
			d.NextWithContext(context.WithValue(ctx, c09fKey("item"), i), v)
		}
		if c.End == "E" {
			d.ErrorWithContext(context.WithValue(ctx, c09fKey("end"), true), rt.Err(1))
		} else {
			d.CompleteWithContext(context.WithValue(ctx, c09fKey("end"), true))
		}
		return nil
	})
	type seen struct {
		k   byte
		ctx context.Context
	}
	var got []seen
	obs := ro.NewObserverWithContext(
		func(ctx context.Context, _ float64) { got = append(got, seen{'N', ctx}) },
		func(ctx context.Context, _ error) { got = append(got, seen{'E', ctx}) },
		func(ctx context.Context) { got = append(got, seen{'C', ctx}) },
	)
	var pan any
	func() {
		defer func() { pan = recover() }()
		pipe := op(ro.ContextWithValue[float64](c09fKey("mid"), "m")(src))
		pipe.SubscribeWithContext(context.WithValue(context.Background(), c09fKey("sub"), "s"), obs)
	}()
	desc := fmt.Sprintf("%s(places=%d) over %v ending %s", c.Op, c.Places, c.Show, c.End)
	if pan != nil {
		fail("panic-escaped", fmt.Sprintf("%s: %v", desc, pan))
		return
	}
	if len(got) != len(c.Vals)+1 {
		return // not one-in one-out here: C04's business (TestC04_MathRounding)
	}
	for k, g := range got {
		what := fmt.Sprintf("the terminal notification")
		if k < len(c.Vals) {
			what = fmt.Sprintf("output #%d (input %s)", k, c.Show[k])
		}
		if g.ctx == nil {
			fail("nil-context", fmt.Sprintf("%s: %s arrived with a nil context", desc, what))
			return
		}
		if g.ctx.Value(c09fKey("sub")) != "s" {
			fail("subscription-context-lost", fmt.Sprintf("%s: %s arrived without the value attached at subscription", desc, what))
			return
		}
		if g.ctx.Value(c09fKey("mid")) != "m" {
			fail("mid-pipeline-value-lost", fmt.Sprintf("%s: %s arrived without the value attached by ContextWithValue upstream", desc, what))
			return
		}
		if k < len(c.Vals) {
			if g.ctx.Value(c09fKey("item")) != k {
				fail("item-context-lost", fmt.Sprintf("%s: %s arrived with item mark %v", desc, what, g.ctx.Value(c09fKey("item"))))
				return
			}
		} else if g.ctx.Value(c09fKey("end")) != true {
			fail("terminal-context-lost", fmt.Sprintf("%s: %s arrived without the mark its emission carried", desc, what))
			return
		}
	}
}

func TestC09_FloatOperators(t *testing.T) {
	vals := []float64{1.5, -2.25, 0, math.Copysign(0, -1), 123456.789, math.MaxFloat64, -math.MaxFloat64, math.SmallestNonzeroFloat64, 1e-300, math.NaN(), math.Inf(1), math.Inf(-1)}
	show := make([]string, len(vals))
	for i, v := range vals {
		show[i] = fmt.Sprint(v)
	}
	places := []int{-1000, -400, -324, -309, -308, -15, -2, -1, 0, 1, 2, 15, 16, 22, 23, 300, 308, 309, 324, 400, 1000}
	idx := 0
	run := func(c c09Float) {
		idx++
		if !rt.Mine(idx) {
			return
		}
		c09FloatRun(t, c)
		rt.Case(caseKey("c09float", c.Op, c.Places, c.Show, c.End), true, "float-operators:"+c.Op, func() any { return c })
	}
	for _, end := range []string{"C", "E"} {
		for _, op := range []string{"Round", "Abs", "Floor", "Ceil", "Trunc"} {
			run(c09Float{Op: op, Vals: vals, Show: show, End: end})
		}
		for _, op := range []string{"FloorWithPrecision", "CeilWithPrecision"} {
			for _, p := range places {
				run(c09Float{Op: op, Places: p, Vals: vals, Show: show, End: end})
				// and each value alone (a path taken for one kind of value only must not depend on its neighbours)
				for i := range vals {
					run(c09Float{Op: op, Places: p, Vals: vals[i : i+1], Show: show[i : i+1], End: end})
				}
			}
		}
	}
}
