package checks

import (
	"testing"

	"pgregory.net/rapid"
)

// Native fuzz targets (thorough tier of C18): the rapid properties of c18_test.go
// driven by Go's coverage-guided fuzzer - the byte string is rapid's source of
// randomness, so whatever the fuzzer finds is a generated case of the same
// generators, judged by the same oracles, and the saved input under
// testdata/fuzz/<target>/ replays it (also in the quick tier, which runs these
// functions over their saved corpus).

func FuzzC18_Strconv(f *testing.F)     { f.Fuzz(rapid.MakeFuzz(propC18Strconv)) }
func FuzzC18_Regexp(f *testing.F)      { f.Fuzz(rapid.MakeFuzz(propC18Regexp)) }
func FuzzC18_TextHelpers(f *testing.F) { f.Fuzz(rapid.MakeFuzz(propC18TextHelpers)) }
func FuzzC18_TimeTemplateEncodings(f *testing.F) {
	f.Fuzz(rapid.MakeFuzz(propC18TimeTemplateEncodings))
}
func FuzzC18_Sort(f *testing.F)  { f.Fuzz(rapid.MakeFuzz(propC18Sort)) }
func FuzzC18_Stdio(f *testing.F) { f.Fuzz(rapid.MakeFuzz(propC18Stdio)) }
func FuzzC18_TextRandom(f *testing.F) { f.Fuzz(rapid.MakeFuzz(propC18TextRandom)) }
