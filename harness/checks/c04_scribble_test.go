package checks

import (
	"encoding/json"
	"fmt"
	"reflect"
	"testing"
	"time"

	"github.com/samber/ro"
	"verifharness/cat"
	"verifharness/model"
	"verifharness/rt"
)

// C04, "no value is ... modified after it has been delivered", seen from the other
// side: a delivered slice or map belongs to the consumer. Whatever the consumer does
// with it (sort it in place, clear it, reuse it) must not change what the operator
// delivers next. Metamorphic: the same operator over the same script with a passive
// consumer and with one that scribbles over everything it receives delivers the
// same sequence (compared through snapshots taken at the moment of delivery).

type c04Scribble struct {
	Op     string  `json:"op"`
	Script []rt.Ev `json:"script"`
}

func init() {
	replayers["consumer-scribbles"] = func(t *testing.T, raw json.RawMessage) {
		var c c04Scribble
		if err := json.Unmarshal(raw, &c); err != nil {
			t.Fatal(err)
		}
		c04ScribbleRun(t, c)
	}
}

var c04ScribbleOps = map[string]func(ro.Observable[int]) ro.Observable[any]{
	"Pairwise":           func(s ro.Observable[int]) ro.Observable[any] { return anyObs(ro.Pairwise[int]()(s)) },
	"BufferWithCount(2)": func(s ro.Observable[int]) ro.Observable[any] { return anyObs(ro.BufferWithCount[int](2)(s)) },
	"BufferWithCount(3)": func(s ro.Observable[int]) ro.Observable[any] { return anyObs(ro.BufferWithCount[int](3)(s)) },
	"ToSlice":            func(s ro.Observable[int]) ro.Observable[any] { return anyObs(ro.ToSlice[int]()(s)) },
	"ToMap": func(s ro.Observable[int]) ro.Observable[any] {
		return anyObs(ro.ToMap(func(x int) (int, int) { return x % 3, x })(s))
	},
	"CombineLatestAll": func(s ro.Observable[int]) ro.Observable[any] {
		return anyObs(ro.CombineLatestAll[int]()(ro.Just(ro.Just(7), s)))
	},
	"ZipAll": func(s ro.Observable[int]) ro.Observable[any] {
		return anyObs(ro.ZipAll[int]()(ro.Just(s, ro.Just(7, 8, 9, 10, 11))))
	},
	"BufferWhen(never)": func(s ro.Observable[int]) ro.Observable[any] {
		return anyObs(ro.BufferWhen[int, struct{}](ro.Never())(s))
	},
	// buffers cut by a boundary that fires after every second value (source and
	// boundary driven from one goroutine: a flush happens while the buffer has spare capacity)
	"BufferWhen(every 2)": func(s ro.Observable[int]) ro.Observable[any] {
		b := ro.NewPublishSubject[int]()
		n := 0
		ticking := ro.Tap(func(int) {
			n++
			if n%2 == 0 {
				defer b.Next(0)
			}
		}, func(error) {}, func() {})(s)
		return anyObs(ro.BufferWhen[int, int](b)(ticking))
	},
	"BufferWithTimeOrCount(3)": func(s ro.Observable[int]) ro.Observable[any] {
		return anyObs(ro.BufferWithTimeOrCount[int](3, time.Hour)(s))
	},
	"Pairwise>Pairwise": func(s ro.Observable[int]) ro.Observable[any] {
		return anyObs(ro.Pairwise[[]int]()(ro.Pairwise[int]()(s)))
	},
	"BufferWithCount>Map": func(s ro.Observable[int]) ro.Observable[any] {
		return anyObs(ro.Map(func(b []int) []int { return b })(ro.BufferWithCount[int](2)(s)))
	},
}

// appended collects the spare capacity the consumer has written to (checked after the run).
var appended [][]int

func scribble(v any) {
	rv := reflect.ValueOf(v)
	switch rv.Kind() {
	case reflect.Slice:
		// ... and use the spare capacity: a consumer may append to a slice it was given
		if rv.Cap() > rv.Len() && rv.Type().Elem().Kind() == reflect.Int {
			ext := rv.Slice(rv.Len(), rv.Cap()).Interface().([]int)
			for i := range ext {
				ext[i] = -77
			}
			appended = append(appended, ext) // this memory now belongs to the consumer
		}
		for i := 0; i < rv.Len(); i++ {
			// the container only: its elements may be values the operator was handed and
			// legitimately passes on more than once (Pairwise over slices)
			e := rv.Index(i)
			if e.CanSet() {
				e.Set(reflect.Zero(e.Type()))
			}
		}
	case reflect.Map:
		for _, k := range rv.MapKeys() {
			rv.SetMapIndex(k, reflect.Value{})
		}
	}
}

func c04ScribbleRun(t rt.TB, c c04Scribble) {
	build := c04ScribbleOps[c.Op]
	run := func(scrib bool) (model.Trace, any) {
		rt.NewSink()
		rec := rt.NewRecorder[any]()
		if scrib {
			rec.Hook = func(k byte, _ ctxT, v any, err error) {
				if k == 'N' {
					scribble(v)
				}
			}
		}
		var pan any
		func() {
			defer func() { pan = recover() }()
			build(rt.NewScript("src", rt.CtorUnsafeCtx, c.Script).Observable()).Subscribe(rec)
		}()
		return cat.TraceOf(rec.Trace()), pan
	}
	passive, p1 := run(false)
	appended = nil
	active, p2 := run(true)
	for _, ext := range appended {
		for _, x := range ext {
			if x != -77 {
				rt.Report(t, rt.Failure{Property: "C04", Check: "consumer-scribbles", Op: c.Op, Class: "operator-writes-into-memory-it-handed-out", Msg: fmt.Sprintf("%s over [%s]: the consumer appended to a slice it had been given; the operator later wrote %d into that memory (delivered slices share a backing array with the operator's live buffer)", c.Op, rt.ScriptString(c.Script), x), Case: c})
				return
			}
		}
	}
	if p1 != nil || p2 != nil {
		rt.Report(t, rt.Failure{Property: "C04", Check: "consumer-scribbles", Op: c.Op, Class: "panic-escaped", Msg: fmt.Sprintf("%s over [%s]: %v / %v", c.Op, rt.ScriptString(c.Script), p1, p2), Case: c})
		return
	}
	if !cat.SameTrace(passive, active) {
		rt.Report(t, rt.Failure{Property: "C04", Check: "consumer-scribbles", Op: c.Op, Class: "output-depends-on-what-the-consumer-does-with-delivered-values", Msg: fmt.Sprintf("%s over [%s]: a consumer that clears every slice/map it receives is delivered %s, a passive one %s", c.Op, rt.ScriptString(c.Script), active, passive), Case: c})
	}
}

func TestC04_ConsumerMayScribble(t *testing.T) {
	maxLen := 5
	if rt.Thorough() {
		maxLen = 7
	}
	idx := 0
	for op := range c04ScribbleOps {
		for n := 0; n <= maxLen; n++ {
			for _, end := range []byte{'C', 'E'} {
				idx++
				c := c04Scribble{Op: op, Script: seqScript(n, end)}
				c04ScribbleRun(t, c)
				rt.Case(caseKey("scribble", op, n, end), n >= 3, "scribble:"+op, func() any { return c })
			}
		}
	}
}
