package checks

import (
	"context"
	"encoding/json"
	"fmt"
	"sync"
	"testing"
	"time"

	"github.com/samber/ro"
	"pgregory.net/rapid"
	"verifharness/cat"
	"verifharness/rt"
)

// C01 — values, then at most one terminal, then silence.

type c01Case struct {
	Kind    string      `json:"kind"` // bare | row | subject | concurrent | concurrent-subject
	Ctor    rt.Ctor     `json:"ctor,omitempty"`
	Op      string      `json:"op,omitempty"`
	Variant string      `json:"variant,omitempty"`
	P       []int       `json:"params,omitempty"`
	Subject subjectKind `json:"subject,omitempty"`
	Word    []rt.Ev     `json:"word,omitempty"`
	Words   [][]rt.Ev   `json:"words,omitempty"` // one per producer goroutine
	SubAt   []int       `json:"subscribe_at,omitempty"`
	Raw     bool        `json:"raw_observer"`
	// PanicAtEnd (bare): the subscribe function panics after having played the word
	PanicAtEnd bool `json:"subscribe_function_panics_at_end,omitempty"`
}

func init() {
	replayers["grammar"] = func(t *testing.T, raw json.RawMessage) {
		var c c01Case
		if err := json.Unmarshal(raw, &c); err != nil {
			t.Fatal(err)
		}
		c01Run(t, c)
	}
}

func c01Fail(t rt.TB, c c01Case, op, class, msg string) {
	rt.Report(t, rt.Failure{Property: "C01", Check: "grammar", Op: op, Class: class, Msg: msg, Case: c})
}

// observerOf returns either the raw recorder or the recorder behind ro's own
// callback observer.
func observerOf(rec *rt.Recorder[int], raw bool) ro.Observer[int] {
	if raw {
		return rec
	}
	return ro.NewObserverWithContext(rec.NextWithContext, rec.ErrorWithContext, rec.CompleteWithContext)
}

func c01Run(t rt.TB, c c01Case) {
	switch c.Kind {
	case "bare":
		sink := rt.NewSink()
		src := rt.NewScript("src", c.Ctor, c.Word)
		src.PanicAtEnd = c.PanicAtEnd
		rec := rt.NewRecorder[int]()
		var pan any
		func() {
			defer func() { pan = recover() }()
			src.Observable().Subscribe(observerOf(rec, c.Raw))
		}()
		if pan != nil {
			c01Fail(t, c, string(c.Ctor), "panic-escaped", fmt.Sprintf("%s over [%s] then a panic of the subscribe function: Subscribe panicked: %v", c.Ctor, rt.ScriptString(c.Word), pan))
			return
		}
		if g := rec.Grammar(); g != "" {
			c01Fail(t, c, string(c.Ctor), "delivery-after-terminal", fmt.Sprintf("%s over [%s] (subscribe function panics at the end: %v): %s", c.Ctor, rt.ScriptString(c.Word), c.PanicAtEnd, g))
		}
		if c.PanicAtEnd {
			// the recovered panic is one more Error: delivered if the stream was still open
			if lateCount(c.Word) == 0 && scriptEnd(c.Word) == 0 {
				if tr := rec.Trace(); tr.End != 'E' {
					c01Fail(t, c, string(c.Ctor), "subscribe-panic-not-delivered", fmt.Sprintf("%s over [%s] then a panic of the subscribe function: ending %q", c.Ctor, rt.ScriptString(c.Word), tr.End))
				}
			}
			return
		}
		if d := rec.Len() + sink.DroppedCount(); d != len(c.Word) {
			c01Fail(t, c, string(c.Ctor), "late-notification-not-surfaced", fmt.Sprintf("%s over [%s]: delivered %d + dropped-hook %d != emitted %d", c.Ctor, rt.ScriptString(c.Word), rec.Len(), sink.DroppedCount(), len(c.Word)))
		}
		if late := lateCount(c.Word); late > 0 && sink.DroppedCount() < late {
			c01Fail(t, c, string(c.Ctor), "late-notification-not-surfaced", fmt.Sprintf("%d late notifications, %d reported", late, sink.DroppedCount()))
		}
	case "row":
		row := cat.ByName(c.Op)
		res := runRow(row, c.Variant, c.P, c.Word, c.Ctor, nil)
		if res.panic != nil {
			c01Fail(t, c, c.Op, "panic-escaped", fmt.Sprint(res.panic))
			return
		}
		if g := res.rec.Grammar(); g != "" {
			c01Fail(t, c, c.Op, "delivery-after-terminal", fmt.Sprintf("%s%s%v over [%s]: %s", c.Op, c.Variant, c.P, rt.ScriptString(c.Word), g))
		}
	case "subject":
		sink := rt.NewSink()
		s := c.Subject.New()
		recs := []*rt.Recorder[int]{}
		sub := func() {
			r := rt.NewRecorder[int]()
			recs = append(recs, r)
			s.Subscribe(observerOf(r, c.Raw))
		}
		for i := 0; i <= len(c.Word); i++ {
			for _, at := range c.SubAt {
				if at == i {
					sub()
				}
			}
			if i < len(c.Word) {
				switch e := c.Word[i]; e.K {
				case 'N':
					s.Next(e.V)
				case 'E':
					s.Error(rt.Err(e.V))
				case 'C':
					s.Complete()
				}
			}
		}
		for i, r := range recs {
			if g := r.Grammar(); g != "" {
				c01Fail(t, c, c.Subject.String(), "delivery-after-terminal", fmt.Sprintf("%s driven by [%s], subscriber #%d (subscribed at %v): %s; saw %v", c.Subject, rt.ScriptString(c.Word), i, c.SubAt, g, r.Recs()))
			}
		}
		if late := lateCount(c.Word); sink.DroppedCount() < late {
			c01Fail(t, c, c.Subject.String(), "late-notification-not-surfaced", fmt.Sprintf("%s driven by [%s]: %d late notifications, dropped hook saw %d", c.Subject, rt.ScriptString(c.Word), late, sink.DroppedCount()))
		}
	case "concurrent":
		sink := rt.NewSink()
		rec := rt.NewRecorder[int]()
		rec.Hook = dwellHook
		var wg sync.WaitGroup
		total := 0
		for _, w := range c.Words {
			total += len(w)
		}
		start := make(chan struct{})
		obs := rt.Build(c.Ctor, func(ctx context.Context, d ro.Observer[int]) ro.Teardown {
			for _, w := range c.Words {
				w := w
				wg.Add(1)
				go func() {
					defer wg.Done()
					<-start
					for _, e := range w {
						switch e.K {
						case 'N':
							d.Next(e.V)
						case 'E':
							d.Error(rt.Err(e.V))
						case 'C':
							d.Complete()
						}
					}
				}()
			}
			return nil
		})
		obs.Subscribe(observerOf(rec, c.Raw))
		close(start)
		wg.Wait()
		if g := rec.Grammar(); g != "" {
			c01Fail(t, c, string(c.Ctor), "delivery-after-terminal-concurrent", fmt.Sprintf("%s with producers %v: %s", c.Ctor, wordsString(c.Words), g))
		}
		anyTerm := false
		for _, w := range c.Words {
			if scriptEnd(w) != 0 {
				anyTerm = true
			}
		}
		if tr := rec.Trace(); anyTerm && tr.End == 0 {
			c01Fail(t, c, string(c.Ctor), "terminal-never-delivered-concurrent", fmt.Sprintf("%s with producers %v: a producer emitted a terminal notification but the observer never received one (saw %v)", c.Ctor, wordsString(c.Words), rec.Recs()))
		}
		if d := rec.Len() + sink.DroppedCount(); d != total {
			c01Fail(t, c, string(c.Ctor), "notification-lost-or-duplicated-concurrent", fmt.Sprintf("%s with producers %v: delivered %d + dropped-hook %d != emitted %d", c.Ctor, wordsString(c.Words), rec.Len(), sink.DroppedCount(), total))
		}
		if c.Ctor != rt.CtorEventually && c.Ctor != rt.CtorEventuallyCtx {
			if o := rec.Overlap(); o != "" {
				c01Fail(t, c, string(c.Ctor), "overlap", o)
			}
		}
	case "concurrent-subject":
		rt.NewSink()
		s := c.Subject.New()
		recs := []*rt.Recorder[int]{rt.NewRecorder[int](), rt.NewRecorder[int]()}
		recs[0].Hook, recs[1].Hook = dwellHook, dwellHook
		s.Subscribe(observerOf(recs[0], c.Raw))
		var wg sync.WaitGroup
		start := make(chan struct{})
		for _, w := range c.Words {
			w := w
			wg.Add(1)
			go func() {
				defer wg.Done()
				<-start
				for _, e := range w {
					switch e.K {
					case 'N':
						s.Next(e.V)
					case 'E':
						s.Error(rt.Err(e.V))
					case 'C':
						s.Complete()
					}
				}
			}()
		}
		wg.Add(1)
		go func() {
			defer wg.Done()
			<-start
			s.Subscribe(observerOf(recs[1], c.Raw))
		}()
		close(start)
		wg.Wait()
		for i, r := range recs {
			if g := r.Grammar(); g != "" {
				c01Fail(t, c, c.Subject.String(), "delivery-after-terminal-concurrent", fmt.Sprintf("%s with producers %v, subscriber #%d: %s", c.Subject, wordsString(c.Words), i, g))
			}
			if o := r.Overlap(); o != "" {
				c01Fail(t, c, c.Subject.String(), "overlap", o)
			}
		}
	}
}

// dwellHook keeps a Next callback busy for a moment so that other producers
// queue up behind the delivery in progress (widens the race windows).
func dwellHook(k byte, ctx context.Context, v any, err error) {
	if k == 'N' {
		time.Sleep(40 * time.Microsecond)
	}
}

func wordsString(ws [][]rt.Ev) []string {
	out := make([]string, len(ws))
	for i, w := range ws {
		out[i] = rt.ScriptString(w)
	}
	return out
}

func TestC01_BareAndRowsEnumerated(t *testing.T) {
	maxLen := 4
	if rt.Thorough() {
		maxLen = 5
	}
	words := allWords(maxLen)
	idx := 0
	for _, ctor := range rt.AllCtors {
		for _, w := range words {
			idx++
			if !rt.Mine(idx) {
				continue
			}
			for _, raw := range []bool{true, false} {
				c := c01Case{Kind: "bare", Ctor: ctor, Word: w, Raw: raw}
				c01Run(t, c)
				rt.Case(caseKey("bare", ctor, w, raw), lateCount(w) > 0, "bare", func() any { return c })
				cp := c01Case{Kind: "bare", Ctor: ctor, Word: w, Raw: raw, PanicAtEnd: true}
				c01Run(t, cp)
				rt.Case(caseKey("bare-panic", ctor, w, raw), true, "bare", func() any { return cp })
			}
		}
	}
	rowLen := maxLen - 1
	rowWords := allWords(rowLen)
	for _, row := range cat.Rows {
		for _, p := range row.Params {
			for _, w := range rowWords {
				if row.Waits && scriptEnd(w) == 0 {
					continue
				}
				if row.Diverges != nil && row.Diverges(p, scriptValues(w), scriptEnd(w)) {
					continue
				}
				idx++
				if !rt.Mine(idx) {
					continue
				}
				v := row.Variants[idx%len(row.Variants)]
				c := c01Case{Kind: "row", Op: row.Name, Variant: v, P: p, Word: w, Ctor: rt.CtorUnsafeCtx, Raw: true}
				c01Run(t, c)
				rt.Case(caseKey("row", row.Name, v, p, w), lateCount(w) > 0, "row:"+row.Name, func() any { return c })
			}
		}
	}
	rt.Note("enumerated_scope", fmt.Sprintf("8 constructors x every word of length <= %d over {N1,N2,E,C} (illegal suffixes included) x {raw observer, ro.NewObserver}; every catalogue row x params x words <= %d", maxLen, rowLen))
}

func TestC01_SubjectsEnumerated(t *testing.T) {
	maxLen := 4
	if rt.Thorough() {
		maxLen = 5
	}
	words := allWords(maxLen)
	idx := 0
	for _, k := range subjectKinds {
		for _, w := range words {
			idx++
			if !rt.Mine(idx) {
				continue
			}
			// subscriber placements: one before, one at every position, one after
			places := [][]int{{0}, {len(w)}, {0, len(w) / 2, len(w)}}
			for at := 1; at < len(w); at++ {
				places = append(places, []int{at})
			}
			if k.Kind == "unicast" {
				// unicast admits one subscriber at a time: single placements only
				places = [][]int{{0}, {len(w)}}
				for at := 1; at < len(w); at++ {
					places = append(places, []int{at})
				}
			}
			for _, pl := range places {
				c := c01Case{Kind: "subject", Subject: k, Word: w, SubAt: pl, Raw: idx%2 == 0}
				c01Run(t, c)
				rt.Case(caseKey("subject", k, w, pl), lateCount(w) > 0, "subject:"+k.Kind, func() any { return c })
			}
		}
	}
}

func TestC01_Concurrent(t *testing.T) {
	ctors := append(append([]rt.Ctor{}, rt.SerialCtors...), rt.CtorEventually, rt.CtorEventuallyCtx)
	letters := []rt.Ev{rt.N(1), rt.N(2), rt.E(1), rt.C()}
	genWord := func(t *rapid.T, max int) []rt.Ev {
		n := rapid.IntRange(1, max).Draw(t, "wlen")
		w := make([]rt.Ev, n)
		for i := range w {
			// bias towards values; terminals appear in ~1/3 of positions
			if rapid.IntRange(0, 2).Draw(t, "isTerm") == 0 {
				w[i] = letters[2+rapid.IntRange(0, 1).Draw(t, "term")]
			} else {
				w[i] = letters[rapid.IntRange(0, 1).Draw(t, "val")]
			}
		}
		return w
	}
	rapid.Check(t, func(t *rapid.T) {
		k := rapid.IntRange(2, 4).Draw(t, "producers")
		words := make([][]rt.Ev, k)
		hasTerm := false
		for i := range words {
			words[i] = genWord(t, 6)
			if scriptEnd(words[i]) != 0 {
				hasTerm = true
			}
		}
		raw := rapid.Bool().Draw(t, "raw")
		if rapid.Bool().Draw(t, "subject") {
			sk := subjectKinds[rapid.IntRange(0, len(subjectKinds)-1).Draw(t, "kind")]
			c := c01Case{Kind: "concurrent-subject", Subject: sk, Words: words, Raw: raw}
			for rep := 0; rep < 5; rep++ {
				c01Run(t, c)
			}
			rt.Case(caseKey("csubject", sk, wordsString(words)), hasTerm, "concurrent-subject", func() any { return c })
			return
		}
		ctor := ctors[rapid.IntRange(0, len(ctors)-1).Draw(t, "ctor")]
		c := c01Case{Kind: "concurrent", Ctor: ctor, Words: words, Raw: raw}
		for rep := 0; rep < 5; rep++ {
			c01Run(t, c)
		}
		rt.Case(caseKey("concurrent", ctor, wordsString(words)), hasTerm, "concurrent", func() any { return c })
	})
}
