package checks

import (
	"encoding/json"
	"strings"
	"testing"

	"verifharness/rt"
)

// Replayers for the checks whose failing case is not a self-contained value
// (rapid state machines, race repetitions, generic plugin lifts): the replay
// re-runs the generating test with the driver's rapid budget; a failure of the
// same (operator, class) reproduces the violation.
func init() {
	replayers["subscription-algebra"] = func(t *testing.T, raw json.RawMessage) { TestC03_SubscriptionAlgebra(t) }
	replayers["wait-race"] = func(t *testing.T, raw json.RawMessage) { TestC06_WaitCloseRace(t) }
	replayers["counts-at-the-top"] = func(t *testing.T, raw json.RawMessage) { TestC04_CountsAtTheTop(t) }
	replayers["ratelimit-stress"] = func(t *testing.T, raw json.RawMessage) { TestC20_NativeStress(t) }
	replayers["bridge-exact"] = func(t *testing.T, raw json.RawMessage) {
		var c struct {
			Script []rt.Ev `json:"script"`
		}
		if err := json.Unmarshal(raw, &c); err != nil {
			t.Fatal(err)
		}
		c17RunExact(t, c.Script)
	}
	replayers["lift"] = func(t *testing.T, raw json.RawMessage) {
		var c struct {
			Op string `json:"op"`
		}
		_ = json.Unmarshal(raw, &c)
		switch {
		case strings.HasPrefix(c.Op, "strconv."):
			TestC18_Strconv(t)
		case strings.HasPrefix(c.Op, "regexp."):
			TestC18_Regexp(t)
		case strings.HasPrefix(c.Op, "sort."):
			TestC18_Sort(t)
		case strings.HasPrefix(c.Op, "stdio"):
			TestC18_Stdio(t)
		default:
			TestC18_TimeTemplateEncodings(t)
		}
	}
}
