package checks

import (
	"context"
	"os"
	"encoding/json"
	"fmt"
	"strings"
	"testing"
	"time"

	"github.com/samber/ro"
	"pgregory.net/rapid"
	"verifharness/cat"
	"verifharness/model"
	"verifharness/rt"
)

// C07 — errors and panics surface once as an Error notification, never as a crash.

type c07Case struct {
	Links  []cat.Link               `json:"chain"`
	Script []rt.Ev                  `json:"script"`
	Plan   map[string]cat.FaultPlan `json:"faults"` // position -> (invocation index, kind)
}

func init() {
	replayers["fault"] = func(t *testing.T, raw json.RawMessage) {
		var c c07Case
		if err := json.Unmarshal(raw, &c); err != nil {
			t.Fatal(err)
		}
		c07Run(t, c)
	}
}

const (
	posSubscribe = "source.subscribe"
	posObsNext   = "observer.next"
	posObsError  = "observer.error"
	posObsDone   = "observer.complete"
)

// c07Model computes what the property prescribes for this fault plan.
func c07Model(c c07Case, spec bool) (tr model.Trace, blocked bool, unhandled []string) {
	model.SpecFaults = spec
	model.Unhandled = func(k string) { unhandled = append(unhandled, k) }
	defer func() { model.SpecFaults = false; model.Unhandled = nil }()
	menv := cat.NewMEnv(c.Plan)
	mops := make([]model.Operator, len(c.Links))
	for i, l := range c.Links {
		mops[i] = cat.ByName(l.Op).Model(l.P, menv)
		if i < len(c.Links)-1 {
			mops[i] = cat.ChainModel(mops[i])
		}
	}
	cold := model.Cold(cat.ModelIn(c.Script))
	src := model.Guard(func(d model.Sink) {
		menv.Hit(posSubscribe)
		cold(d)
	})
	tr, blocked = runModelObs(model.Compose(src, mops...))
	return
}

func c07Run(t rt.TB, c c07Case) {
	name := chainName(c.Links)
	faultPos := ""
	for p := range c.Plan {
		if faultPos == "" || p < faultPos {
			faultPos = p
		}
	}
	fail := func(class, msg string) {
		op := name
		if len(c.Links) > 1 && strings.Contains(faultPos, ".") {
			op = strings.SplitN(faultPos, ".", 2)[0] // attribute to the row owning the callback
			for _, l := range c.Links {
				for _, p := range cat.ByName(l.Op).Pos {
					if p == faultPos {
						op = l.Op
					}
				}
			}
		}
		rt.Report(t, rt.Failure{Property: "C07", Check: "fault", Op: op, Class: class, Msg: msg, Case: c})
	}
	if os.Getenv("VERIF_TRACE") == "1" {
		b, _ := json.Marshal(c)
		fmt.Fprintf(os.Stderr, "TRACE %s\n", b)
	}
	want, blocked, _ := c07Model(c, true)
	if blocked {
		return
	}
	env := cat.NewEnv()
	env.Plan = c.Plan
	sink := rt.NewSink()
	src := rt.NewScript("src", rt.CtorUnsafeCtx, c.Script)
	src.OnSubscribe = func(n int) { env.Hit(posSubscribe, nil, false) }
	var o ro.Observable[int] = src.Observable()
	var out ro.Observable[any]
	if len(c.Links) == 1 {
		l := c.Links[0]
		out = cat.ByName(l.Op).Build(l.Variant, l.P, env)(o)
	} else {
		stages := make([]cat.Stage, len(c.Links))
		for i, l := range c.Links {
			stages[i] = cat.ByName(l.Op).Build(l.Variant, l.P, env)
		}
		// chain at native types is not possible in general: use the int adapter for inner links
		cur := o
		for i := 0; i < len(stages)-1; i++ {
			cur = cat.ChainStage(stages[i])(cur)
		}
		out = stages[len(stages)-1](cur)
	}
	rec := rt.NewRecorder[any]()
	// the final observer is ro's callback observer around the recorder, with
	// instrumented (possibly panicking) callbacks
	obs := ro.NewObserverWithContext(
		func(cx context.Context, v any) { rec.NextWithContext(cx, v); env.Hit(posObsNext, cx, true) },
		func(cx context.Context, err error) { rec.ErrorWithContext(cx, err); env.Hit(posObsError, cx, true) },
		func(cx context.Context) { rec.CompleteWithContext(cx); env.Hit(posObsDone, cx, true) },
	)
	var pan any
	returned := make(chan struct{})
	go func() {
		defer close(returned)
		defer func() { pan = recover() }()
		out.Subscribe(obs)
	}()
	select {
	case <-returned:
	case <-time.After(10 * time.Second):
		// a synchronous pipeline over a finite script whose definition terminates:
		// Subscribe still running after 10 s of real time is a hang, not slowness
		class := "subscribe-never-returns-after-fault"
		if c07TerminalFault(c) != "" {
			class = "fault-in-terminal-callback-swallowed"
		}
		fail(class, fmt.Sprintf("%s over [%s] with faults %v: Subscribe did not return (the property prescribes %s)", name, rt.ScriptString(c.Script), c.Plan, want))
		return
	}
	if pan != nil {
		fail("panic-escaped-into-subscribe", fmt.Sprintf("%s over [%s] with faults %v: Subscribe panicked: %v", name, rt.ScriptString(c.Script), c.Plan, pan))
		return
	}
	if len(env.Fired) == 0 {
		return // the planned invocation never happened in this run (nothing injected)
	}
	got := cat.TraceOf(rec.Trace())
	_, obsFault := c.Plan[posObsNext]
	_, obsEFault := c.Plan[posObsError]
	_, obsCFault := c.Plan[posObsDone]
	switch {
	case obsEFault || obsCFault:
		// nobody can receive these: they must reach the unhandled-error hook
		found := false
		for _, e := range sink.UnhandledErrs() {
			if strings.HasPrefix(cat.ErrKey(e), "fault:observer.") {
				found = true
			}
		}
		if !found {
			fail("unreceivable-fault-not-in-unhandled-hook", fmt.Sprintf("%s over [%s] with faults %v: the panic of the observer's terminal callback did not reach OnUnhandledError (hook saw %v)", name, rt.ScriptString(c.Script), c.Plan, sink.UnhandledErrs()))
		}
	case obsFault:
		// the observer's own Next callback panicked at invocation k: exactly one
		// Error carrying the cause, and nothing after it
		k := c.Plan[posObsNext].At
		recs := rec.Recs()
		// find the (k+1)-th Next
		n, at := 0, -1
		for i, r := range recs {
			if r.K == 'N' {
				if n == k {
					at = i
					break
				}
				n++
			}
		}
		if at < 0 {
			return
		}
		after := recs[at+1:]
		if len(after) == 0 || after[0].K != 'E' || cat.ErrKey(after[0].Err) != cat.FaultKey(posObsNext, k) {
			fail("observer-next-panic-not-delivered-as-error", fmt.Sprintf("%s over [%s]: observer Next panicked at #%d; afterwards the observer saw %v", name, rt.ScriptString(c.Script), k, after))
			return
		}
		if len(after) > 1 {
			fail("observer-stays-open-after-next-panic", fmt.Sprintf("%s over [%s]: observer Next panicked at #%d and received the Error, but then still got %v", name, rt.ScriptString(c.Script), k, after[1:]))
		}
	default:
		if !cat.SameTrace(got, want) {
			class := "fault-trace-mismatch"
			real, _, _ := c07Model(c, false)
			// `real` = the model with the library's own rule for a panic inside an error /
			// completion handler (it is swallowed). When the observed trace is exactly that,
			// the difference to the property's reading is the listed finding - whether the
			// stream is then left open or, further down, completed by another stage
			// (a merged companion, a fallback).
			if cat.SameTrace(got, real) && (got.End == 0 || c07TerminalFault(c) != "") {
				class = "fault-in-terminal-callback-swallowed"
			}
			if tp := c07TerminalFault(c); tp != "" && len(c.Plan) > 1 {
				// several faults, one of them inside an error/completion handler
				class = "fault-in-terminal-callback-swallowed"
				faultPos = tp
			}
			if fp, ok := c.Plan["DoWhile.cond"]; ok && got.Err != cat.FaultKey("DoWhile.cond", fp.At) {
				// DoWhile evaluates its condition inside the completion callback of the round
				class = "fault-in-terminal-callback-swallowed"
			}
			fail(class, fmt.Sprintf("%s over [%s] with faults %v: got %s, the property prescribes %s", name, rt.ScriptString(c.Script), c.Plan, got, want))
			return
		}
		if g := rec.Grammar(); g != "" {
			fail("delivery-after-fault", g)
			return
		}
	}
	// liveness: a fresh subscription to the same observable (no fault left in the
	// plan: invocation counters have moved on) behaves like an unfaulted run
	if len(c.Links) == 1 && !cat.ByName(c.Links[0].Op).Resub && !obsFault {
		l := c.Links[0]
		row := cat.ByName(l.Op)
		calls := 0
		for _, p := range row.Pos {
			calls += env.Calls[p]
		}
		_ = calls
		env.Plan = map[string]cat.FaultPlan{}
		rec2 := rt.NewRecorder[any]()
		var pan2 any
		func() {
			defer func() { pan2 = recover() }()
			out.Subscribe(rec2)
		}()
		want2, b2 := modelRow(row, l.P, c.Script, nil)
		if pan2 != nil {
			fail("unusable-after-fault", fmt.Sprintf("second subscription panicked: %v", pan2))
		} else if !b2 {
			got2 := cat.TraceOf(rec2.Trace())
			if !cat.SameTrace(got2, want2) && rt.KnownFor("C04", "model", l.Op, c04Class(c04Case{Script: c.Script}, "", "")) == nil {
				fail("unusable-after-fault", fmt.Sprintf("%s over [%s]: after the fault a fresh subscription got %s, an unfaulted run gives %s", name, rt.ScriptString(c.Script), got2, want2))
			}
		}
	}
}

// dryCalls runs the chain without faults and returns the invocation count per position.
// c07TerminalFault returns the planned fault position that sits inside an
// operator's error / completion handler ("" if none).
func c07TerminalFault(c c07Case) string {
	for _, p := range []string{"Tap.error", "Tap.complete", "ThrowIfEmpty.throw", "Catch.finally", "DoWhile.cond"} {
		if _, ok := c.Plan[p]; ok {
			return p
		}
	}
	return ""
}

// The finalizer of TapOnFinalize runs when the subscription is disposed, after
// the terminal notification has been delivered: a panic there cannot change the
// trace, it must only not escape into Subscribe. One invocation per subscription.
const posFinalize = "Tap.finalize"

func dryCalls(links []cat.Link, script []rt.Ev) map[string]int {
	c := c07Case{Links: links, Script: script, Plan: map[string]cat.FaultPlan{}}
	menv := cat.NewMEnv(nil)
	mops := make([]model.Operator, len(links))
	for i, l := range links {
		mops[i] = cat.ByName(l.Op).Model(l.P, menv)
		if i < len(links)-1 {
			mops[i] = cat.ChainModel(mops[i])
		}
	}
	tr, blocked := runModelObs(model.Compose(model.Cold(cat.ModelIn(c.Script)), mops...))
	if blocked {
		return nil
	}
	calls := map[string]int{posSubscribe: 1}
	for k, v := range menv.Calls {
		calls[k] = v
	}
	if tr.End != 0 {
		calls[posFinalize] = 1
	}
	calls[posObsNext] = len(tr.Vals)
	if tr.End == 'E' {
		calls[posObsError] = 1
	}
	if tr.End == 'C' {
		calls[posObsDone] = 1
	}
	return calls
}

func TestC07_SingleFaultEnumerated(t *testing.T) {
	maxLen := 3
	if rt.Thorough() {
		maxLen = 4
	}
	scripts := legalScripts([]int{1, 2, 3}, maxLen, []byte{'C', 'E'})
	kinds := []string{"perr", "pstr", "pval"}
	idx := 0
	for _, row := range cat.Rows {
		for _, p := range row.Params {
			if len(row.Params) > 2 && idx%2 == 1 && len(row.Pos) == 0 {
				continue
			}
			for vi, v := range row.Variants {
				for _, s := range scripts {
					if row.Diverges != nil && row.Diverges(p, scriptValues(s), scriptEnd(s)) {
						continue
					}
					idx++
					if !rt.Mine(idx) {
						continue
					}
					links := []cat.Link{{Op: row.Name, Variant: v, P: p}}
					calls := dryCalls(links, s)
					if calls == nil {
						continue
					}
					positions := append([]string{}, row.Pos...)
					if vi == 0 {
						positions = append(positions, posSubscribe, posObsNext, posObsError, posObsDone)
					}
					for _, pos := range positions {
						for k := 0; k < calls[pos]; k++ {
							ks := []string{kinds[(idx+k)%3]}
							for _, ec := range row.ErrCb {
								if ec == pos {
									ks = append(ks, "ret")
								}
							}
							for _, kind := range ks {
								c := c07Case{Links: links, Script: s, Plan: map[string]cat.FaultPlan{pos: {At: k, Kind: kind}}}
								c07Run(t, c)
								nt := k >= 1 || pos == posSubscribe || strings.HasPrefix(pos, "observer.")
								rt.Case(caseKey("fault", row.Name, v, p, s, pos, k, kind), nt, "pos:"+pos, func() any { return c })
							}
						}
					}
				}
			}
		}
	}
	rt.Note("enumerated_scope", fmt.Sprintf("every catalogue row x params x variant x legal scripts of length <= %d x every callback position (operator callbacks, source subscribe function, the observer's three callbacks) x every invocation index of that callback in the run x fault kind (panic error / string / non-error value rotating; returned error for error-aware callbacks)", maxLen))
}

func TestC07_FaultsInChainsRandom(t *testing.T) { rapid.Check(t, propC07FaultsInChainsRandom) }

func propC07FaultsInChainsRandom(t *rapid.T) {
	n := rapid.IntRange(2, 4).Draw(t, "chainLen")
	links := make([]cat.Link, n)
	var positions []string
	for i := range links {
		links[i] = genLink(t, true)
		positions = append(positions, cat.ByName(links[i].Op).Pos...)
	}
	if chainDiverges(links) {
		return
	}
	script := genScript(t, 6, 1, 3, []byte{'C', 'E'})
	calls := dryCalls(links, script)
	if calls == nil {
		return
	}
	positions = append(positions, posSubscribe)
	plan := map[string]cat.FaultPlan{}
	nf := rapid.IntRange(1, 2).Draw(t, "faults")
	for i := 0; i < nf; i++ {
		pos := rapid.SampledFrom(positions).Draw(t, "pos")
		if calls[pos] == 0 {
			continue
		}
		plan[pos] = cat.FaultPlan{At: rapid.IntRange(0, calls[pos]-1).Draw(t, "at"), Kind: rapid.SampledFrom([]string{"perr", "pstr", "pval"}).Draw(t, "kind")}
	}
	if len(plan) == 0 {
		return
	}
	// duplicate rows in one chain share a callback position name: skip those chains
	seen := map[string]bool{}
	for _, l := range links {
		for _, p := range cat.ByName(l.Op).Pos {
			if seen[p] {
				return
			}
			seen[p] = true
		}
	}
	c := c07Case{Links: links, Script: script, Plan: plan}
	if tp := c07TerminalFault(c); tp != "" {
		// listed finding C07-terminal-callback-panic-swallowed: the stream then never
		// terminates, and a stage below that waits inside Subscribe would hang for ever
		owner := -1
		for i, l := range links {
			for _, p := range cat.ByName(l.Op).Pos {
				if p == tp {
					owner = i
				}
			}
		}
		for i := owner + 1; owner >= 0 && i < len(links); i++ {
			if cat.ByName(links[i].Op).Waits {
				rt.Excluded(1)
				return
			}
		}
	}
	c07Run(t, c)
	rt.Case(caseKey("faultchain", fmt.Sprint(links), script, fmt.Sprint(plan)), true, fmt.Sprintf("chain-faults:%d", len(plan)), func() any { return c })
}
