package checks

import (
	"context"
	"encoding/json"
	"fmt"
	"sync"
	"testing"
	"testing/synctest"
	"time"

	"github.com/samber/ro"
	"pgregory.net/rapid"
	"verifharness/cat"
	"verifharness/rt"
)

// C12 for operator values that deal with time: a recipe does not age. Whatever
// time passes between building an operator value (or observable) and subscribing
// to it, and however often it has been subscribed before, a subscription behaves
// like a first subscription to a freshly built one: same notifications at the
// same offsets from the moment of subscription, same deadlines (relative to it)
// on the contexts handed downstream. Virtual time: offsets are exact.

type c12Age struct {
	Op    string `json:"op"`
	D     int    `json:"d_ms"`
	Gaps  []int  `json:"gaps_ms"`
	End   byte   `json:"end"`
	AgeMs int    `json:"age_ms"` // time between building the value and subscribing
}

func init() {
	replayers["ageing"] = func(t *testing.T, raw json.RawMessage) {
		var c c12Age
		if err := json.Unmarshal(raw, &c); err != nil {
			t.Fatal(err)
		}
		c12AgeRun(t, t, c)
	}
}

var c12AgeOps = []string{"ContextWithTimeout", "ContextWithTimeout>ThrowOnContextCancel", "Timeout", "Delay", "DelayEach", "SampleTime", "ThrottleTime", "BufferWithTime", "BufferWithTimeOrCount",
	"Timer", "Interval", "IntervalWithInitial", "RangeWithInterval", "RepeatWithInterval", "TakeUntilTimer", "MergeWithTimer", "ConcatWithTimer"}

func c12AgeBuild(op string, d time.Duration, src ro.Observable[int]) ro.Observable[any] {
	i64 := func(o ro.Observable[int64]) ro.Observable[int] { return ro.Map(func(x int64) int { return int(x) })(o) }
	switch op {
	case "ContextWithTimeout":
		return anyObs(ro.ContextWithTimeout[int](d)(src))
	case "ContextWithTimeout>ThrowOnContextCancel":
		return anyObs(ro.ThrowOnContextCancel[int]()(ro.ContextWithTimeout[int](d)(src)))
	case "Timeout":
		return anyObs(ro.Timeout[int](d)(src))
	case "Delay":
		return anyObs(ro.Delay[int](d)(src))
	case "DelayEach":
		return anyObs(ro.DelayEach[int](d)(src))
	case "SampleTime":
		return anyObs(ro.SampleTime[int](d)(src))
	case "ThrottleTime":
		return anyObs(ro.ThrottleTime[int](d)(src))
	case "BufferWithTime":
		return anyObs(ro.BufferWithTime[int](d)(src))
	case "BufferWithTimeOrCount":
		return anyObs(ro.BufferWithTimeOrCount[int](2, d)(src))
	case "Timer":
		return anyObs(ro.Timer(d))
	case "Interval":
		return anyObs(ro.Take[int64](3)(ro.Interval(d)))
	case "IntervalWithInitial":
		return anyObs(ro.Take[int64](3)(ro.IntervalWithInitial(2*d, d)))
	case "RangeWithInterval":
		return anyObs(ro.RangeWithInterval(0, 3, d))
	case "RepeatWithInterval":
		return anyObs(ro.RepeatWithInterval(7, 3, d))
	case "TakeUntilTimer":
		return anyObs(ro.TakeUntil[int, time.Duration](ro.Timer(d))(src))
	case "MergeWithTimer":
		return anyObs(ro.Merge(src, i64(ro.Take[int64](2)(ro.Interval(d)))))
	case "ConcatWithTimer":
		return anyObs(ro.Concat(i64(ro.Take[int64](1)(ro.Interval(d))), src))
	}
	panic("unknown op " + op)
}

type ageRec struct {
	K        byte
	V        any
	Err      string
	At       time.Duration // since the subscription
	Deadline time.Duration // of the context, since the subscription (-1: none)
}

func (r ageRec) String() string {
	s := fmt.Sprintf("%c", r.K)
	if r.K == 'N' {
		s += fmt.Sprint(cat.Norm(r.V))
	}
	if r.K == 'E' {
		s += "(" + r.Err + ")"
	}
	s += fmt.Sprintf("@%v", r.At)
	if r.Deadline >= 0 {
		s += fmt.Sprintf("[deadline %v]", r.Deadline)
	}
	return s
}

// one subscription of obs, driven by its hot source along the timeline
func c12AgeDrive(c c12Age, obs ro.Observable[any], man *rt.ManualSrc) []ageRec {
	var mu sync.Mutex
	var recs []ageRec
	start := time.Now()
	rec := rt.NewRecorder[any]()
	rec.Hook = func(k byte, cx context.Context, v any, err error) {
		r := ageRec{K: k, V: v, At: time.Since(start), Deadline: -1}
		if err != nil {
			r.Err = cat.ErrKey(err)
		}
		if cx != nil {
			if dl, ok := cx.Deadline(); ok {
				r.Deadline = dl.Sub(start)
			}
		}
		mu.Lock()
		recs = append(recs, r)
		mu.Unlock()
	}
	returned := make(chan struct{})
	var sub ro.Subscription
	go func() {
		defer close(returned)
		defer func() { recover() }()
		sub = obs.Subscribe(rec)
	}()
	synctest.Wait()
	for i, g := range c.Gaps {
		// whole milliseconds plus a growing microsecond offset: no source notification
		// ever falls on the very instant a timer of the operator fires (the order of
		// two things due at the same instant is not defined)
		time.Sleep(ms(g) + time.Duration(37*(i+1))*time.Microsecond)
		man.Emit(rt.N(i + 1))
		synctest.Wait()
	}
	time.Sleep(11 * time.Microsecond)
	switch c.End {
	case 'C':
		man.Emit(rt.C())
	case 'E':
		man.Emit(rt.E(1))
	}
	time.Sleep(ms(6*c.D + 10))
	synctest.Wait()
	man.Emit(rt.C())
	synctest.Wait()
	select {
	case <-returned:
		if sub != nil {
			sub.Unsubscribe()
		}
	default:
	}
	time.Sleep(ms(6*c.D + 10))
	synctest.Wait()
	mu.Lock()
	defer mu.Unlock()
	return append([]ageRec(nil), recs...)
}

func c12AgeRun(tb rt.TB, t *testing.T, c c12Age) {
	var failure *rt.Failure
	fail := func(class, msg string) {
		if failure == nil {
			failure = &rt.Failure{Property: "C12", Check: "ageing", Op: c.Op, Class: class, Msg: msg, Case: c}
		}
	}
	problem := bubble(t, func() {
		rt.NewSink()
		d := ms(c.D)
		// reference: built and subscribed at once
		refSrc := rt.NewManual("ref", rt.CtorUnsafeCtx)
		ref := c12AgeDrive(c, c12AgeBuild(c.Op, d, refSrc.Observable()), refSrc)
		// aged: built now, subscribed AgeMs later; then once more
		agedSrc := rt.NewManual("aged", rt.CtorUnsafeCtx)
		aged := c12AgeBuild(c.Op, d, agedSrc.Observable())
		time.Sleep(ms(c.AgeMs))
		first := c12AgeDrive(c, aged, agedSrc)
		if fmt.Sprint(first) != fmt.Sprint(ref) {
			fail("aged-value-behaves-differently", fmt.Sprintf("%s(%v) over gaps %v ending %q: subscribed %dms after it was built it delivered %v; a freshly built one delivers %v", c.Op, d, c.Gaps, c.End, c.AgeMs, first, ref))
			return
		}
		again := c12AgeDrive(c, aged, agedSrc)
		if fmt.Sprint(again) != fmt.Sprint(ref) {
			fail("second-subscription-behaves-differently", fmt.Sprintf("%s(%v) over gaps %v ending %q: its second subscription delivered %v; a first one delivers %v", c.Op, d, c.Gaps, c.End, again, ref))
		}
	})
	if problem != "" && failure == nil {
		fail("bubble-problem", problem)
	}
	if failure != nil {
		rt.Report(tb, *failure)
	}
}

func TestC12_OperatorValuesDoNotAge(t *testing.T) {
	currentT = t
	rapid.Check(t, func(rt_ *rapid.T) {
		c := c12Age{Op: rapid.SampledFrom(c12AgeOps).Draw(rt_, "op"), D: rapid.SampledFrom([]int{1, 5, 40}).Draw(rt_, "d"), End: rapid.SampledFrom([]byte{'C', 'E', 0}).Draw(rt_, "end"),
			AgeMs: rapid.SampledFrom([]int{1, 7, 45, 300, 5000}).Draw(rt_, "age")}
		n := rapid.IntRange(0, 4).Draw(rt_, "items")
		for i := 0; i < n; i++ {
			c.Gaps = append(c.Gaps, rapid.SampledFrom([]int{0, 1, 3, 12, 60}).Draw(rt_, "gap"))
		}
		c12AgeRun(rt_, t, c)
		rt.Case(caseKey("ageing", c.Op, c.D, c.Gaps, c.End, c.AgeMs), c.AgeMs > c.D, "ageing:"+c.Op, func() any { return c })
	})
}
