package checks

import (
	"encoding/json"
	"fmt"
	"reflect"
	"testing"
	"time"

	"github.com/samber/ro"
	"pgregory.net/rapid"
	"verifharness/cat"
	"verifharness/model"
	"verifharness/rt"
)

// C10 — subjects follow their sequential definition and are linearizable.

// sop is one operation on a subject: "N1", "N2", "E", "C", "S<i>", "U<i>".
type sop struct {
	K  byte `json:"k"` // N E C S U
	V  int  `json:"v,omitempty"`
	Id int  `json:"id,omitempty"`
}

func (o sop) String() string {
	switch o.K {
	case 'N':
		return fmt.Sprintf("N%d", o.V)
	case 'S', 'U', 'X':
		return fmt.Sprintf("%c%d", o.K, o.Id)
	}
	return string(o.K)
}

type c10Case struct {
	Subject      subjectKind `json:"subject"`
	Ops          []sop       `json:"ops"`
	KeepDeadlock bool        `json:"keep_deadlock_case,omitempty"`
}

func init() {
	replayers["subject-sequential"] = func(t *testing.T, raw json.RawMessage) {
		var c c10Case
		if err := json.Unmarshal(raw, &c); err != nil {
			t.Fatal(err)
		}
		c10Run(t, c)
	}
}

func opsString(ops []sop) string {
	s := ""
	for i, o := range ops {
		if i > 0 {
			s += " "
		}
		s += o.String()
	}
	return s
}

func notifsOf(r *rt.Recorder[int]) []model.Notif {
	var out []model.Notif
	for _, x := range r.Recs() {
		switch x.K {
		case 'N':
			out = append(out, model.Notif{K: 'N', V: cat.Norm(x.V)})
		case 'E':
			out = append(out, model.Notif{K: 'E', E: cat.ErrKey(x.Err)})
		case 'C':
			out = append(out, model.Notif{K: 'C'})
		}
	}
	return out
}

func c10Run(t rt.TB, c c10Case) {
	name := c.Subject.String()
	rt.NewSink()
	s := c.Subject.New()
	m := model.NewSubject(c.Subject.Kind, c.Subject.Size, behaviorInitial)
	legacy := model.NewSubject(c.Subject.Kind, c.Subject.Size, behaviorInitial)
	legacy.LegacyUnicastLate = true
	recs := map[int]*rt.Recorder[int]{}
	subs := map[int]ro.Subscription{}
	selfCancel := map[int]bool{}
	abort, deadlocked := false, false
	fail := func(class, msg string) {
		rt.Report(t, rt.Failure{Property: "C10", Check: "subject-sequential", Op: name, Class: class, Msg: msg, Case: c})
	}
	// guarded: an operation on the subject while a self-cancelling subscriber is
	// registered runs under a watchdog (the subscriber leaves from inside the delivery)
	stuck := ""
	guarded := func(what string, f func()) {
		if len(selfCancel) == 0 {
			f()
			return
		}
		done := make(chan any, 1)
		go func() {
			defer func() { done <- recover() }()
			f()
		}()
		select {
		case r := <-done:
			if r != nil {
				panic(r)
			}
		case <-time.After(5 * time.Second):
			stuck = what
		}
	}
	errs := 0
	for step, o := range c.Ops {
		var pan any
		func() {
			defer func() { pan = recover() }()
			switch o.K {
			case 'N':
				guarded("Next", func() { s.Next(o.V) })
				m.Next(o.V)
				legacy.Next(o.V)
			case 'E':
				// every Error of a history carries an error value of its own: the stored
				// terminal is the FIRST one
				errs++
				e := errs
				guarded("Error", func() { s.Error(rt.Err(e)) })
				m.Error(fmt.Sprintf("e%d", e))
				legacy.Error(fmt.Sprintf("e%d", e))
			case 'C':
				guarded("Complete", func() { s.Complete() })
				m.Complete()
				legacy.Complete()
			case 'S':
				recs[o.Id] = rt.NewRecorder[int]()
				subs[o.Id] = s.Subscribe(recs[o.Id])
				m.Subscribe(o.Id)
				legacy.Subscribe(o.Id)
			case 'X':
				// the destination is itself a Subscriber that cancels itself at its first value
				r := rt.NewRecorder[int]()
				recs[o.Id] = r
				selfCancel[o.Id] = true
				dst := ro.NewSubscriber[int](r)
				r.Hook = func(k byte, _ ctxT, v any, err error) {
					if k == 'N' {
						dst.Unsubscribe()
					}
				}
				if c.Subject.Kind == "unicast" && m.Status == 0 && m.Backlog() > 0 && m.Observers() == 0 {
					// listed finding C10-unicast-self-unsubscribe-deadlock: reproduced only by
					// the saved replay (it costs a watchdog period), excluded here by construction
					if !c.KeepDeadlock {
						rt.Excluded(1)
						abort = true
						return
					}
				}
				done := make(chan ro.Subscription, 1)
				go func() { done <- s.Subscribe(dst) }()
				select {
				case sub := <-done:
					subs[o.Id] = sub
				case <-time.After(5 * time.Second):
					deadlocked = true
					return
				}
				m.Subscribe(o.Id)
				legacy.Subscribe(o.Id)
			case 'U':
				subs[o.Id].Unsubscribe()
				m.Unsubscribe(o.Id)
				legacy.Unsubscribe(o.Id)
			}
		}()
		// self-cancelling subscribers leave at their first value: nothing after it is delivered
		for id := range selfCancel {
			for _, mm := range []*model.Subject{m, legacy} {
				log := mm.Logs[id]
				for i, n := range log {
					if n.K == 'N' {
						mm.Logs[id] = log[:i+1]
						mm.Unsubscribe(id)
						break
					}
				}
			}
		}
		where := fmt.Sprintf("%s after [%s] (step %d of [%s])", name, opsString(c.Ops[:step+1]), step, opsString(c.Ops))
		if abort {
			return
		}
		if stuck != "" {
			fail("subject-stuck-when-a-subscriber-leaves-during-delivery", fmt.Sprintf("%s: %s did not return within 5s (a subscriber unsubscribes itself at its first value)", where, stuck))
			return
		}
		if deadlocked {
			fail("self-unsubscribe-during-replay-deadlocks", fmt.Sprintf("%s: Subscribe with a destination Subscriber that unsubscribes itself at the first replayed value did not return within 5s", where))
			return
		}
		if pan != nil {
			fail("panic", fmt.Sprintf("%s: %v", where, pan))
			return
		}
		for id, r := range recs {
			got := notifsOf(r)
			want := m.Logs[id]
			if !(len(got) == 0 && len(want) == 0) && !reflect.DeepEqual(got, want) {
				class := "subscriber-log-differs"
				if c.Subject.Kind == "unicast" && (reflect.DeepEqual(got, legacy.Logs[id]) || (len(got) == 0 && len(legacy.Logs[id]) == 0)) {
					class = "unicast-backlog-not-replayed-after-termination"
				}
				fail(class, fmt.Sprintf("%s: subscriber %d received %v, the definition says %v", where, id, got, want))
				return
			}
			if g := r.Grammar(); g != "" {
				fail("grammar", where+": "+g)
				return
			}
		}
		if s.CountObservers() != m.Observers() || s.HasObserver() != (m.Observers() > 0) {
			fail("observer-count", fmt.Sprintf("%s: CountObservers()=%d HasObserver()=%v, the definition says %d", where, s.CountObservers(), s.HasObserver(), m.Observers()))
			return
		}
		if s.IsClosed() != (m.Status != 0) || s.HasThrown() != (m.Status == 'E') || s.IsCompleted() != (m.Status == 'C') {
			fail("status-flags", fmt.Sprintf("%s: IsClosed=%v HasThrown=%v IsCompleted=%v, the definition says status %q", where, s.IsClosed(), s.HasThrown(), s.IsCompleted(), m.Status))
			return
		}
	}
}

// enumOps enumerates operation sequences with symmetry reduction: subscriber ids
// are introduced in order, Unsubscribe only addresses a subscribed id once, at
// most two operations follow a terminal.
func enumOps(maxLen, maxSubs int, withSelfCancel bool, visit func(ops []sop)) {
	var rec func(ops []sop, nextId int, subscribed map[int]bool, afterTerm int, terminated bool)
	rec = func(ops []sop, nextId int, subscribed map[int]bool, afterTerm int, terminated bool) {
		visit(ops)
		if len(ops) == maxLen || (terminated && afterTerm >= 2) {
			return
		}
		ext := func(o sop, f func()) {
			nops := append(append([]sop(nil), ops...), o)
			f2 := f
			_ = f2
			at := afterTerm
			if terminated {
				at++
			}
			switch o.K {
			case 'S', 'X':
				ns := map[int]bool{}
				for k, v := range subscribed {
					ns[k] = v
				}
				ns[o.Id] = true
				rec(nops, nextId+1, ns, at, terminated)
			case 'U':
				ns := map[int]bool{}
				for k, v := range subscribed {
					ns[k] = v
				}
				delete(ns, o.Id)
				rec(nops, nextId, ns, at, terminated)
			case 'E', 'C':
				rec(nops, nextId, subscribed, at, true)
			default:
				rec(nops, nextId, subscribed, at, terminated)
			}
		}
		ext(sop{K: 'N', V: 1}, nil)
		ext(sop{K: 'N', V: 2}, nil)
		ext(sop{K: 'E'}, nil)
		ext(sop{K: 'C'}, nil)
		if nextId < maxSubs {
			ext(sop{K: 'S', Id: nextId}, nil)
			if withSelfCancel {
				ext(sop{K: 'X', Id: nextId}, nil)
			}
		}
		for id := 0; id < nextId; id++ {
			if subscribed[id] {
				ext(sop{K: 'U', Id: id}, nil)
			}
		}
	}
	rec(nil, 0, map[int]bool{}, 0, false)
}

func c10NonTrivial(ops []sop) bool {
	seenEnd := false
	for _, o := range ops {
		if o.K == 'E' || o.K == 'C' || o.K == 'U' {
			seenEnd = true
		}
		if o.K == 'S' && seenEnd {
			return true
		}
	}
	return false
}

func TestC10_SequentialEnumerated(t *testing.T) {
	maxLen := 5
	if rt.Thorough() {
		maxLen = 7
	}
	idx := 0
	for _, k := range subjectKinds {
		enumOps(maxLen, 3, false, func(ops []sop) {
			idx++
			if !rt.Mine(idx) || len(ops) == 0 {
				return
			}
			c := c10Case{Subject: k, Ops: append([]sop(nil), ops...)}
			c10Run(t, c)
			rt.Case(caseKey("seq", k, opsString(ops)), c10NonTrivial(ops), "subject:"+k.Kind, func() any { return c })
		})
	}
	// second pass: subscribers that are themselves Subscribers and cancel at their first value
	for _, k := range subjectKinds {
		enumOps(maxLen-1, 2, true, func(ops []sop) {
			hasX := false
			for _, o := range ops {
				if o.K == 'X' {
					hasX = true
				}
			}
			idx++
			if !hasX || !rt.Mine(idx) {
				return
			}
			c := c10Case{Subject: k, Ops: append([]sop(nil), ops...)}
			c10Run(t, c)
			rt.Case(caseKey("seqx", k, opsString(ops)), true, "subject-selfcancel:"+k.Kind, func() any { return c })
		})
	}
	rt.Note("enumerated_scope", fmt.Sprintf("11 subject kind/size combinations x every operation sequence of length <= %d over {Next 1, Next 2, Error, Complete, Subscribe i, Unsubscribe i} (i < 3), ids introduced in order, at most two operations after a terminal", maxLen))
}

func TestC10_SequentialRandom(t *testing.T) {
	rapid.Check(t, func(t *rapid.T) {
		k := subjectKinds[rapid.IntRange(0, len(subjectKinds)-1).Draw(t, "kind")]
		n := rapid.IntRange(1, 40).Draw(t, "len")
		ops := make([]sop, 0, n)
		next := 0
		subscribed := []int{}
		for i := 0; i < n; i++ {
			switch rapid.IntRange(0, 9).Draw(t, "op") {
			case 0, 1, 2, 3:
				ops = append(ops, sop{K: 'N', V: rapid.IntRange(1, 5).Draw(t, "v")})
			case 4:
				if rapid.IntRange(0, 3).Draw(t, "term") == 0 {
					ops = append(ops, sop{K: 'E'})
				} else {
					ops = append(ops, sop{K: 'N', V: 9})
				}
			case 5:
				if rapid.IntRange(0, 3).Draw(t, "term") == 0 {
					ops = append(ops, sop{K: 'C'})
				} else {
					ops = append(ops, sop{K: 'N', V: 8})
				}
			case 6, 7:
				ops = append(ops, sop{K: 'S', Id: next})
				subscribed = append(subscribed, next)
				next++
			default:
				if len(subscribed) > 0 {
					j := rapid.IntRange(0, len(subscribed)-1).Draw(t, "which")
					ops = append(ops, sop{K: 'U', Id: subscribed[j]})
					subscribed = append(subscribed[:j], subscribed[j+1:]...)
				}
			}
		}
		c := c10Case{Subject: k, Ops: ops}
		c10Run(t, c)
		rt.Case(caseKey("seqrand", k, opsString(ops)), c10NonTrivial(ops), "random:"+k.Kind, func() any { return c })
	})
}
