package checks

import (
	"encoding/json"
	"fmt"
	"reflect"
	"testing"

	"github.com/samber/ro"
	"pgregory.net/rapid"
	"verifharness/rt"
)

// C10, parametricity: a subject of an interface element type, fed values of different
// dynamic types with nil among them, gives every subscriber what the int subject gives
// (dress / undress as in c05_anyvals_test.go). Replay buffers, the behaviour subject's
// "latest" slot and the async subject's "final value" are the places where a value is
// stored; none may care about its dynamic type or take nil for "nothing stored".

func newSubjectOf[T any](k subjectKind, initial T) ro.Subject[T] {
	switch k.Kind {
	case "publish":
		return ro.NewPublishSubject[T]()
	case "behavior":
		return ro.NewBehaviorSubject[T](initial)
	case "replay":
		return ro.NewReplaySubject[T](k.Size)
	case "async":
		return ro.NewAsyncSubject[T]()
	case "unicast":
		return ro.NewUnicastSubject[T](k.Size)
	}
	panic("kind " + k.Kind)
}

type c10AnyCase struct {
	Subject subjectKind `json:"subject"`
	Ops     []sop       `json:"ops"`
}

func c10AnyPlay[T any](k subjectKind, ops []sop, dv func(int) T, back func(T) int) (logs map[int][]string, pan any) {
	logs = map[int][]string{}
	defer func() { pan = recover() }()
	rt.NewSink()
	s := newSubjectOf[T](k, dv(2)) // the behaviour subject starts with the value that is dressed as nil
	subs := map[int]ro.Subscription{}
	for _, o := range ops {
		switch o.K {
		case 'N':
			s.Next(dv(o.V))
		case 'E':
			s.Error(rt.Err(1))
		case 'C':
			s.Complete()
		case 'S':
			id := o.Id
			subs[id] = s.Subscribe(ro.NewObserver(
				func(v T) { logs[id] = append(logs[id], fmt.Sprint("N", back(v))) },
				func(err error) { logs[id] = append(logs[id], "E") },
				func() { logs[id] = append(logs[id], "C") }))
		case 'U':
			if sub, ok := subs[o.Id]; ok {
				sub.Unsubscribe()
			}
		}
	}
	return logs, nil
}

func init() {
	replayers["subject-interface-element-type"] = func(t *testing.T, raw json.RawMessage) {
		var c c10AnyCase
		if err := json.Unmarshal(raw, &c); err != nil {
			t.Fatal(err)
		}
		c10AnyJudge(t, c)
	}
}

func c10AnyJudge(tb rt.TB, c c10AnyCase) {
	k, ops := c.Subject, c.Ops
	want, p1 := c10AnyPlay[int](k, ops, func(v int) int { return v }, func(v int) int { return v })
	got, p2 := c10AnyPlay[any](k, ops, dress, func(v any) int { x, _ := undress(v).(int); return x })
	name := k.String()
	if p1 == nil && p2 != nil {
		rt.Report(tb, rt.Failure{Property: "C10", Check: "subject-interface-element-type", Op: name, Class: "panic-escaped", Msg: fmt.Sprintf("%s[any] after [%s] with values of mixed dynamic types: %v", name, opsString(ops), p2), Case: c})
	} else if p1 == nil && !reflect.DeepEqual(want, got) {
		rt.Report(tb, rt.Failure{Property: "C10", Check: "subject-interface-element-type", Op: name, Class: "subscriber-logs-depend-on-dynamic-types", Msg: fmt.Sprintf("%s after [%s]: the int subject gives %v, the subject of an interface type over the same values dressed as nil / int / string / struct gives %v", name, opsString(ops), want, got), Case: c})
	}
}

func TestC10_InterfaceElementType(t *testing.T) {
	currentT = t
	rapid.Check(t, func(rt_ *rapid.T) {
		k := rapid.SampledFrom(subjectKinds).Draw(rt_, "kind")
		n := rapid.IntRange(1, 9).Draw(rt_, "ops")
		var ops []sop
		ids := 0
		for i := 0; i < n; i++ {
			switch rapid.SampledFrom([]byte{'N', 'N', 'N', 'S', 'S', 'U', 'C', 'E'}).Draw(rt_, "op") {
			case 'N':
				ops = append(ops, sop{K: 'N', V: rapid.IntRange(1, 6).Draw(rt_, "v")})
			case 'S':
				if k.Kind == "unicast" && ids > 0 {
					continue // one subscriber at a time; the sequential check covers the refusal
				}
				ops = append(ops, sop{K: 'S', Id: ids})
				ids++
			case 'U':
				if ids > 0 {
					ops = append(ops, sop{K: 'U', Id: rapid.IntRange(0, ids-1).Draw(rt_, "id")})
				}
			case 'C':
				ops = append(ops, sop{K: 'C'})
			case 'E':
				ops = append(ops, sop{K: 'E'})
			}
		}
		c := c10AnyCase{Subject: k, Ops: ops}
		c10AnyJudge(rt_, c)
		name := k.String()
		nt := false
		for _, o := range ops {
			if o.K == 'N' && o.V == 2 {
				nt = true // a nil value went through
			}
		}
		rt.Case(caseKey("c10any", name, opsString(ops)), nt, "interface-element-type:"+k.Kind, func() any { return c })
	})
}
