package checks

import (
	"context"
	"encoding/json"
	"fmt"
	"sync"
	"testing"
	"time"

	"github.com/samber/ro"
	"pgregory.net/rapid"
	"verifharness/rt"
)

// C02 for operators that notify from a goroutine of their own (a timer, a
// ticker, a context watcher, a hand-off consumer): ONE producer emits while the
// operator's goroutine has something to say. Real time, real goroutines; the
// recording observer dwells in its callbacks so that the other party arrives
// while a delivery is in progress. An overlap is a violation whenever it is
// seen; not seeing one proves nothing about schedules that did not occur.

type c02Internal struct {
	Op       string `json:"op"`
	DUs      int    `json:"d_us"`      // operator duration (timeout, delay, period)
	N        int    `json:"n"`         // values emitted by the producer
	GapUs    int    `json:"gap_us"`    // pause between two values
	DwellUs  int    `json:"dwell_us"`  // time spent inside each observer callback
	CancelUs int    `json:"cancel_us"` // cancel the subscription context after this long (-1: never)
	End      byte   `json:"end"`
	Reps     int    `json:"reps"`
}

func init() {
	replayers["overlap-internal"] = func(t *testing.T, raw json.RawMessage) {
		var c c02Internal
		if err := json.Unmarshal(raw, &c); err != nil {
			t.Fatal(err)
		}
		c.Reps *= 20
		c02InternalRun(t, c, false)
	}
}

var c02InternalOps = []string{"ThrowOnContextCancel", "Timeout", "Delay", "DelayEach", "SampleTime", "ThrottleTime", "BufferWithTime", "BufferWithTimeOrCount", "ObserveOn", "SubscribeOn",
	"WindowWhenInterval", "MergeInterval", "TakeUntilTimer", "Timeout>Map", "Delay>Scan", "ThrowOnContextCancel>Map"}

func c02InternalBuild(op string, d time.Duration, src ro.Observable[int]) ro.Observable[int] {
	lenOf := func(o ro.Observable[[]int]) ro.Observable[int] { return ro.Map(func(b []int) int { return len(b) })(o) }
	switch op {
	case "ThrowOnContextCancel":
		return ro.ThrowOnContextCancel[int]()(src)
	case "ThrowOnContextCancel>Map":
		return ro.Map(func(x int) int { return x })(ro.ThrowOnContextCancel[int]()(src))
	case "Timeout":
		return ro.Timeout[int](d)(src)
	case "Timeout>Map":
		return ro.Map(func(x int) int { return x })(ro.Timeout[int](d)(src))
	case "Delay":
		return ro.Delay[int](d)(src)
	case "Delay>Scan":
		return ro.Scan(func(a, x int) int { return a + x }, 0)(ro.Delay[int](d)(src))
	case "DelayEach":
		return ro.DelayEach[int](d)(src)
	case "SampleTime":
		return ro.SampleTime[int](d)(src)
	case "ThrottleTime":
		return ro.ThrottleTime[int](d)(src)
	case "BufferWithTime":
		return lenOf(ro.BufferWithTime[int](d)(src))
	case "BufferWithTimeOrCount":
		return lenOf(ro.BufferWithTimeOrCount[int](2, d)(src))
	case "ObserveOn":
		return ro.ObserveOn[int](2)(src)
	case "SubscribeOn":
		return ro.SubscribeOn[int](2)(src)
	case "WindowWhenInterval":
		return ro.MergeAll[int]()(ro.WindowWhen[int, int64](ro.Interval(d))(src))
	case "MergeInterval":
		return ro.Merge(src, ro.Map(func(x int64) int { return int(x) })(ro.Interval(d)))
	case "TakeUntilTimer":
		return ro.TakeUntil[int, time.Duration](ro.Timer(d))(src)
	}
	panic("unknown op " + op)
}

func c02InternalRun(t rt.TB, c c02Internal, quiet bool) {
	for rep := 0; rep < c.Reps; rep++ {
		man := rt.NewManual("src", rt.CtorUnsafeCtx)
		obs := c02InternalBuild(c.Op, time.Duration(c.DUs)*time.Microsecond, man.Observable())
		rec := rt.NewRecorder[int]()
		var observer ro.Observer[int] = rec
		if quiet {
			sum := 0
			nap := func() {
				if c.DwellUs > 0 {
					time.Sleep(time.Duration(c.DwellUs) * time.Microsecond) // sleeping orders nothing for the race detector
				}
			}
			observer = ro.NewObserver(func(v int) { sum += v; nap() }, func(error) { nap() }, func() { nap() })
		} else if c.DwellUs > 0 {
			rec.Hook = func(k byte, _ context.Context, v any, err error) { time.Sleep(time.Duration(c.DwellUs) * time.Microsecond) }
		}
		ctx, cancel := context.WithCancel(context.Background())
		subDone := make(chan ro.Subscription, 1)
		go func() {
			defer func() { recover() }()
			subDone <- obs.SubscribeWithContext(ctx, observer)
		}()
		var sub ro.Subscription
		select {
		case sub = <-subDone:
		case <-time.After(2 * time.Millisecond):
		}
		var wg sync.WaitGroup
		wg.Add(1)
		go func() {
			defer wg.Done()
			for i := 1; i <= c.N; i++ {
				man.Emit(rt.N(i))
				if c.GapUs > 0 {
					time.Sleep(time.Duration(c.GapUs) * time.Microsecond)
				}
			}
			switch c.End {
			case 'C':
				man.Emit(rt.C())
			case 'E':
				man.Emit(rt.E(1))
			}
		}()
		if c.CancelUs >= 0 {
			wg.Add(1)
			go func() {
				defer wg.Done()
				time.Sleep(time.Duration(c.CancelUs) * time.Microsecond)
				cancel()
			}()
		}
		wg.Wait()
		time.Sleep(time.Duration(2*c.DUs+2*c.DwellUs+50) * time.Microsecond)
		if sub == nil {
			select {
			case sub = <-subDone:
			case <-time.After(50 * time.Millisecond):
			}
		}
		if sub != nil {
			sub.Unsubscribe()
		}
		cancel()
		if quiet {
			continue
		}
		if o := rec.Overlap(); o != "" {
			rt.Report(t, rt.Failure{Property: "C02", Check: "overlap-internal", Op: c.Op, Class: "callbacks-overlap", Msg: fmt.Sprintf("%s (d=%dµs), one producer against the operator's own goroutine (repetition %d): %s", c.Op, c.DUs, rep, o), Case: c})
			return
		}
		if g := rec.Grammar(); g != "" {
			rt.Report(t, rt.Failure{Property: "C02", Check: "overlap-internal", Op: c.Op, Class: "grammar-under-concurrency", Msg: fmt.Sprintf("%s (d=%dµs) (repetition %d): %s", c.Op, c.DUs, rep, g), Case: c})
			return
		}
	}
}

func TestC02_InternalGoroutines(t *testing.T) {
	reps := 6
	if rt.Thorough() {
		reps = 60
	}
	rapid.Check(t, func(t *rapid.T) {
		c := c02Internal{
			Op:       rapid.SampledFrom(c02InternalOps).Draw(t, "op"),
			DUs:      rapid.SampledFrom([]int{50, 150, 400}).Draw(t, "d"),
			N:        rapid.IntRange(1, 6).Draw(t, "n"),
			GapUs:    rapid.SampledFrom([]int{0, 40, 120}).Draw(t, "gap"),
			DwellUs:  rapid.SampledFrom([]int{30, 100, 300}).Draw(t, "dwell"),
			CancelUs: rapid.SampledFrom([]int{-1, 0, 60, 200}).Draw(t, "cancel"),
			End:      rapid.SampledFrom([]byte{'C', 'E', 0}).Draw(t, "end"),
			Reps:     reps,
		}
		c02InternalRun(t, c, false)
		rt.Case(caseKey("overlapint", c.Op, c.DUs, c.N, c.GapUs, c.DwellUs, c.CancelUs, c.End), true, "internal:"+c.Op, func() any { return c })
	})
}
