package checks

import (
	"context"
	"encoding/json"
	"fmt"
	"strings"
	"sync"
	"testing"
	"testing/synctest"
	"time"

	"github.com/samber/lo"
	"github.com/samber/ro"
	"pgregory.net/rapid"
	"verifharness/cat"
	"verifharness/model"
	"verifharness/rt"
)

// C09 for the operators that store or hand off notifications: delays, time
// buffers, samplers, throttles, Timeout, ObserveOn / SubscribeOn, zip and
// combine-latest. Virtual time; the source attaches a per-item context, a marker
// is attached at subscription and (optionally) by ContextWithValue upstream.

type c09tCase struct {
	Op   string `json:"op"`
	D    int    `json:"d_ms"`
	N    int    `json:"n,omitempty"`
	Gaps []int  `json:"gaps_ms"`
	End  byte   `json:"end,omitempty"`
	Pre  string `json:"pre,omitempty"`
	Ctx  string `json:"ctx"`
}

func init() {
	replayers["context-timed"] = func(t *testing.T, raw json.RawMessage) {
		var c c09tCase
		if err := json.Unmarshal(raw, &c); err != nil {
			t.Fatal(err)
		}
		c09tRun(t, t, c)
	}
}

type c09tRec struct {
	K   byte
	V   any
	Ctx context.Context
	Err error
	Nil bool
	At  time.Duration
}

// value-preserving rows: an output value v derives from source item v-1 and
// must arrive with that item's context.
var c09tPreserving = map[string]bool{"Delay": true, "DelayEach": true, "Timeout": true, "SampleTime": true, "ThrottleTime": true, "ObserveOn": true, "SubscribeOn": true,
	"ObserveOn|Delay": true, "Delay|ObserveOn": true, "SubscribeOn|Timeout": true}

var c09tMulti = map[string]bool{"ZipWithTimer": true, "CombineLatestWithInterval": true, "WindowWhenInterval": true}

var c09tOps = []string{"Delay", "DelayEach", "Timeout", "SampleTime", "ThrottleTime", "ObserveOn", "SubscribeOn", "BufferWithTime", "BufferWithTimeOrCount",
	"ObserveOn|Delay", "Delay|ObserveOn", "SubscribeOn|Timeout", "ZipWithTimer", "CombineLatestWithInterval", "WindowWhenInterval"}

func c09tBuild(op string, d time.Duration, n int, src ro.Observable[int]) ro.Observable[any] {
	if strings.Contains(op, "|") {
		parts := strings.Split(op, "|")
		o := src
		for _, p := range parts {
			switch p {
			case "Delay":
				o = ro.Delay[int](d)(o)
			case "ObserveOn":
				o = ro.ObserveOn[int](n+1)(o)
			case "SubscribeOn":
				o = ro.SubscribeOn[int](n+1)(o)
			case "Timeout":
				o = ro.Timeout[int](d)(o)
			}
		}
		return anyObs(o)
	}
	switch op {
	case "Delay":
		return anyObs(ro.Delay[int](d)(src))
	case "DelayEach":
		return anyObs(ro.DelayEach[int](d)(src))
	case "Timeout":
		return anyObs(ro.Timeout[int](d)(src))
	case "SampleTime":
		return anyObs(ro.SampleTime[int](d)(src))
	case "ThrottleTime":
		return anyObs(ro.ThrottleTime[int](d)(src))
	case "ObserveOn":
		return anyObs(ro.ObserveOn[int](n+1)(src))
	case "SubscribeOn":
		return anyObs(ro.SubscribeOn[int](n+1)(src))
	case "BufferWithTime":
		return anyObs(ro.BufferWithTime[int](d)(src))
	case "BufferWithTimeOrCount":
		return anyObs(ro.BufferWithTimeOrCount[int](n+1, d)(src))
	case "ZipWithTimer":
		return anyObs(ro.Map(func(t lo.Tuple2[int, int64]) int { return t.A })(ro.ZipWith[int](ro.Interval(d))(src)))
	case "CombineLatestWithInterval":
		return anyObs(ro.Map(func(t lo.Tuple2[int, int64]) int { return t.A })(ro.CombineLatestWith[int](ro.Interval(d))(src)))
	case "WindowWhenInterval":
		return anyObs(ro.Pipe2(src, ro.WindowWhen[int, int64](ro.Interval(d)), ro.MergeAll[int]()))
	}
	panic("unknown op " + op)
}

func c09tRun(tb rt.TB, t *testing.T, c c09tCase) {
	var failure *rt.Failure
	fail := func(class, msg string) {
		if failure == nil {
			failure = &rt.Failure{Property: "C09", Check: "context-timed", Op: c.Op, Class: class, Msg: msg, Case: c}
		}
	}
	id := 977
	problem := bubble(t, func() {
		rt.NewSink()
		start := time.Now()
		ctx0, cancel0 := c09Context(c.Ctx, id)
		defer cancel0()
		ctx, cancel := context.WithCancel(ctx0)
		defer cancel()
		var mu sync.Mutex
		var recs []c09tRec
		rec := rt.NewRecorder[any]()
		rec.Hook = func(k byte, cx context.Context, v any, err error) {
			mu.Lock()
			recs = append(recs, c09tRec{K: k, V: v, Ctx: cx, Err: err, Nil: cx == nil, At: time.Since(start)})
			mu.Unlock()
		}
		man := rt.NewManual("src", rt.CtorUnsafeCtx)
		var src ro.Observable[int] = man.Observable()
		if c.Pre == "ContextWithValue" {
			src = ro.ContextWithValue[int](c09M, true)(src)
		}
		obs := c09tBuild(c.Op, ms(c.D), c.N, src)
		returned := make(chan struct{})
		var sub ro.Subscription
		go func() {
			defer close(returned)
			defer func() {
				if r := recover(); r != nil {
					fail("panic-escaped", fmt.Sprint(r))
				}
			}()
			sub = obs.SubscribeWithContext(ctx, rec)
		}()
		synctest.Wait()
		emittedBefore := func(at time.Duration, times []time.Duration) int {
			n := 0
			for _, x := range times {
				if x < at { // strictly: an item issued at the very instant the timer fires may come second
					n++
				}
			}
			return n
		}
		var times []time.Duration
		var total time.Duration
		for i, g := range c.Gaps {
			time.Sleep(ms(g))
			total += ms(g)
			mu.Lock()
			times = append(times, time.Since(start))
			mu.Unlock()
			man.Emit(rt.N(i + 1))
			synctest.Wait()
		}
		switch c.End {
		case 'C':
			man.Emit(rt.C())
		case 'E':
			man.Emit(rt.E(1))
		}
		time.Sleep(ms(3*c.D + 10))
		synctest.Wait()
		mu.Lock()
		got := append([]c09tRec(nil), recs...)
		mu.Unlock()
		// source subscribed with the subscription context
		for i, sc := range man.SubCtxs {
			if sc == nil || sc.Value(rt.SubKey) != id {
				fail("source-not-subscribed-with-subscription-context", fmt.Sprintf("%s: source subscription #%d got context %v", c.Op, i, sc))
			}
		}
		for i, r := range got {
			kind := map[byte]string{'N': "Next", 'E': "Error", 'C': "Complete"}[r.K]
			if r.Nil {
				fail("nil-context-on-"+kind, fmt.Sprintf("%s: callback #%d %s at %v received a nil context", c.Op, i, kind, r.At))
				break
			}
			if r.Ctx.Value(rt.SubKey) != id {
				fail("subscription-marker-lost-on-"+kind, fmt.Sprintf("%s (d=%dms, gaps %v): callback #%d %s(%v) at %v: the value attached at SubscribeWithContext is not visible", c.Op, c.D, c.Gaps, i, kind, r.V, r.At))
				break
			}
			if r.K == 'N' && c09tPreserving[c.Op] {
				v, _ := cat.Norm(r.V).(int)
				if it, ok := r.Ctx.Value(rt.ItemKey).(int); !ok || it != v-1 {
					fail("item-context-of-another-item", fmt.Sprintf("%s (d=%dms, gaps %v): output #%d (value %v) derives from source item %d but carries the context of item %v", c.Op, c.D, c.Gaps, i, r.V, v-1, r.Ctx.Value(rt.ItemKey)))
					break
				}
				if c.Pre == "ContextWithValue" && r.Ctx.Value(c09M) == nil {
					fail("upstream-marker-lost-on-Next", fmt.Sprintf("%s below ContextWithValue (d=%dms, gaps %v): output #%d (value %v): the value attached upstream is not visible", c.Op, c.D, c.Gaps, i, r.V))
					break
				}
			}
			if r.K != 'N' && c.Pre == "ContextWithValue" && !c09tMulti[c.Op] && r.Ctx.Value(c09M) == nil {
				// A terminal notification forwarded from the source carries the value
				// attached upstream. One that the operator raises itself (Timeout) cannot
				// know of it before a first notification went through; from then on it is
				// expected to carry what the latest item carried. With several sources the
				// marked one need not be the one that ends the output: not demanded.
				seen := emittedBefore(r.At, times)
				own := r.K == 'E' && r.Err != nil && cat.ErrKey(r.Err) == model.ErrTimeout
				if !own || seen > 0 {
					fail("upstream-marker-lost-on-"+kind, fmt.Sprintf("%s below ContextWithValue (d=%dms, gaps %v, end %c): %s(%v) at %v after %d items: the value attached upstream is not visible", c.Op, c.D, c.Gaps, c.End, kind, r.Err, r.At, seen))
					break
				}
			}
		}
		cancel()
		man.Emit(rt.C())
		synctest.Wait()
		select {
		case <-returned:
			if sub != nil {
				sub.Unsubscribe()
			}
		default:
		}
		time.Sleep(ms(5*c.D + 20))
		synctest.Wait()
	})
	if problem != "" && failure == nil {
		fail("bubble-problem", problem)
	}
	if failure != nil {
		rt.Report(tb, *failure)
	}
}

func TestC09_TimedAndHandoff(t *testing.T) {
	currentT = t
	rapid.Check(t, func(rt_ *rapid.T) {
		c := c09tCase{
			Op:  rapid.SampledFrom(c09tOps).Draw(rt_, "op"),
			D:   rapid.SampledFrom([]int{1, 5, 20}).Draw(rt_, "d"),
			N:   rapid.IntRange(0, 3).Draw(rt_, "n"),
			End: rapid.SampledFrom([]byte{'C', 'E', 0}).Draw(rt_, "end"),
			Pre: rapid.SampledFrom([]string{"", "ContextWithValue"}).Draw(rt_, "pre"),
			Ctx: rapid.SampledFrom([]string{"value", "cancel", "deadline", "custom"}).Draw(rt_, "ctx"),
		}
		k := rapid.IntRange(0, 6).Draw(rt_, "items")
		for i := 0; i < k; i++ {
			c.Gaps = append(c.Gaps, rapid.SampledFrom([]int{0, 1, 3, 7, 25, 60}).Draw(rt_, "gap"))
		}
		c09tRun(rt_, t, c)
		rt.Case(caseKey("ctxtimed", c.Op, c.D, c.N, c.Gaps, c.End, c.Pre), len(c.Gaps) >= 2, "timed:"+c.Op, func() any { return c })
	})
}
