package checks

import (
	"context"
	"encoding/json"
	"fmt"
	"os"
	"strings"
	"testing"
	"testing/synctest"
	"time"

	"github.com/samber/ro"
	"pgregory.net/rapid"
	"verifharness/cat"
	"verifharness/rt"
)

// C14 — downstream termination cancels upstream without waiting for it.

type c14Case struct {
	Links  []cat.Link `json:"chain"`     // stages between the never-ending source and the terminator
	Term   string     `json:"terminator"` // Take First Head ElementAt TakeWhile TakeUntil MapErr Unsubscribe ContextCancel
	At     int        `json:"at"`         // the terminator fires at the At-th value that reaches it (1-based)
	Time   string     `json:"time_stage,omitempty"`
}

func init() {
	replayers["cancel-upstream"] = func(t *testing.T, raw json.RawMessage) {
		var c c14Case
		if err := json.Unmarshal(raw, &c); err != nil {
			t.Fatal(err)
		}
		c14Run(t, c)
	}
}

// blockingOps wait inside their subscribe function (listed finding C14-blocking-subscribe).
var c14Blocking = map[string]bool{"FlatMap": true, "OnErrorResumeNextWith": true, "Retry": true, "RepeatWith": true, "DoWhile": true, "While": true, "ConcatWith": true, "SubscribeOn": true}

func c14Run(t *testing.T, c c14Case) { c14RunTB(t, t, c) }

// c14RunTB reports to tb (a *testing.T or a *rapid.T) and runs its bubble under tt.
func c14RunTB(tb rt.TB, t *testing.T, c c14Case) {
	name := chainName(c.Links)
	if c.Time != "" {
		name = c.Time
	}
	var failure *rt.Failure
	fail := func(class, msg string) {
		if failure == nil {
			op := name
			for _, l := range c.Links {
				if c14Blocking[l.Op] {
					op = l.Op
				}
			}
			failure = &rt.Failure{Property: "C14", Check: "cancel-upstream", Op: op, Class: class, Msg: msg, Case: c}
		}
	}
	if os.Getenv("VERIF_TRACE") == "1" {
		b, _ := json.Marshal(c)
		fmt.Fprintf(os.Stderr, "TRACE %s\n", b)
	}
	problem := bubble(t, func() {
		rt.NewSink()
		ctx, cancel := context.WithCancel(context.Background())
		defer cancel()
		man := rt.NewManual("src", rt.CtorUnsafeCtx)
		signal := rt.NewManual("signal", rt.CtorUnsafeCtx)
		other := rt.NewManual("other", rt.CtorUnsafeCtx)
		env := cat.NewEnv()
		var mid ro.Observable[int] = man.Observable()
		switch c.Time {
		case "":
			if len(c.Links) > 0 {
				mid = cutBuild(c.Links, env)(mid)
			}
		case "Delay":
			mid = ro.Delay[int](5 * time.Millisecond)(mid)
		case "ObserveOn":
			mid = ro.ObserveOn[int](2)(mid)
		case "SubscribeOn":
			mid = ro.SubscribeOn[int](2)(mid)
		case "SampleTime":
			mid = ro.SampleTime[int](3 * time.Millisecond)(mid)
		case "BufferWithTime|Flatten":
			mid = ro.Flatten[int]()(ro.BufferWithTime[int](3 * time.Millisecond)(mid))
		case "Timeout":
			mid = ro.Timeout[int](time.Hour)(mid)
		case "DelayEach":
			mid = ro.DelayEach[int](time.Millisecond)(mid)
		case "MergeInterval":
			mid = ro.Merge(mid, ro.Map(func(x int64) int { return int(x) + 1000 })(ro.Interval(2*time.Millisecond)))
		case "ThrowOnContextCancel":
			mid = ro.ThrowOnContextCancel[int]()(mid)
		case "ContextWithTimeout":
			mid = ro.ContextWithTimeout[int](time.Hour)(mid)
		default:
			if strings.HasPrefix(c.Time, "multi:") {
				// a multi-source stage over two never-ending sources
				top := strings.TrimPrefix(c.Time, "multi:")
				switch top {
				case "GroupBy|MergeAll":
					mid = ro.MergeAll[int]()(ro.GroupBy(func(x int) int { return x % 2 })(mid))
				case "WindowWhen|MergeAll":
					mid = ro.MergeAll[int]()(ro.WindowWhen[int, int](other.Observable())(mid))
				case "MergeMap":
					mid = ro.MergeMap(func(x int) ro.Observable[int] { return other.Observable() })(mid)
				default:
					mid = ro.Map(encAny)(mrowByName(top).Build([]ro.Observable[int]{mid, other.Observable()}))
				}
			}
		}
		var obs ro.Observable[int]
		n := int64(c.At)
		switch c.Term {
		case "Take":
			obs = ro.Take[int](n)(mid)
		case "First":
			seen := 0
			obs = ro.First(func(x int) bool { seen++; return seen >= c.At })(mid)
		case "Head":
			obs = ro.Head[int]()(mid)
		case "ElementAt":
			obs = ro.ElementAt[int](c.At - 1)(mid)
		case "TakeWhile":
			seen := 0
			obs = ro.TakeWhile(func(x int) bool { seen++; return seen < c.At })(mid)
		case "TakeUntil":
			obs = ro.TakeUntil[int, int](signal.Observable())(mid)
		case "MapErr":
			seen := 0
			obs = ro.MapErr(func(x int) (int, error) {
				seen++
				if seen >= c.At {
					return 0, rt.Err(7)
				}
				return x, nil
			})(mid)
		default:
			obs = mid
		}
		rec := rt.NewRecorder[int]()
		returned := make(chan struct{})
		var sub ro.Subscription
		go func() {
			defer close(returned)
			defer func() {
				if r := recover(); r != nil {
					fail("panic-escaped", fmt.Sprint(r))
				}
			}()
			sub = obs.SubscribeWithContext(ctx, rec)
		}()
		synctest.Wait()
		desc := fmt.Sprintf("never-ending source |> %s |> %s(at %d)", name, c.Term, c.At)
		terminated := func() bool { return rec.Trace().End != 0 }
		didReturn := func() bool {
			select {
			case <-returned:
				return true
			default:
				return false
			}
		}
		// feed values until the downstream side has terminated (bounded)
		pushes := 0
		for v := 1; v <= 12 && !terminated(); v++ {
			if man.LiveDests() == 0 {
				break
			}
			man.Emit(rt.N(v))
			pushes++
			synctest.Wait()
			if other.LiveDests() > 0 && c.Time != "multi:Race" && c.Time != "multi:RaceWith" && c.Time != "multi:TakeUntil" {
				other.Emit(rt.N(v + 100))
				synctest.Wait()
			}
			time.Sleep(10 * time.Millisecond) // virtual: lets time-driven stages deliver
			synctest.Wait()
			reached := 0
			for _, r := range rec.Recs() {
				if r.K == 'N' {
					reached++
				}
			}
			if c.Term == "TakeUntil" && reached >= c.At {
				signal.Emit(rt.N(1))
				synctest.Wait()
			}
			if (c.Term == "Unsubscribe" || c.Term == "ContextCancel") && (reached >= c.At || v >= 4) {
				break
			}
		}
		cut := false
		switch c.Term {
		case "Unsubscribe":
			if didReturn() && sub != nil {
				sub.Unsubscribe()
				cut = true
			}
		case "ContextCancel":
			cancel()
			cut = true
		}
		synctest.Wait()
		time.Sleep(20 * time.Millisecond)
		synctest.Wait()
		ctxAware := c.Time == "ThrowOnContextCancel" || c.Time == "MergeInterval"
		judged := terminated() || (cut && c.Term == "Unsubscribe") || (cut && c.Term == "ContextCancel" && ctxAware && false)
		if judged {
			if man.LiveDests() != 0 {
				fail("source-still-subscribed-after-downstream-terminated", fmt.Sprintf("%s: downstream has terminated (%s) after %d values, the source is still subscribed (no further emission is coming)", desc, cat.TraceOf(rec.Trace()), pushes))
			} else if r := man.Released(); r != "" {
				fail("source-teardown-count", desc+": "+r)
			}
			if !didReturn() {
				fail("subscribe-still-running-after-downstream-terminated", fmt.Sprintf("%s: downstream has terminated (%s), the Subscribe call is still blocked inside the pipeline", desc, cat.TraceOf(rec.Trace())))
			}
			if signal.LiveDests() != 0 {
				fail("source-still-subscribed-after-downstream-terminated", desc+": the notifier is still subscribed")
			}
			if other.LiveDests() != 0 {
				fail("source-still-subscribed-after-downstream-terminated", desc+": the second source of the multi-source stage is still subscribed")
			}
		}
		// unwind whatever is left so that the bubble can end
		cancel()
		signal.Emit(rt.C())
		other.Emit(rt.C())
		for i := 0; i < 8; i++ {
			// re-subscribing stages subscribe the source again when it completes
			man.Emit(rt.C())
			synctest.Wait()
			if didReturn() {
				break
			}
		}
		if didReturn() && sub != nil {
			sub.Unsubscribe()
		}
		synctest.Wait()
		time.Sleep(50 * time.Millisecond)
		synctest.Wait()
	})
	if problem != "" && failure == nil {
		class := "panic-in-bubble"
		if strings.Contains(problem, "deadlock") {
			class = "goroutine-left-blocked"
		}
		if strings.HasPrefix(problem, "stalled") {
			class = "pipeline-deadlocks-on-downstream-termination"
		}
		fail(class, fmt.Sprintf("never-ending source |> %s |> %s(at %d): %s", name, c.Term, c.At, problem))
	}
	if failure != nil {
		rt.Report(tb, *failure)
	}
}

var c14Terms = []string{"Take", "First", "Head", "ElementAt", "TakeWhile", "TakeUntil", "MapErr", "Unsubscribe", "ContextCancel"}
var c14Times = []string{"multi:Merge", "multi:MergeWith", "multi:CombineLatestN", "multi:ZipN", "multi:Zip", "multi:Race", "multi:RaceWith", "multi:TakeUntil", "multi:SkipUntil", "multi:BufferWhen", "multi:SampleWhen",
	"multi:GroupBy|MergeAll", "multi:WindowWhen|MergeAll", "multi:MergeMap", "Delay", "ObserveOn", "SubscribeOn", "SampleTime", "BufferWithTime|Flatten", "Timeout", "DelayEach", "MergeInterval", "ThrowOnContextCancel", "ContextWithTimeout"}

func TestC14_Enumerated(t *testing.T) {
	idx := 0
	run := func(c c14Case, class string) {
		idx++
		if !rt.Mine(idx) {
			return
		}
		for _, l := range c.Links {
			if c14Blocking[l.Op] && rt.KnownFor("C14", "cancel-upstream", l.Op, "subscribe-still-running-after-downstream-terminated") != nil && idx%7 != 0 {
				// listed finding: a sample of these cases keeps being run (KNOWN-FINDING hits), the rest is excluded by construction
				rt.Excluded(1)
				return
			}
		}
		if c.Time == "multi:GroupBy|MergeAll" && c.At <= 2 && c.Term != "Unsubscribe" && c.Term != "ContextCancel" {
			// listed finding C14-groupby-mergeall-deadlock (reproduced by its saved replay only: it costs a watchdog period)
			rt.Excluded(1)
			return
		}
		c14Run(t, c)
		rt.Case(caseKey("cancel", chainName(c.Links), fmt.Sprint(c.Links), c.Time, c.Term, c.At), true, class, func() any { return c })
	}
	for _, row := range cat.Rows {
		if row.Async {
			continue
		}
		ps := row.Params
		if len(ps) > 2 {
			ps = [][]int{ps[0], ps[len(ps)-1]}
		}
		for _, p := range ps {
			for ti, term := range c14Terms {
				for _, at := range []int{1, 2} {
					if term == "Head" && at > 1 {
						continue
					}
					v := row.Variants[(ti+at)%len(row.Variants)]
					run(c14Case{Links: []cat.Link{{Op: row.Name, Variant: v, P: p}}, Term: term, At: at}, "row:"+row.Name)
				}
			}
		}
	}
	run(c14Case{Term: "Take", At: 2}, "bare")
	for _, ts := range c14Times {
		for _, term := range c14Terms {
			for _, at := range []int{1, 2, 3} {
				run(c14Case{Time: ts, Term: term, At: at}, "time:"+ts)
			}
		}
	}
	rt.Note("enumerated_scope", "every catalogue row (first and last boundary parameter) and ten time-driven / hand-off / context stages, placed between a never-ending manually driven source and each of 9 early terminators (Take, First, Head, ElementAt, TakeWhile, TakeUntil, failing MapErr, external Unsubscribe, context cancellation) at cut positions 1 and 2(3); virtual time, quiescence by testing/synctest")
}

func TestC14_ChainsRandom(t *testing.T) {
	currentT = t
	rapid.Check(t, func(t *rapid.T) {
		n := rapid.IntRange(2, 3).Draw(t, "chainLen")
		links := make([]cat.Link, n)
		for i := range links {
			links[i] = genLink(t, false)
		}
		c := c14Case{Links: links, Term: rapid.SampledFrom(c14Terms).Draw(t, "term"), At: rapid.IntRange(1, 3).Draw(t, "at")}
		c14RunTB(t, currentT, c)
		rt.Case(caseKey("cancelchain", fmt.Sprint(links), c.Term, c.At), true, "chain", func() any { return c })
	})
}
