package checks

import (
	"context"
	"encoding/json"
	"fmt"
	"runtime"
	"sync"
	"testing"
	"time"

	"github.com/samber/ro"
	"pgregory.net/rapid"
	"verifharness/rt"
)

// C02 — serialized delivery: an observer's callbacks never overlap.
// The same scenarios, with a quiet observer, feed the race detector for C13.

type c02Case struct {
	Top     string    `json:"top"`   // a multi-source row of C05, or Serialize / SafeObservable / ObserveOnMerge / WindowWhen / GroupByMerge / Share
	K       int       `json:"k"`     // number of concurrently emitting producers
	Below   []string  `json:"below"` // stages placed under the multi-source stage
	Scripts [][]rt.Ev `json:"scripts"`
	DwellUs int       `json:"dwell_us"`
	Reps    int       `json:"reps"`
}

func init() {
	replayers["overlap"] = func(t *testing.T, raw json.RawMessage) {
		var c c02Case
		if err := json.Unmarshal(raw, &c); err != nil {
			t.Fatal(err)
		}
		c.Reps *= 20
		c02Run(t, c, false)
	}
}

// belowStage builds a stage that is placed underneath the multi-source one.
func belowStage(name string) func(ro.Observable[int]) ro.Observable[int] {
	switch name {
	case "Map":
		return ro.Map(func(x int) int { return x })
	case "Filter":
		return ro.Filter(func(x int) bool { return true })
	case "StartWith":
		return ro.StartWith(-1)
	case "TapOnSubscribe":
		return ro.TapOnSubscribe[int](func() {})
	case "TapOnFinalize":
		return ro.TapOnFinalize[int](func() {})
	case "Serialize":
		return ro.Serialize[int]()
	case "Scan":
		return ro.Scan(func(a, x int) int { return a + x }, 0)
	case "Defer":
		return func(s ro.Observable[int]) ro.Observable[int] { return ro.Defer(func() ro.Observable[int] { return s }) }
	case "CatchPass":
		return ro.Catch(func(err error) ro.Observable[int] { return ro.Empty[int]() })
	}
	panic("below " + name)
}

func encAny(v any) int {
	switch x := v.(type) {
	case int:
		return x
	}
	return 0
}

// c02Build returns the observable under test over k manual sources.
func c02Build(c c02Case, srcs []*rt.ManualSrc) ro.Observable[int] {
	obss := make([]ro.Observable[int], len(srcs))
	for i, s := range srcs {
		obss[i] = s.Observable()
	}
	var top ro.Observable[int]
	toInt := func(o ro.Observable[any]) ro.Observable[int] { return ro.Map(encAny)(o) }
	switch c.Top {
	case "Serialize":
		// ONE unsafe observable fed from k goroutines, made safe by Serialize
		top = ro.Serialize[int]()(ro.MergeAll[int]()(ro.Just(obss...)))
	case "MergeMap":
		outer := ro.Just(seqInts(len(obss))...)
		top = ro.MergeMap(func(i int) ro.Observable[int] { return obss[i] })(outer)
	case "GroupByMerge":
		top = ro.MergeAll[int]()(ro.GroupBy(func(x int) int { return x % 2 })(ro.Merge(obss...)))
	case "WindowWhenMerge":
		top = ro.MergeAll[int]()(ro.WindowWhen[int, int](obss[len(obss)-1])(ro.Merge(obss[:len(obss)-1]...)))
	case "ObserveOnMerge":
		hs := make([]ro.Observable[int], len(obss))
		for i, o := range obss {
			hs[i] = ro.ObserveOn[int](2)(o)
		}
		top = ro.Merge(hs...)
	case "Share":
		top = ro.Share[int]()(ro.Merge(obss...))
	case "Merge":
		top = ro.Merge(obss...)
	case "MergeAll":
		top = ro.MergeAll[int]()(ro.Just(obss...))
	case "MergeWith":
		top = ro.MergeWith(obss[1:]...)(obss[0])
	case "Concat":
		top = ro.Concat(obss...)
	case "Race":
		top = ro.Race(obss...)
	case "RaceWith":
		top = ro.RaceWith(obss[1:]...)(obss[0])
	case "TakeUntil":
		top = ro.TakeUntil[int, int](obss[1])(obss[0])
	case "SkipUntil":
		top = ro.SkipUntil[int, int](obss[1])(obss[0])
	case "SampleWhen":
		top = ro.SampleWhen[int, int](obss[1])(obss[0])
	case "ThrottleWhen":
		top = ro.ThrottleWhen[int, int](obss[1])(obss[0])
	default:
		row := mrowByName(c.Top)
		top = toInt(row.Build(obss))
	}
	for _, b := range c.Below {
		top = belowStage(b)(top)
	}
	return top
}

func seqInts(n int) []int {
	out := make([]int, n)
	for i := range out {
		out[i] = i
	}
	return out
}

// c02Run runs the scenario; quiet = no recorder instrumentation (for the race detector).
func c02Run(t rt.TB, c c02Case, quiet bool) {
	name := c.Top
	for _, b := range c.Below {
		name += ">" + b
	}
	for rep := 0; rep < c.Reps; rep++ {
		srcs := make([]*rt.ManualSrc, c.K)
		for i := range srcs {
			srcs[i] = rt.NewManual(fmt.Sprintf("S%d", i), rt.CtorUnsafeCtx)
		}
		if c.Top == "WindowWhenDirect" || c.Top == "GroupByDirect" {
			if !c02RunInner(t, c, srcs, rep, quiet) {
				return
			}
			continue
		}
		obs := c02Build(c, srcs)
		rec := rt.NewRecorder[int]()
		var observer ro.Observer[int] = rec
		if quiet {
			sum := 0
			observer = ro.NewObserver(func(v int) { sum += v }, func(error) {}, func() {})
		} else if c.DwellUs > 0 {
			rec.Hook = func(k byte, _ context.Context, v any, err error) {
				time.Sleep(time.Duration(c.DwellUs) * time.Microsecond)
			}
		}
		subDone := make(chan ro.Subscription, 1)
		go func() {
			defer func() { recover() }()
			subDone <- obs.Subscribe(observer)
		}()
		// blocking tops (Concat) keep Subscribe busy: give it a moment, then go on
		var sub ro.Subscription
		select {
		case sub = <-subDone:
		case <-time.After(2 * time.Millisecond):
		}
		var wg sync.WaitGroup
		start := make(chan struct{})
		bar := rt.NewBarrier(len(srcs))
		for i, s := range srcs {
			wg.Add(1)
			go func(i int, s *rt.ManualSrc) {
				defer wg.Done()
				<-start
				bar.Wait()
				if i > 0 && !quiet && rep%2 == 1 {
					// every other repetition: the other producers wait until the observer is
					// inside its first callback, so that their notifications arrive while a
					// delivery is in progress (the window a missing lock leaves open)
					deadline := time.Now().Add(2 * time.Millisecond)
					for rec.Len() == 0 && time.Now().Before(deadline) {
						runtime.Gosched()
					}
				}
				for _, e := range c.Scripts[i%len(c.Scripts)] {
					s.Emit(e)
				}
			}(i, s)
		}
		close(start)
		wg.Wait()
		if sub == nil {
			select {
			case sub = <-subDone:
			case <-time.After(50 * time.Millisecond):
			}
		}
		if sub != nil {
			sub.Unsubscribe()
		}
		if quiet {
			continue
		}
		if o := rec.Overlap(); o != "" {
			rt.Report(t, rt.Failure{Property: "C02", Check: "overlap", Op: name, Class: "callbacks-overlap", Msg: fmt.Sprintf("%s with %d concurrent producers (repetition %d): %s", name, c.K, rep, o), Case: c})
			return
		}
		if g := rec.Grammar(); g != "" {
			rt.Report(t, rt.Failure{Property: "C02", Check: "overlap", Op: name, Class: "grammar-under-concurrency", Msg: fmt.Sprintf("%s with %d concurrent producers (repetition %d): %s", name, c.K, rep, g), Case: c})
			return
		}
	}
}

// c02RunInner: observers attached directly to the inner observables (windows,
// groups) must be serialised too: a window is closed by the boundary's goroutine
// while the source's goroutine may be delivering into it.
func c02RunInner(t rt.TB, c c02Case, srcs []*rt.ManualSrc, rep int, quiet bool) bool {
	var mu sync.Mutex
	var inners []*rt.Recorder[int]
	var outer ro.Observable[ro.Observable[int]]
	if c.Top == "WindowWhenDirect" {
		outer = ro.WindowWhen[int, int](srcs[1].Observable())(srcs[0].Observable())
	} else {
		obss := make([]ro.Observable[int], len(srcs))
		for i, s := range srcs {
			obss[i] = s.Observable()
		}
		outer = ro.GroupBy(func(x int) int { return x % 2 })(ro.Merge(obss...))
	}
	sub := outer.Subscribe(ro.NewObserver(func(w ro.Observable[int]) {
		r := rt.NewRecorder[int]()
		if !quiet && c.DwellUs > 0 {
			r.Hook = func(k byte, _ context.Context, v any, err error) {
				time.Sleep(time.Duration(c.DwellUs) * time.Microsecond)
			}
		}
		mu.Lock()
		inners = append(inners, r)
		mu.Unlock()
		w.Subscribe(r)
	}, func(error) {}, func() {}))
	var wg sync.WaitGroup
	start := make(chan struct{})
	for i, s := range srcs {
		wg.Add(1)
		go func(i int, s *rt.ManualSrc) {
			defer wg.Done()
			<-start
			for _, e := range c.Scripts[i%len(c.Scripts)] {
				s.Emit(e)
			}
		}(i, s)
	}
	close(start)
	wg.Wait()
	sub.Unsubscribe()
	if quiet {
		return true
	}
	mu.Lock()
	defer mu.Unlock()
	for i, r := range inners {
		if o := r.Overlap(); o != "" {
			rt.Report(t, rt.Failure{Property: "C02", Check: "overlap", Op: c.Top, Class: "callbacks-overlap", Msg: fmt.Sprintf("%s (repetition %d): observer of inner observable #%d: %s", c.Top, rep, i, o), Case: c})
			return false
		}
		if g := r.Grammar(); g != "" {
			rt.Report(t, rt.Failure{Property: "C02", Check: "overlap", Op: c.Top, Class: "grammar-under-concurrency", Msg: fmt.Sprintf("%s (repetition %d): inner #%d: %s", c.Top, rep, i, g), Case: c})
			return false
		}
	}
	return true
}

var c02Tops = []string{"WindowWhenDirect", "GroupByDirect", "Merge", "MergeAll", "MergeWith", "MergeWithN", "CombineLatestN", "CombineLatestWithN", "CombineLatestAll", "ZipN", "ZipWithN", "Zip", "Race", "RaceWith",
	"TakeUntil", "SkipUntil", "BufferWhen", "SampleWhen", "ThrottleWhen", "Concat", "Serialize", "MergeMap", "GroupByMerge", "WindowWhenMerge", "ObserveOnMerge", "Share"}

// passThrough stages hand their destination upstream: placed directly under a
// safe multi-source stage they are the listed finding C02-passthrough-below-safe-stage.
var c02PassThrough = map[string]bool{"StartWith": true, "TapOnSubscribe": true, "TapOnFinalize": true, "Defer": true, "CatchPass": true}

func c02K(top string, want int) int {
	switch top {
	case "TakeUntil", "SkipUntil", "BufferWhen", "SampleWhen", "ThrottleWhen", "WindowWhenDirect":
		return 2
	case "CombineLatestN", "CombineLatestWithN", "ZipN", "ZipWithN", "MergeWithN":
		if want > 3 {
			return 3
		}
		if want < 2 {
			return 2
		}
	case "WindowWhenMerge":
		if want < 3 {
			return 3
		}
	}
	if want < 2 {
		return 2
	}
	return want
}

func c02Scripts(k, n int, withTerminal bool) [][]rt.Ev {
	out := make([][]rt.Ev, k)
	for i := range out {
		for j := 1; j <= n; j++ {
			out[i] = append(out[i], rt.N(100*i+j))
		}
		if withTerminal {
			if i%2 == 0 {
				out[i] = append(out[i], rt.C())
			} else if i%3 == 1 {
				out[i] = append(out[i], rt.E(1))
			} else {
				out[i] = append(out[i], rt.C())
			}
		}
	}
	return out
}

func TestC02_OverlapEnumerated(t *testing.T) {
	reps := 40
	if rt.Thorough() {
		reps = 400
	}
	belows := [][]string{{}, {"Map"}, {"Scan", "Filter"}, {"StartWith"}, {"TapOnSubscribe"}, {"TapOnFinalize"}, {"Defer"}, {"CatchPass"}, {"Map", "StartWith"}, {"StartWith", "Serialize"}, {"Serialize", "StartWith"}}
	idx := 0
	for _, top := range c02Tops {
		for _, below := range belows {
			for _, k := range []int{2, 4} {
				idx++
				if !rt.Mine(idx) {
					continue
				}
				kk := c02K(top, k)
				c := c02Case{Top: top, K: kk, Below: below, Scripts: c02Scripts(kk, 4, idx%2 == 0), DwellUs: 30, Reps: reps}
				if len(below) > 0 && c02PassThrough[below[0]] && top != "Concat" {
					if rt.KnownFor("C02", "overlap", top+">"+below[0], "callbacks-overlap") != nil {
						// excluded by construction: listed finding (pass-through stage directly below a safe stage)
						rt.Excluded(1)
						continue
					}
				}
				c02Run(t, c, false)
				rt.Case(caseKey("overlap", top, below, kk), true, "top:"+top, func() any { return c })
			}
		}
	}
}

func TestC02_OverlapRandom(t *testing.T) {
	reps := 20
	if rt.Thorough() {
		reps = 120
	}
	names := []string{"Map", "Filter", "Scan", "StartWith", "TapOnSubscribe", "TapOnFinalize", "Serialize", "Defer", "CatchPass"}
	rapid.Check(t, func(t *rapid.T) {
		top := rapid.SampledFrom(c02Tops).Draw(t, "top")
		k := c02K(top, rapid.IntRange(2, 6).Draw(t, "k"))
		below := rapid.SliceOfN(rapid.SampledFrom(names), 0, 3).Draw(t, "below")
		if len(below) > 0 && c02PassThrough[below[0]] && top != "Concat" && rt.KnownFor("C02", "overlap", top+">"+below[0], "callbacks-overlap") != nil {
			rt.Excluded(1)
			return
		}
		c := c02Case{Top: top, K: k, Below: below, Scripts: c02Scripts(k, rapid.IntRange(1, 6).Draw(t, "n"), rapid.Bool().Draw(t, "term")), DwellUs: rapid.SampledFrom([]int{0, 20, 60}).Draw(t, "dwell"), Reps: reps}
		c02Run(t, c, false)
		rt.Case(caseKey("overlaprand", top, below, k, len(c.Scripts[0]), c.DwellUs), true, "random:"+top, func() any { return c })
	})
}
