package checks

import (
	"context"
	"encoding/json"
	"fmt"
	"sync"
	"sync/atomic"
	"testing"

	"github.com/prometheus/client_golang/prometheus"
	dto "github.com/prometheus/client_model/go"
	"github.com/samber/ro"
	roprometheus "github.com/samber/ro/ee/plugins/prometheus"
	"pgregory.net/rapid"
	"verifharness/cat"
	"verifharness/rt"
)

// C19 — Prometheus instrumentation is transparent and its counters are exact.

type c19Case struct {
	Links      []cat.Link `json:"operators"` // one per PipeN slot
	Script     []rt.Ev    `json:"script"`
	Subs       int        `json:"subscriptions"`
	Concurrent bool       `json:"concurrent"`
	Licence    bool       `json:"licence"`
	BuildOther bool       `json:"licence_differs_at_build_time,omitempty"` // the pipe is built while the licence is in the opposite state
	// RegisterFirst: the collector is registered (pedantic registry: every collected
	// metric must match a described one) right after the pipe is built, before any
	// subscription - the order the plugin's documentation shows
	RegisterFirst bool `json:"register_before_subscribing,omitempty"`
}

func init() {
	replayers["prometheus"] = func(t *testing.T, raw json.RawMessage) {
		var c c19Case
		if err := json.Unmarshal(raw, &c); err != nil {
			t.Fatal(err)
		}
		c19Run(t, c)
	}
	replayers["prometheus-standalone"] = func(t *testing.T, raw json.RawMessage) {
		var c c19Solo
		if err := json.Unmarshal(raw, &c); err != nil {
			t.Fatal(err)
		}
		c19RunSolo(t, c)
	}
}

type c19Key string

func countTap(n *int64) opII {
	return ro.TapOnNext(func(int) { atomic.AddInt64(n, 1) })
}

// countTapItem also counts the values whose context derives from a source item.
type c19Slot int

// countTapItem sits right behind operator i inside its slot. It counts the values
// leaving the operator and, among them, those whose context descends from a value
// that ENTERED the operator through Next: it carries the mark the tap behind
// operator i-1 attached (for the first operator: the source's per-item key). It
// then attaches its own mark. The instrumentation seeds a fresh checkpoint on
// every value that enters a stage, so exactly these values are owed a
// processing-time observation; values an operator emits on its own (completion,
// error or subscription path) carry no checkpoint - the listed finding.
func countTapItem(i int, n, item *int64) opII {
	return ro.MapWithContext(func(ctx context.Context, v int) (context.Context, int) {
		atomic.AddInt64(n, 1)
		if ctx != nil {
			var entered any
			if i == 0 {
				entered = ctx.Value(rt.ItemKey)
			} else {
				entered = ctx.Value(c19Slot(i - 1))
			}
			if entered != nil {
				atomic.AddInt64(item, 1)
			}
			ctx = context.WithValue(ctx, c19Slot(i), true)
		}
		return ctx, v
	})
}

func gather(c prometheus.Collector) (map[string]*dto.MetricFamily, error) {
	reg := prometheus.NewRegistry()
	if err := reg.Register(c); err != nil {
		return nil, err
	}
	fams, err := reg.Gather()
	if err != nil {
		return nil, err
	}
	out := map[string]*dto.MetricFamily{}
	for _, f := range fams {
		out[f.GetName()] = f
	}
	return out, nil
}

func counterValue(f *dto.MetricFamily) float64 {
	if f == nil {
		return -1
	}
	v := 0.0
	for _, m := range f.Metric {
		v += m.GetCounter().GetValue()
	}
	return v
}

func c19Run(t rt.TB, c c19Case) {
	name := chainName(c.Links)
	fail := func(class, msg string) {
		rt.Report(t, rt.Failure{Property: "C19", Check: "prometheus", Op: fmt.Sprintf("Pipe%d", len(c.Links)), Class: class, Msg: msg, Case: c})
	}
	roprometheus.VerifSetLicenseBypass(c.Licence)
	defer roprometheus.VerifSetLicenseBypass(false)
	env := cat.NewEnv()
	n := len(c.Links)
	taps := make([]int64, n)
	tapsItem := make([]int64, n)
	var srcTap int64
	slots := make([]opII, n)
	plain := make([]opII, n)
	for i, l := range c.Links {
		row := cat.ByName(l.Op)
		st := opII(cat.ChainStage(row.Build(l.Variant, l.P, env)))
		slots[i] = ro.PipeOp2(st, countTapItem(i, &taps[i], &tapsItem[i]))
		plain[i] = opII(cat.ChainStage(row.Build(l.Variant, l.P, cat.NewEnv())))
	}
	src := rt.NewScript("src", rt.CtorUnsafeCtx, c.Script)
	srcPlain := rt.NewScript("src", rt.CtorUnsafeCtx, c.Script)
	if c.BuildOther {
		roprometheus.VerifSetLicenseBypass(!c.Licence)
	}
	instrumented, collector := promPipeN(roprometheus.CollectorConfig{Namespace: "verif"}, ro.PipeOp1(countTap(&srcTap))(src.Observable()), slots)
	roprometheus.VerifSetLicenseBypass(c.Licence)
	var earlyReg *prometheus.Registry
	if c.RegisterFirst {
		earlyReg = prometheus.NewPedanticRegistry()
		if err := earlyReg.Register(collector); err != nil {
			fail("collector-registration", fmt.Sprintf("Pipe%d: registering the collector before any subscription failed: %v", len(c.Links), err))
			return
		}
	}
	reference := srcPlain.Observable()
	for _, p := range plain {
		reference = p(reference)
	}
	ctx := context.WithValue(context.Background(), c19Key("marker"), 7)
	desc := fmt.Sprintf("Pipe%d(%s) over [%s], %d subscriptions (concurrent=%v), licence=%v", n, name, rt.ScriptString(c.Script), c.Subs, c.Concurrent, c.Licence)
	recs := make([]*rt.Recorder[int], c.Subs)
	var wg sync.WaitGroup
	var panMu, subMu sync.Mutex
	var pan any
	var subsList []ro.Subscription
	for i := range recs {
		recs[i] = rt.NewRecorder[int]()
		run := func(r *rt.Recorder[int]) {
			defer func() {
				if p := recover(); p != nil {
					panMu.Lock()
					pan = p
					panMu.Unlock()
				}
			}()
			sub := instrumented.SubscribeWithContext(ctx, r)
			subMu.Lock()
			subsList = append(subsList, sub)
			subMu.Unlock()
		}
		if c.Concurrent {
			wg.Add(1)
			go func(r *rt.Recorder[int]) { defer wg.Done(); run(r) }(recs[i])
		} else {
			run(recs[i])
		}
	}
	wg.Wait()
	if pan != nil {
		fail("panic-escaped", fmt.Sprintf("%s: %v", desc, pan))
		return
	}
	ref := rt.NewRecorder[int]()
	refSub := reference.SubscribeWithContext(ctx, ref)
	defer refSub.Unsubscribe()
	want := cat.TraceOf(ref.Trace())
	outNext := 0
	for i, r := range recs {
		got := cat.TraceOf(r.Trace())
		if !cat.SameTrace(got, want) {
			fail("instrumentation-changes-the-stream", fmt.Sprintf("%s: subscription #%d received %s, the plain pipeline gives %s", desc, i, got, want))
			return
		}
		if g := r.Grammar(); g != "" {
			fail("grammar", g)
			return
		}
		for j, x := range r.Recs() {
			if x.K == 'N' {
				outNext++
			}
			refHas := j < len(ref.Recs()) && !ref.Recs()[j].CtxNil && ref.Recs()[j].Ctx.Value(c19Key("marker")) == 7
			if x.CtxNil || (refHas && x.Ctx.Value(c19Key("marker")) != 7) {
				fail("context-value-lost", fmt.Sprintf("%s: callback #%d of subscription #%d does not see the value attached at Subscribe", desc, j, i))
				return
			}
			// per-item context of the source must survive the instrumentation (when the plain pipeline keeps it)
			if x.K == 'N' && j < len(ref.Recs()) && ref.Recs()[j].K == 'N' {
				if (ref.Recs()[j].Ctx.Value(rt.ItemKey) != nil) && x.Ctx.Value(rt.ItemKey) != ref.Recs()[j].Ctx.Value(rt.ItemKey) {
					fail("context-value-lost", fmt.Sprintf("%s: value #%d carries item context %v, the plain pipeline delivers %v", desc, j, x.Ctx.Value(rt.ItemKey), ref.Recs()[j].Ctx.Value(rt.ItemKey)))
					return
				}
			}
		}
	}
	for _, sub := range subsList {
		sub.Unsubscribe()
	}
	refSub.Unsubscribe()
	if r := src.Released(); r != "" || int(src.Subs) != c.Subs*int(srcPlain.Subs) {
		fail("source-release-differs", fmt.Sprintf("%s: %s; source subscribed %d times, plain pipeline %d per subscription", desc, r, src.Subs, srcPlain.Subs))
		return
	}
	// metrics
	if collector == nil {
		fail("no-collector", desc)
		return
	}
	roprometheus.VerifSetLicenseBypass(c.Licence) // Collect consults the licence too
	fams, err := gather(collector)
	if earlyReg != nil {
		// the registry that has known the collector since before the first subscription
		// must export the same thing, and let go of it
		efs, eerr := earlyReg.Gather()
		if eerr != nil {
			fail("gather-fails-when-registered-before-subscribing", fmt.Sprintf("Pipe%d(%s), collector registered (pedantic registry) before the first subscription: Gather: %v", len(c.Links), name, eerr))
			return
		}
		if c.Licence && len(efs) != len(fams) {
			fail("gather-fails-when-registered-before-subscribing", fmt.Sprintf("Pipe%d(%s): the early registry exports %d families, a fresh one %d", len(c.Links), name, len(efs), len(fams)))
			return
		}
		if c.Licence && !earlyReg.Unregister(collector) {
			fail("collector-cannot-be-unregistered", fmt.Sprintf("Pipe%d(%s): Unregister returned false for a collector registered before the first subscription", len(c.Links), name))
			return
		}
	}
	if err != nil {
		fail("collector-error", fmt.Sprintf("%s: %v", desc, err))
		return
	}
	if !c.Licence {
		if len(fams) != 0 {
			fail("metrics-exported-without-licence", fmt.Sprintf("%s: %d metric families exported", desc, len(fams)))
		}
		return
	}
	early := false
	for _, l := range c.Links {
		r := cat.ByName(l.Op)
		if r.Early || r.NoSub0 || r.Resub || r.Waits {
			early = true
		}
	}
	if v := counterValue(fams["verif_ro_subscriptions_total"]); v != float64(c.Subs) {
		fail("subscriptions-counter", fmt.Sprintf("%s: ro_subscriptions_total = %v, %d Subscribe calls were made", desc, v, c.Subs))
		return
	}
	if v := counterValue(fams["verif_ro_notification_out_total"]); v != float64(outNext) {
		fail("notifications-out-counter", fmt.Sprintf("%s: ro_notification_out_total = %v, the subscribers received %d values", desc, v, outNext))
		return
	}
	if !early {
		if v := counterValue(fams["verif_ro_notification_in_total"]); v != float64(atomic.LoadInt64(&srcTap)) {
			fail("notifications-in-counter", fmt.Sprintf("%s: ro_notification_in_total = %v, the source emitted %d values into the pipe", desc, v, srcTap))
			return
		}
		if f := fams["verif_ro_notification_lag_seconds"]; f != nil {
			var cnt uint64
			for _, m := range f.Metric {
				cnt += m.GetSummary().GetSampleCount()
			}
			if cnt != uint64(atomic.LoadInt64(&srcTap)) {
				fail("lag-observation-count", fmt.Sprintf("%s: %d lag observations for %d source values", desc, cnt, srcTap))
				return
			}
		} else if srcTap > 0 {
			fail("lag-observation-count", desc+": lag summary missing")
			return
		}
		f := fams["verif_ro_operator_processing_time_seconds_total"]
		got := map[string]uint64{}
		if f != nil {
			for _, m := range f.Metric {
				for _, lp := range m.Label {
					if lp.GetName() == "operator_index" {
						got[lp.GetValue()] += m.GetSummary().GetSampleCount()
					}
				}
			}
		}
		for i := 0; i < n; i++ {
			if got[fmt.Sprint(i)] != uint64(atomic.LoadInt64(&taps[i])) {
				if got[fmt.Sprint(i)] == uint64(atomic.LoadInt64(&tapsItem[i])) {
					fail("no-observation-for-values-not-derived-from-a-source-item", fmt.Sprintf("%s: operator_index %d has %d observations, %d values left that operator, %d of them descending from a value that entered the operator (values emitted on the completion / error / subscription path carry no checkpoint)", desc, i, got[fmt.Sprint(i)], taps[i], tapsItem[i]))
					continue // the listed finding concerns THIS operator only: the ones behind it are still owed their observations
				}
				fail("operator-processing-time-count", fmt.Sprintf("%s: operator_index %d has %d observations, %d values left that operator (all: %v vs taps %v)", desc, i, got[fmt.Sprint(i)], taps[i], got, taps))
				return
			}
		}
		if len(got) > n {
			fail("operator-processing-time-count", fmt.Sprintf("%s: observations for indices %v, the pipe has %d operators", desc, got, n))
		}
	}
}

// ---- stand-alone operators ---------------------------------------------------------------------------

type c19Solo struct {
	Script  []rt.Ev `json:"script"`
	Subs    int     `json:"subscriptions"`
	Licence bool    `json:"licence"`
}

func c19RunSolo(t rt.TB, c c19Solo) {
	fail := func(class, msg string) {
		rt.Report(t, rt.Failure{Property: "C19", Check: "prometheus-standalone", Op: "standalone", Class: class, Msg: msg, Case: c})
	}
	roprometheus.VerifSetLicenseBypass(c.Licence)
	defer roprometheus.VerifSetLicenseBypass(false)
	cn := prometheus.NewCounter(prometheus.CounterOpts{Name: "n"})
	ce := prometheus.NewCounter(prometheus.CounterOpts{Name: "e"})
	cc := prometheus.NewCounter(prometheus.CounterOpts{Name: "c"})
	cs := prometheus.NewCounter(prometheus.CounterOpts{Name: "s"})
	lag := prometheus.NewSummary(prometheus.SummaryOpts{Name: "lag"})
	src := rt.NewScript("src", rt.CtorUnsafeCtx, c.Script)
	obs := ro.Pipe5(src.Observable(), roprometheus.IncCounterOnNext[int](cn), roprometheus.IncCounterOnError[int](ce), roprometheus.IncCounterOnComplete[int](cc), roprometheus.IncCounterOnSubscription[int](cs), roprometheus.ObserveNextLag[int](lag))
	nN, nE, nC := 0, 0, 0
	for i := 0; i < c.Subs; i++ {
		rec := rt.NewRecorder[int]()
		obs.Subscribe(rec)
		ref := rt.NewRecorder[int]()
		rt.NewScript("src", rt.CtorUnsafeCtx, c.Script).Observable().Subscribe(ref)
		if !cat.SameTrace(cat.TraceOf(rec.Trace()), cat.TraceOf(ref.Trace())) {
			fail("instrumentation-changes-the-stream", fmt.Sprintf("stand-alone counters over [%s]: %s vs %s", rt.ScriptString(c.Script), cat.TraceOf(rec.Trace()), cat.TraceOf(ref.Trace())))
			return
		}
		for _, r := range rec.Recs() {
			switch r.K {
			case 'N':
				nN++
			case 'E':
				nE++
			case 'C':
				nC++
			}
		}
	}
	val := func(c prometheus.Counter) float64 {
		m := &dto.Metric{}
		c.Write(m)
		return m.GetCounter().GetValue()
	}
	lm := &dto.Metric{}
	lag.Write(lm)
	desc := fmt.Sprintf("stand-alone counters over [%s] x %d subscriptions, licence=%v", rt.ScriptString(c.Script), c.Subs, c.Licence)
	if !c.Licence {
		if val(cn)+val(ce)+val(cc)+val(cs) != 0 || lm.GetSummary().GetSampleCount() != 0 {
			fail("metrics-recorded-without-licence", desc)
		}
		return
	}
	if val(cn) != float64(nN) || val(ce) != float64(nE) || val(cc) != float64(nC) || val(cs) != float64(c.Subs) || lm.GetSummary().GetSampleCount() != uint64(nN) {
		fail("standalone-counters", fmt.Sprintf("%s: next=%v error=%v complete=%v subscription=%v lag=%d, the observers saw %d/%d/%d", desc, val(cn), val(ce), val(cc), val(cs), lm.GetSummary().GetSampleCount(), nN, nE, nC))
	}
}

func c19Links(t *rapid.T, n int) []cat.Link {
	links := make([]cat.Link, n)
	for i := range links {
		for {
			l := genLink(t, false)
			r := cat.ByName(l.Op)
			if r.Resub || len(r.Pos) > 1 {
				continue
			}
			links[i] = l
			break
		}
	}
	return links
}

func TestC19_Pipes(t *testing.T) {
	// every arity once with a fixed family of operators (exhaustive over the arity)
	for n := 1; n <= 24; n++ {
		if !rt.Mine(n) {
			continue
		}
		links := make([]cat.Link, n)
		for i := range links {
			links[i] = []cat.Link{{Op: "Map", Variant: "", P: []int{}}, {Op: "Filter", Variant: "I", P: []int{}}, {Op: "Scan", Variant: "WithContext", P: []int{}}, {Op: "Skip", Variant: "", P: []int{1}}, {Op: "Pairwise", Variant: "", P: []int{}}}[i%5]
		}
		for _, lic := range []bool{true, false} {
			c := c19Case{Links: links, Script: seqScript(6, 'C'), Subs: 2, Licence: lic, BuildOther: n%3 == 0}
			c19Run(t, c)
			rt.Case(caseKey("prom", n, lic), true, "arity", func() any { return c })
		}
	}
	rapid.Check(t, func(t *rapid.T) {
		n := rapid.IntRange(1, 24).Draw(t, "arity")
		if n > 6 && rapid.Bool().Draw(t, "shorter") {
			n = rapid.IntRange(1, 6).Draw(t, "arity2")
		}
		c := c19Case{Links: c19Links(t, n), Script: genScript(t, 6, 1, 4, []byte{'C', 'E', 0}), Subs: rapid.IntRange(1, 3).Draw(t, "subs"), Concurrent: rapid.Bool().Draw(t, "concurrent"), Licence: rapid.IntRange(0, 3).Draw(t, "licence") != 0, RegisterFirst: rapid.Bool().Draw(t, "registerFirst")}
		if c.Concurrent {
			c.Subs++
			for _, l := range c.Links {
				if l.Op == "DoWhile" || l.Op == "While" {
					c.Concurrent = false
				}
			}
		}
		c.BuildOther = rapid.IntRange(0, 3).Draw(t, "buildOther") == 0
		c19Run(t, c)
		rt.Case(caseKey("promrand", fmt.Sprint(c)), n >= 2 || c.Subs >= 2 || scriptEnd(c.Script) != 'C', "random", func() any { return c })
	})
}

func TestC19_Standalone(t *testing.T) {
	for i, w := range allWords(3) {
		if !rt.Mine(i) {
			continue
		}
		for _, lic := range []bool{true, false} {
			c := c19Solo{Script: w, Subs: 1 + i%3, Licence: lic}
			c19RunSolo(t, c)
			rt.Case(caseKey("solo", w, c.Subs, lic), scriptEnd(w) != 'C' || c.Subs > 1, "standalone", func() any { return c })
		}
	}
}
