package checks

import (
	"testing"

	"pgregory.net/rapid"
)

// Native fuzz targets over the rapid properties of the chain / random checks
// (thorough tier; see c18_fuzz_test.go for how they replay).

func FuzzC04_ChainsRandom(f *testing.F)         { f.Fuzz(rapid.MakeFuzz(propC04ChainsRandom)) }
func FuzzC04_LongScripts(f *testing.F)          { f.Fuzz(rapid.MakeFuzz(propC04LongScripts)) }
func FuzzC07_FaultsInChainsRandom(f *testing.F) { f.Fuzz(rapid.MakeFuzz(propC07FaultsInChainsRandom)) }
func FuzzC09_ChainsRandom(f *testing.F)         { f.Fuzz(rapid.MakeFuzz(propC09ChainsRandom)) }
func FuzzC03_ReleaseChainsRandom(f *testing.F)  { f.Fuzz(rapid.MakeFuzz(propC03ReleaseChainsRandom)) }
func FuzzC12_Random(f *testing.F)               { f.Fuzz(rapid.MakeFuzz(propC12Random)) }
func FuzzC08_SyncChainsRandom(f *testing.F)     { f.Fuzz(rapid.MakeFuzz(propC08SyncChainsRandom)) }
func FuzzC04_MathTyped(f *testing.F)            { f.Fuzz(rapid.MakeFuzz(propC04MathTyped)) }
func FuzzC04_MathRounding(f *testing.F)         { f.Fuzz(rapid.MakeFuzz(propC04MathRounding)) }
func FuzzC04_Dematerialize(f *testing.F)        { f.Fuzz(rapid.MakeFuzz(propC04Dematerialize)) }
func FuzzC09_ContextOperators(f *testing.F)     { f.Fuzz(rapid.MakeFuzz(propC09ContextOperators)) }
