package checks

import (
	"encoding/json"
	"fmt"
	"sync"
	"testing"
	"time"

	"github.com/samber/ro"
	roulule "github.com/samber/ro/plugins/ratelimit/ulule"
	"github.com/ulule/limiter/v3"
	"github.com/ulule/limiter/v3/drivers/store/memory"
	"pgregory.net/rapid"
	"verifharness/rt"
)

// C20, one limiter shared by several streams (the store of the ulule limiter is
// what carries the quota: sharing it between subscriptions is its ordinary use).
// The streams run on goroutines of their own; the quota of a key holds for what
// all of them let through together. Window of one hour: the whole run lies in one
// window, or straddles one boundary - hence the bound 2 x quota, sound whatever
// the alignment.

type c20Shared struct {
	Quota   int `json:"quota"`
	Streams int `json:"streams"`
	Items   int `json:"items_per_stream"`
	Keys    int `json:"keys"`
	Reps    int `json:"reps"`
}

func init() {
	replayers["ratelimit-shared"] = func(t *testing.T, raw json.RawMessage) {
		var c c20Shared
		if err := json.Unmarshal(raw, &c); err != nil {
			t.Fatal(err)
		}
		c.Reps *= 20
		c20SharedRun(t, c)
	}
}

func c20SharedRun(t rt.TB, c c20Shared) {
	for rep := 0; rep < c.Reps; rep++ {
		lim := limiter.New(memory.NewStore(), limiter.Rate{Period: time.Hour, Limit: int64(c.Quota)})
		op := roulule.NewRateLimiter[item](lim, func(it item) string { return it.Key })
		var mu sync.Mutex
		passedPerKey := map[string]int{}
		perStream := make([][]item, c.Streams)
		var wg sync.WaitGroup
		start := make(chan struct{})
		for s := 0; s < c.Streams; s++ {
			items := make([]item, c.Items)
			for i := range items {
				items[i] = item{Key: fmt.Sprintf("k%d", (i+s)%c.Keys), N: s*1000 + i}
			}
			wg.Add(1)
			go func(s int) {
				defer wg.Done()
				<-start
				op(ro.Just(items...)).Subscribe(ro.NewObserver(func(it item) {
					mu.Lock()
					passedPerKey[it.Key]++
					perStream[s] = append(perStream[s], it)
					mu.Unlock()
				}, func(error) {}, func() {}))
			}(s)
		}
		close(start)
		wg.Wait()
		for k, n := range passedPerKey {
			if n > 2*c.Quota {
				rt.Report(t, rt.Failure{Property: "C20", Check: "ratelimit-shared", Op: "ulule", Class: "quota-exceeded-across-streams", Msg: fmt.Sprintf("quota %d per hour, %d streams sharing one limiter (repetition %d): %d items of key %s were let through (bound 2 x quota = %d)", c.Quota, c.Streams, rep, n, k, 2*c.Quota), Case: c})
				return
			}
		}
		for s, out := range perStream {
			last := map[string]int{}
			for _, it := range out {
				if prev, ok := last[it.Key]; ok && it.N <= prev {
					rt.Report(t, rt.Failure{Property: "C20", Check: "ratelimit-shared", Op: "ulule", Class: "per-key-order-or-duplicate", Msg: fmt.Sprintf("stream %d, key %s: item %d delivered after item %d", s, it.Key, it.N, prev), Case: c})
					return
				}
				last[it.Key] = it.N
			}
		}
	}
}

func TestC20_UluleSharedLimiter(t *testing.T) {
	reps := 20
	if rt.Thorough() {
		reps = 300
	}
	rapid.Check(t, func(t *rapid.T) {
		c := c20Shared{Quota: rapid.IntRange(1, 4).Draw(t, "quota"), Streams: rapid.IntRange(2, 8).Draw(t, "streams"), Items: rapid.IntRange(1, 12).Draw(t, "items"), Keys: rapid.IntRange(1, 3).Draw(t, "keys"), Reps: reps}
		c20SharedRun(t, c)
		rt.Case(caseKey("rlshared", c.Quota, c.Streams, c.Items, c.Keys), c.Streams*c.Items > 2*c.Quota*c.Keys, "ulule-shared", func() any { return c })
	})
}
