package checks

import (
	"encoding/json"
	"fmt"
	"reflect"
	"sort"
	"testing"
	"time"

	"github.com/samber/ro"
	"verifharness/cat"
	"verifharness/rt"
)

// C04, parametricity: a generic operator instantiated with an interface element
// type - values of different dynamic types in one stream, nil among them - delivers
// what the int instantiation delivers, value for value (dress is one-to-one,
// undress its inverse; see c05_anyvals_test.go). An operator that stores values in
// something that cares about dynamic types (atomic.Value), or that treats a nil
// value as "nothing there", breaks this and nothing else.

type c04AnyCase struct {
	Op     string `json:"op"`
	Script string `json:"script"`
}

func genericOps[T comparable](dv func(int) T, back func(T) int) map[string]func(ro.Observable[T]) ro.Observable[any] {
	a := func(o ro.Observable[T]) ro.Observable[any] { return undressObs(o) }
	as := func(o ro.Observable[[]T]) ro.Observable[any] {
		return ro.Map(func(v []T) any {
			out := make([]int, len(v))
			for i := range v {
				out[i] = back(v[i])
			}
			return out
		})(o)
	}
	return map[string]func(ro.Observable[T]) ro.Observable[any]{
		"Take(2)":                  func(s ro.Observable[T]) ro.Observable[any] { return a(ro.Take[T](2)(s)) },
		"TakeLast(2)":              func(s ro.Observable[T]) ro.Observable[any] { return a(ro.TakeLast[T](2)(s)) },
		"Skip(1)":                  func(s ro.Observable[T]) ro.Observable[any] { return a(ro.Skip[T](1)(s)) },
		"SkipLast(1)":              func(s ro.Observable[T]) ro.Observable[any] { return a(ro.SkipLast[T](1)(s)) },
		"Head":                     func(s ro.Observable[T]) ro.Observable[any] { return a(ro.Head[T]()(s)) },
		"Tail":                     func(s ro.Observable[T]) ro.Observable[any] { return a(ro.Tail[T]()(s)) },
		"First(any)":               func(s ro.Observable[T]) ro.Observable[any] { return a(ro.First(func(T) bool { return true })(s)) },
		"Last(any)":                func(s ro.Observable[T]) ro.Observable[any] { return a(ro.Last(func(T) bool { return true })(s)) },
		"ElementAt(1)":             func(s ro.Observable[T]) ro.Observable[any] { return a(ro.ElementAt[T](1)(s)) },
		"ElementAtOrDefault(5,d7)": func(s ro.Observable[T]) ro.Observable[any] { return a(ro.ElementAtOrDefault(5, dv(7))(s)) },
		"DefaultIfEmpty(d2)":       func(s ro.Observable[T]) ro.Observable[any] { return a(ro.DefaultIfEmpty(dv(2))(s)) },
		"StartWith(d2,d7)":         func(s ro.Observable[T]) ro.Observable[any] { return a(ro.StartWith(dv(2), dv(7))(s)) },
		"EndWith(d8,d2)":           func(s ro.Observable[T]) ro.Observable[any] { return a(ro.EndWith(dv(8), dv(2))(s)) },
		"Distinct":                 func(s ro.Observable[T]) ro.Observable[any] { return a(ro.Distinct[T]()(s)) },
		"Pairwise":                 func(s ro.Observable[T]) ro.Observable[any] { return as(ro.Pairwise[T]()(s)) },
		"BufferWithCount(2)":       func(s ro.Observable[T]) ro.Observable[any] { return as(ro.BufferWithCount[T](2)(s)) },
		"ToSlice":                  func(s ro.Observable[T]) ro.Observable[any] { return as(ro.ToSlice[T]()(s)) },
		"Scan(last)":               func(s ro.Observable[T]) ro.Observable[any] { return a(ro.Scan(func(_ T, x T) T { return x }, dv(9))(s)) },
		"Reduce(last)":             func(s ro.Observable[T]) ro.Observable[any] { return a(ro.Reduce(func(_ T, x T) T { return x }, dv(2))(s)) },
		"OnErrorReturn(d2)":        func(s ro.Observable[T]) ro.Observable[any] { return a(ro.OnErrorReturn(dv(2))(s)) },
		"Catch(Just d2 d4)": func(s ro.Observable[T]) ro.Observable[any] {
			return a(ro.Catch(func(error) ro.Observable[T] { return ro.Just(dv(2), dv(4)) })(s))
		},
		"ConcatWith(Just d2)":       func(s ro.Observable[T]) ro.Observable[any] { return a(ro.ConcatWith(ro.Just(dv(2)))(s)) },
		"MergeWith(Just d2 d5)":     func(s ro.Observable[T]) ro.Observable[any] { return a(ro.MergeWith(ro.Just(dv(2), dv(5)))(s)) },
		"FlatMap(x -> Just x d2)":   func(s ro.Observable[T]) ro.Observable[any] { return a(ro.FlatMap(func(x T) ro.Observable[T] { return ro.Just(x, dv(2)) })(s)) },
		"MergeMap(x -> Just d2 x)":  func(s ro.Observable[T]) ro.Observable[any] { return a(ro.MergeMap(func(x T) ro.Observable[T] { return ro.Just(dv(2), x) })(s)) },
		"RepeatWith(2)":             func(s ro.Observable[T]) ro.Observable[any] { return a(ro.RepeatWith[T](2)(s)) },
		"Materialize|Dematerialize": func(s ro.Observable[T]) ro.Observable[any] { return a(ro.Dematerialize[T]()(ro.Materialize[T]()(s))) },
		"Share":                     func(s ro.Observable[T]) ro.Observable[any] { return a(ro.Share[T]()(s)) },
		"ShareReplay(2)":            func(s ro.Observable[T]) ro.Observable[any] { return a(ro.ShareReplay[T](2)(s)) },
		"Serialize":                 func(s ro.Observable[T]) ro.Observable[any] { return a(ro.Serialize[T]()(s)) },
		"Timeout(1h)":               func(s ro.Observable[T]) ro.Observable[any] { return a(ro.Timeout[T](time.Hour)(s)) },
		"Delay(1ms)":                func(s ro.Observable[T]) ro.Observable[any] { return a(ro.Delay[T](time.Millisecond)(s)) },
		"ObserveOn(2)":              func(s ro.Observable[T]) ro.Observable[any] { return a(ro.ObserveOn[T](2)(s)) },
		"SubscribeOn(2)":            func(s ro.Observable[T]) ro.Observable[any] { return a(ro.SubscribeOn[T](2)(s)) },
		"BufferWhen(Never)":         func(s ro.Observable[T]) ro.Observable[any] { return as(ro.BufferWhen[T, struct{}](ro.Never())(s)) },
		"SampleWhen(Never)":         func(s ro.Observable[T]) ro.Observable[any] { return a(ro.SampleWhen[T, struct{}](ro.Never())(s)) },
		"GroupBy(const)|MergeAll": func(s ro.Observable[T]) ro.Observable[any] {
			return a(ro.MergeAll[T]()(ro.GroupBy(func(T) int { return 0 })(s)))
		},
		"WindowWhen(Never)|MergeAll": func(s ro.Observable[T]) ro.Observable[any] {
			return a(ro.MergeAll[T]()(ro.WindowWhen[T, struct{}](ro.Never())(s)))
		},
	}
}

var (
	c04IntOps = genericOps[int](func(v int) int { return v }, func(v int) int { return v })
	c04AnyOps = genericOps[any](dress, func(v any) int { x, _ := undress(v).(int); return x })
)

func c04AnyScripts() map[string][]rt.Ev {
	return map[string][]rt.Ev{
		"C":           {rt.C()},
		"E":           {rt.E(1)},
		"2 C":         {rt.N(2), rt.C()},
		"1 2 3 C":     {rt.N(1), rt.N(2), rt.N(3), rt.C()},
		"2 2 1 2 C":   {rt.N(2), rt.N(2), rt.N(1), rt.N(2), rt.C()},
		"3 2 E":       {rt.N(3), rt.N(2), rt.E(1)},
		"5 4 3 2 1 C": {rt.N(5), rt.N(4), rt.N(3), rt.N(2), rt.N(1), rt.C()},
		"1 1 2 2 E":   {rt.N(1), rt.N(1), rt.N(2), rt.N(2), rt.E(1)},
	}
}

func init() {
	replayers["interface-element-type"] = func(t *testing.T, raw json.RawMessage) {
		var c c04AnyCase
		if err := json.Unmarshal(raw, &c); err != nil {
			t.Fatal(err)
		}
		c04AnyRun(t, c)
	}
}

func c04AnyRun(t rt.TB, c c04AnyCase) {
	script := c04AnyScripts()[c.Script]
	type outcome struct {
		vals     []any
		end      byte
		err      string
		pan      any
		returned bool
	}
	run := func(build func() ro.Observable[any]) (o outcome) {
		rt.NewSink()
		rec := rt.NewRecorder[any]()
		done := make(chan struct{})
		go func() {
			defer close(done)
			defer func() { o.pan = recover() }()
			build().Subscribe(rec).Wait()
		}()
		select {
		case <-done:
			o.returned = true
		case <-time.After(3 * time.Second):
		}
		tr := rec.Trace()
		for _, v := range tr.Vals {
			o.vals = append(o.vals, cat.Norm(v))
		}
		o.end, o.err = tr.End, cat.ErrKey(tr.Err)
		return o
	}
	want := run(func() ro.Observable[any] {
		return c04IntOps[c.Op](rt.NewScript("src", rt.CtorUnsafeCtx, script).Observable())
	})
	got := run(func() ro.Observable[any] {
		return c04AnyOps[c.Op](ro.Map(dress)(rt.NewScript("src", rt.CtorUnsafeCtx, script).Observable()))
	})
	fail := func(class, msg string) {
		rt.Report(t, rt.Failure{Property: "C04", Check: "interface-element-type", Op: c.Op, Class: class, Msg: msg, Case: c})
	}
	desc := fmt.Sprintf("%s over [%s]", c.Op, c.Script)
	if want.pan != nil || !want.returned {
		return
	}
	if got.pan != nil {
		fail("panic-escaped", fmt.Sprintf("%s with values of mixed dynamic types: %v", desc, got.pan))
		return
	}
	if !got.returned {
		fail("subscribe-never-returns", fmt.Sprintf("%s: returns with ints, still running after 3s with values of mixed dynamic types", desc))
		return
	}
	if !(len(want.vals) == 0 && len(got.vals) == 0) && !reflect.DeepEqual(want.vals, got.vals) || want.end != got.end || want.err != got.err {
		fail("output-depends-on-dynamic-types", fmt.Sprintf("%s: instantiated with int it delivers %v ending %q %s; with an interface type over the same values dressed as nil / int / string / struct it delivers %v ending %q %s", desc, want.vals, want.end, want.err, got.vals, got.end, got.err))
	}
}

func TestC04_InterfaceElementType(t *testing.T) {
	var ops, scripts []string
	for k := range c04IntOps {
		ops = append(ops, k)
	}
	for k := range c04AnyScripts() {
		scripts = append(scripts, k)
	}
	sort.Strings(ops)
	sort.Strings(scripts)
	idx := 0
	for _, op := range ops {
		for _, s := range scripts {
			idx++
			if !rt.Mine(idx) {
				continue
			}
			c := c04AnyCase{Op: op, Script: s}
			c04AnyRun(t, c)
			rt.Case(caseKey("anyvals", op, s), len(s) > 1, "interface-element-type", func() any { return c })
		}
	}
}
