package checks

import (
	"encoding/json"
	"fmt"
	"strings"
	"sync/atomic"
	"testing"
	"testing/synctest"
	"verifharness/model"

	"github.com/samber/ro"
	"pgregory.net/rapid"
	"verifharness/cat"
	"verifharness/rt"
)

// C03 / C05 for higher-order operators fed by an ASYNCHRONOUS outer observable
// (the concat-map / merge-map pattern): the outer producer runs on a goroutine
// of its own, so Subscribe returns while inner observables are live, and the
// subscription can be cut from outside at any point. After the cut every inner
// source must have been released and the producer must not stay blocked inside
// the operator.

type c03AsyncCase struct {
	Op       string    `json:"op"`
	K        int       `json:"k"`
	Arrivals []arrival `json:"arrivals"`
	CutAt    int       `json:"cut_at"` // Unsubscribe before arrival #CutAt (len = after all)
}

func init() {
	replayers["async-outer"] = func(t *testing.T, raw json.RawMessage) {
		var c c03AsyncCase
		if err := json.Unmarshal(raw, &c); err != nil {
			t.Fatal(err)
		}
		c03AsyncRun(t, t, c)
	}
}

var c03AsyncOps = []string{"ConcatAll", "MergeAll", "CombineLatestAll", "ZipAll", "MergeMap", "FlatMap"}

func c03AsyncBuild(op string, inners []ro.Observable[int], started, finished *int32) ro.Observable[any] {
	switch op {
	case "MergeMap", "FlatMap":
		outer := ro.NewObservable(func(d ro.Observer[int]) ro.Teardown {
			atomic.AddInt32(started, 1)
			go func() {
				defer atomic.AddInt32(finished, 1)
				for i := range inners {
					d.Next(i)
				}
				d.Complete()
			}()
			return nil
		})
		if op == "MergeMap" {
			return anyObs(ro.MergeMap(func(i int) ro.Observable[int] { return inners[i] })(outer))
		}
		return anyObs(ro.FlatMap(func(i int) ro.Observable[int] { return inners[i] })(outer))
	}
	outer := ro.NewObservable(func(d ro.Observer[ro.Observable[int]]) ro.Teardown {
		atomic.AddInt32(started, 1)
		go func() {
			defer atomic.AddInt32(finished, 1)
			for _, in := range inners {
				d.Next(in)
			}
			d.Complete()
		}()
		return nil
	})
	switch op {
	case "ConcatAll":
		return anyObs(ro.ConcatAll[int]()(outer))
	case "MergeAll":
		return anyObs(ro.MergeAll[int]()(outer))
	case "CombineLatestAll":
		return anyObs(ro.CombineLatestAll[int]()(outer))
	case "ZipAll":
		return anyObs(ro.ZipAll[int]()(outer))
	}
	panic("unknown op " + op)
}

func c03AsyncRun(tb rt.TB, t *testing.T, c c03AsyncCase) {
	modelRowName := map[string]string{"MergeMap": "MergeAll", "FlatMap": "ConcatAll"}[c.Op]
	if modelRowName == "" {
		modelRowName = c.Op
	}
	row := mrowByName(modelRowName)
	var failure *rt.Failure
	fail := func(class, msg string) {
		if failure == nil {
			failure = &rt.Failure{Property: "C03", Check: "async-outer", Op: c.Op, Class: class, Msg: msg, Case: c}
		}
	}
	problem := bubble(t, func() {
		rt.NewSink()
		srcs := make([]*rt.ManualSrc, c.K)
		obss := make([]ro.Observable[int], c.K)
		for i := range srcs {
			srcs[i] = rt.NewManual(fmt.Sprintf("S%d", i), rt.CtorUnsafeCtx)
			obss[i] = srcs[i].Observable()
		}
		var started, finished int32
		m := row.Model(c.K)
		rec := rt.NewRecorder[any]()
		sub := c03AsyncBuild(c.Op, obss, &started, &finished).Subscribe(rec)
		synctest.Wait()
		check := func(where string) bool {
			got := cat.TraceOf(rec.Trace())
			if !cat.SameTrace(got, m.Out) {
				fail("wrong-output", fmt.Sprintf("%s: output %s, the definition assigns %s", where, got, m.Out))
				return false
			}
			if g := rec.Grammar(); g != "" {
				fail("grammar", where+": "+g)
				return false
			}
			for i, s := range srcs {
				if m.NoRelCheck {
					continue
				}
				if m.Rel[i] && s.LiveDests() != 0 {
					fail("source-not-released", fmt.Sprintf("%s: inner source %d is still subscribed, the definition says it must have been released", where, i))
					return false
				}
				if m.Sub[i] && !m.Rel[i] && s.LiveDests() != 1 {
					fail("source-released-too-early", fmt.Sprintf("%s: inner source %d has %d live subscriptions, the definition says it must be connected", where, i, s.LiveDests()))
					return false
				}
			}
			return true
		}
		ok := check(fmt.Sprintf("%s(k=%d) right after Subscribe (asynchronous outer)", c.Op, c.K))
		for step := 0; step < len(c.Arrivals) && step < c.CutAt && ok; step++ {
			a := c.Arrivals[step]
			srcs[a.Src].Emit(a.Ev)
			m.On(a.Src, cat.ModelIn([]rt.Ev{a.Ev})[0])
			synctest.Wait()
			ok = check(fmt.Sprintf("%s(k=%d), asynchronous outer, after [%s]", c.Op, c.K, arrivalsString(c.Arrivals[:step+1])))
		}
		before := rec.Len()
		sub.Unsubscribe()
		synctest.Wait()
		where := fmt.Sprintf("%s(k=%d), asynchronous outer, [%s] then Unsubscribe from outside", c.Op, c.K, arrivalsString(c.Arrivals[:min(c.CutAt, len(c.Arrivals))]))
		if ok {
			for i, s := range srcs {
				if s.LiveDests() != 0 {
					fail("source-not-released-after-unsubscribe", fmt.Sprintf("%s: inner source %d is still subscribed", where, i))
					ok = false
				}
			}
		}
		if ok && atomic.LoadInt32(&finished) != atomic.LoadInt32(&started) {
			fail("producer-left-blocked-in-operator", fmt.Sprintf("%s: the outer producer goroutine is still blocked inside the operator's Next callback\n%s", where, blockedRoStacks()))
			ok = false
		}
		// a well-behaved hot source stops at release; nothing may arrive any more
		for _, s := range srcs {
			s.Emit(rt.N(99))
		}
		synctest.Wait()
		if ok && rec.Len() != before {
			fail("delivery-after-unsubscribe", fmt.Sprintf("%s: %d more notifications were delivered", where, rec.Len()-before))
		}
		// unwind whatever is left so that the bubble can end
		for round := 0; round <= c.K; round++ {
			for _, s := range srcs {
				s.EmitAll(rt.C())
				synctest.Wait()
			}
		}
	})
	if problem != "" && failure == nil {
		class := "panic-in-bubble"
		if strings.Contains(problem, "deadlock") {
			class = "goroutine-left-blocked"
		}
		fail(class, fmt.Sprintf("%s(k=%d) [%s] cut at %d: %s", c.Op, c.K, arrivalsString(c.Arrivals), c.CutAt, problem))
	}
	if failure != nil {
		rt.Report(tb, *failure)
	}
}

func TestC03_AsyncOuterRelease(t *testing.T) {
	currentT = t
	rapid.Check(t, func(rt_ *rapid.T) {
		op := rapid.SampledFrom(c03AsyncOps).Draw(rt_, "op")
		k := rapid.IntRange(2, 3).Draw(rt_, "k")
		scripts := make([][]rt.Ev, k)
		for i := range scripts {
			n := rapid.IntRange(0, 3).Draw(rt_, "values")
			for j := 1; j <= n; j++ {
				scripts[i] = append(scripts[i], rt.N(10*i+j))
			}
			switch rapid.IntRange(0, 3).Draw(rt_, "end") {
			case 0, 1:
				scripts[i] = append(scripts[i], rt.C())
			case 2:
				scripts[i] = append(scripts[i], rt.E(i+1))
			}
		}
		pos := make([]int, k)
		var as []arrival
		for {
			var open []int
			for i := range scripts {
				if pos[i] < len(scripts[i]) {
					open = append(open, i)
				}
			}
			if len(open) == 0 {
				break
			}
			i := rapid.SampledFrom(open).Draw(rt_, "next")
			as = append(as, arrival{Src: i, Ev: scripts[i][pos[i]]})
			pos[i]++
		}
		c := c03AsyncCase{Op: op, K: k, Arrivals: as, CutAt: rapid.IntRange(0, len(as)).Draw(rt_, "cut")}
		c03AsyncRun(rt_, t, c)
		rt.Case(caseKey("asyncouter", op, k, arrivalsString(as), c.CutAt), c.CutAt > 0, "async-outer:"+op, func() any { return c })
	})
}

// ---- MergeAll / MergeMap over a LIVE outer observable -----------------------------------
// Inner observables arrive over time, interleaved with the notifications of the
// inners already running; after every step each inner source is held exactly when
// the definition says, and after the cut (Unsubscribe, or an early-terminating
// downstream) none is.

type c03Dyn struct {
	Op    string  `json:"op"`    // MergeAll | MergeMap | MergeMapI
	K     int     `json:"k"`     // number of inner sources
	Steps []dynEv `json:"steps"` // outer / inner events
	Take  int     `json:"take"`  // >0: Take(n) downstream instead of a final Unsubscribe
}

type dynEv struct {
	Src int   `json:"src"` // -1: the outer observable; i >= 0: inner i
	Ev  rt.Ev `json:"ev"`  // outer: N(i) = "emit inner i", C, E; inner: N v, C, E
}

func (e dynEv) String() string {
	if e.Src < 0 {
		return "outer:" + e.Ev.String()
	}
	return fmt.Sprintf("S%d:%s", e.Src, e.Ev.String())
}

func init() {
	replayers["dynamic-outer"] = func(t *testing.T, raw json.RawMessage) {
		var c c03Dyn
		if err := json.Unmarshal(raw, &c); err != nil {
			t.Fatal(err)
		}
		c03DynRun(t, c)
	}
}

func c03DynRun(t rt.TB, c c03Dyn) {
	fail := func(class, msg string) {
		rt.Report(t, rt.Failure{Property: "C03", Check: "dynamic-outer", Op: c.Op, Class: class, Msg: msg, Case: c})
	}
	rt.NewSink()
	srcs := make([]*rt.ManualSrc, c.K)
	for i := range srcs {
		srcs[i] = rt.NewManual(fmt.Sprintf("S%d", i), rt.CtorUnsafeCtx)
	}
	outerLive := 0
	var pushInner func(i int)
	var outerEnd func(k byte)
	var obs ro.Observable[int]
	switch c.Op {
	case "MergeAll":
		var od ro.Observer[ro.Observable[int]]
		outer := ro.NewUnsafeObservable(func(d ro.Observer[ro.Observable[int]]) ro.Teardown {
			od = d
			outerLive++
			return func() { outerLive-- }
		})
		obs = ro.MergeAll[int]()(outer)
		pushInner = func(i int) { od.Next(srcs[i].Observable()) }
		outerEnd = func(k byte) {
			if k == 'C' {
				od.Complete()
			} else {
				od.Error(rt.Err(9))
			}
		}
	default:
		var od ro.Observer[int]
		outer := ro.NewUnsafeObservable(func(d ro.Observer[int]) ro.Teardown {
			od = d
			outerLive++
			return func() { outerLive-- }
		})
		if c.Op == "MergeMap" {
			obs = ro.MergeMap(func(i int) ro.Observable[int] { return srcs[i].Observable() })(outer)
		} else {
			obs = ro.MergeMapI(func(i int, _ int64) ro.Observable[int] { return srcs[i].Observable() })(outer)
		}
		pushInner = func(i int) { od.Next(i) }
		outerEnd = func(k byte) {
			if k == 'C' {
				od.Complete()
			} else {
				od.Error(rt.Err(9))
			}
		}
	}
	if c.Take > 0 {
		obs = ro.Take[int](int64(c.Take))(obs)
	}
	rec := rt.NewRecorder[int]()
	sub := obs.Subscribe(rec)
	// model
	subscribed := make([]bool, c.K)
	done := make([]bool, c.K)
	outerDone, ended := false, false
	var want model.Trace
	finish := func(k byte, e string) {
		if !ended {
			ended = true
			want.End, want.Err = k, e
		}
	}
	maybeComplete := func() {
		if !outerDone {
			return
		}
		for i := range subscribed {
			if subscribed[i] && !done[i] {
				return
			}
		}
		finish('C', "")
	}
	emitted := 0
	check := func(where string) bool {
		got := cat.TraceOf(rec.Trace())
		if !cat.SameTrace(got, want) {
			fail("wrong-output", fmt.Sprintf("%s: output %s, the definition assigns %s", where, got, want))
			return false
		}
		for i, s := range srcs {
			wantLive := 0
			if subscribed[i] && !done[i] && !ended {
				wantLive = 1
			}
			if s.LiveDests() != wantLive {
				class := "source-not-released"
				if s.LiveDests() < wantLive {
					class = "source-released-too-early"
				}
				fail(class, fmt.Sprintf("%s: inner source %d has %d live subscriptions, the definition says %d", where, i, s.LiveDests(), wantLive))
				return false
			}
		}
		if ended && outerLive != 0 {
			fail("source-not-released", where+": the output has ended, the outer observable is still subscribed")
			return false
		}
		return true
	}
	ok := check(c.Op + " right after Subscribe")
	for n, st := range c.Steps {
		if !ok {
			break
		}
		switch {
		case st.Src < 0 && st.Ev.K == 'N':
			i := st.Ev.V
			if !ended && !outerDone && i < c.K && !subscribed[i] {
				subscribed[i] = true
				pushInner(i)
			} else {
				continue
			}
		case st.Src < 0:
			if ended || outerDone {
				continue
			}
			outerEnd(st.Ev.K)
			if st.Ev.K == 'C' {
				outerDone = true
				maybeComplete()
			} else {
				outerDone = true
				finish('E', "e9")
			}
		default:
			i := st.Src
			srcs[i].Emit(st.Ev)
			if !subscribed[i] || done[i] || ended {
				break
			}
			switch st.Ev.K {
			case 'N':
				want.Vals = append(want.Vals, st.Ev.V)
				emitted++
				if c.Take > 0 && emitted == c.Take {
					finish('C', "")
				}
			case 'C':
				done[i] = true
				maybeComplete()
			case 'E':
				done[i] = true
				finish('E', fmt.Sprintf("e%d", st.Ev.V))
			}
		}
		var sb []string
		for _, x := range c.Steps[:n+1] {
			sb = append(sb, x.String())
		}
		ok = check(fmt.Sprintf("%s(take=%d) over a live outer observable after [%s]", c.Op, c.Take, strings.Join(sb, " ")))
	}
	sub.Unsubscribe()
	if ok {
		for i, s := range srcs {
			if s.LiveDests() != 0 {
				fail("source-not-released-after-unsubscribe", fmt.Sprintf("%s over a live outer observable, steps %v, then Unsubscribe: inner source %d is still subscribed", c.Op, c.Steps, i))
				break
			}
		}
		if outerLive != 0 {
			fail("source-not-released-after-unsubscribe", fmt.Sprintf("%s: the outer observable is still subscribed after Unsubscribe", c.Op))
		}
	}
}

func TestC03_DynamicOuterMerge(t *testing.T) {
	rapid.Check(t, func(t *rapid.T) {
		c := c03Dyn{Op: rapid.SampledFrom([]string{"MergeAll", "MergeMap", "MergeMapI"}).Draw(t, "op"), K: rapid.IntRange(2, 4).Draw(t, "k")}
		if rapid.IntRange(0, 3).Draw(t, "withTake") == 0 {
			c.Take = rapid.IntRange(1, 4).Draw(t, "take")
		}
		n := rapid.IntRange(2, 12).Draw(t, "steps")
		nextInner := 0
		for i := 0; i < n; i++ {
			switch rapid.IntRange(0, 9).Draw(t, "kind") {
			case 0, 1, 2:
				if nextInner < c.K {
					c.Steps = append(c.Steps, dynEv{Src: -1, Ev: rt.N(nextInner)})
					nextInner++
				}
			case 3:
				if rapid.IntRange(0, 2).Draw(t, "outerEnd") == 0 {
					c.Steps = append(c.Steps, dynEv{Src: -1, Ev: rapid.SampledFrom([]rt.Ev{rt.C(), rt.C(), rt.E(9)}).Draw(t, "end")})
				}
			default:
				src := rapid.IntRange(0, c.K-1).Draw(t, "inner")
				ev := rapid.SampledFrom([]rt.Ev{rt.N(10*src + i%7 + 1), rt.N(10*src + i%7 + 1), rt.N(10*src + i%7 + 1), rt.C(), rt.E(src + 1)}).Draw(t, "ev")
				c.Steps = append(c.Steps, dynEv{Src: src, Ev: ev})
			}
		}
		c03DynRun(t, c)
		rt.Case(caseKey("dynouter", c.Op, c.K, fmt.Sprint(c.Steps), c.Take), nextInner >= 2, "dynamic-outer:"+c.Op, func() any { return c })
	})
}
