package checks

import (
	"encoding/json"
	"fmt"
	"strings"
	"sync/atomic"
	"testing"
	"testing/synctest"

	"github.com/samber/ro"
	"pgregory.net/rapid"
	"verifharness/cat"
	"verifharness/rt"
)

// C03 / C05 for higher-order operators fed by an ASYNCHRONOUS outer observable
// (the concat-map / merge-map pattern): the outer producer runs on a goroutine
// of its own, so Subscribe returns while inner observables are live, and the
// subscription can be cut from outside at any point. After the cut every inner
// source must have been released and the producer must not stay blocked inside
// the operator.

type c03AsyncCase struct {
	Op       string    `json:"op"`
	K        int       `json:"k"`
	Arrivals []arrival `json:"arrivals"`
	CutAt    int       `json:"cut_at"` // Unsubscribe before arrival #CutAt (len = after all)
}

func init() {
	replayers["async-outer"] = func(t *testing.T, raw json.RawMessage) {
		var c c03AsyncCase
		if err := json.Unmarshal(raw, &c); err != nil {
			t.Fatal(err)
		}
		c03AsyncRun(t, t, c)
	}
}

var c03AsyncOps = []string{"ConcatAll", "MergeAll", "CombineLatestAll", "ZipAll", "MergeMap", "FlatMap"}

func c03AsyncBuild(op string, inners []ro.Observable[int], started, finished *int32) ro.Observable[any] {
	switch op {
	case "MergeMap", "FlatMap":
		outer := ro.NewObservable(func(d ro.Observer[int]) ro.Teardown {
			atomic.AddInt32(started, 1)
			go func() {
				defer atomic.AddInt32(finished, 1)
				for i := range inners {
					d.Next(i)
				}
				d.Complete()
			}()
			return nil
		})
		if op == "MergeMap" {
			return anyObs(ro.MergeMap(func(i int) ro.Observable[int] { return inners[i] })(outer))
		}
		return anyObs(ro.FlatMap(func(i int) ro.Observable[int] { return inners[i] })(outer))
	}
	outer := ro.NewObservable(func(d ro.Observer[ro.Observable[int]]) ro.Teardown {
		atomic.AddInt32(started, 1)
		go func() {
			defer atomic.AddInt32(finished, 1)
			for _, in := range inners {
				d.Next(in)
			}
			d.Complete()
		}()
		return nil
	})
	switch op {
	case "ConcatAll":
		return anyObs(ro.ConcatAll[int]()(outer))
	case "MergeAll":
		return anyObs(ro.MergeAll[int]()(outer))
	case "CombineLatestAll":
		return anyObs(ro.CombineLatestAll[int]()(outer))
	case "ZipAll":
		return anyObs(ro.ZipAll[int]()(outer))
	}
	panic("unknown op " + op)
}

func c03AsyncRun(tb rt.TB, t *testing.T, c c03AsyncCase) {
	modelRowName := map[string]string{"MergeMap": "MergeAll", "FlatMap": "ConcatAll"}[c.Op]
	if modelRowName == "" {
		modelRowName = c.Op
	}
	row := mrowByName(modelRowName)
	var failure *rt.Failure
	fail := func(class, msg string) {
		if failure == nil {
			failure = &rt.Failure{Property: "C03", Check: "async-outer", Op: c.Op, Class: class, Msg: msg, Case: c}
		}
	}
	problem := bubble(t, func() {
		rt.NewSink()
		srcs := make([]*rt.ManualSrc, c.K)
		obss := make([]ro.Observable[int], c.K)
		for i := range srcs {
			srcs[i] = rt.NewManual(fmt.Sprintf("S%d", i), rt.CtorUnsafeCtx)
			obss[i] = srcs[i].Observable()
		}
		var started, finished int32
		m := row.Model(c.K)
		rec := rt.NewRecorder[any]()
		sub := c03AsyncBuild(c.Op, obss, &started, &finished).Subscribe(rec)
		synctest.Wait()
		check := func(where string) bool {
			got := cat.TraceOf(rec.Trace())
			if !cat.SameTrace(got, m.Out) {
				fail("wrong-output", fmt.Sprintf("%s: output %s, the definition assigns %s", where, got, m.Out))
				return false
			}
			if g := rec.Grammar(); g != "" {
				fail("grammar", where+": "+g)
				return false
			}
			for i, s := range srcs {
				if m.NoRelCheck {
					continue
				}
				if m.Rel[i] && s.LiveDests() != 0 {
					fail("source-not-released", fmt.Sprintf("%s: inner source %d is still subscribed, the definition says it must have been released", where, i))
					return false
				}
				if m.Sub[i] && !m.Rel[i] && s.LiveDests() != 1 {
					fail("source-released-too-early", fmt.Sprintf("%s: inner source %d has %d live subscriptions, the definition says it must be connected", where, i, s.LiveDests()))
					return false
				}
			}
			return true
		}
		ok := check(fmt.Sprintf("%s(k=%d) right after Subscribe (asynchronous outer)", c.Op, c.K))
		for step := 0; step < len(c.Arrivals) && step < c.CutAt && ok; step++ {
			a := c.Arrivals[step]
			srcs[a.Src].Emit(a.Ev)
			m.On(a.Src, cat.ModelIn([]rt.Ev{a.Ev})[0])
			synctest.Wait()
			ok = check(fmt.Sprintf("%s(k=%d), asynchronous outer, after [%s]", c.Op, c.K, arrivalsString(c.Arrivals[:step+1])))
		}
		before := rec.Len()
		sub.Unsubscribe()
		synctest.Wait()
		where := fmt.Sprintf("%s(k=%d), asynchronous outer, [%s] then Unsubscribe from outside", c.Op, c.K, arrivalsString(c.Arrivals[:min(c.CutAt, len(c.Arrivals))]))
		if ok {
			for i, s := range srcs {
				if s.LiveDests() != 0 {
					fail("source-not-released-after-unsubscribe", fmt.Sprintf("%s: inner source %d is still subscribed", where, i))
					ok = false
				}
			}
		}
		if ok && atomic.LoadInt32(&finished) != atomic.LoadInt32(&started) {
			fail("producer-left-blocked-in-operator", fmt.Sprintf("%s: the outer producer goroutine is still blocked inside the operator's Next callback\n%s", where, blockedRoStacks()))
			ok = false
		}
		// a well-behaved hot source stops at release; nothing may arrive any more
		for _, s := range srcs {
			s.Emit(rt.N(99))
		}
		synctest.Wait()
		if ok && rec.Len() != before {
			fail("delivery-after-unsubscribe", fmt.Sprintf("%s: %d more notifications were delivered", where, rec.Len()-before))
		}
		// unwind whatever is left so that the bubble can end
		for round := 0; round <= c.K; round++ {
			for _, s := range srcs {
				s.EmitAll(rt.C())
				synctest.Wait()
			}
		}
	})
	if problem != "" && failure == nil {
		class := "panic-in-bubble"
		if strings.Contains(problem, "deadlock") {
			class = "goroutine-left-blocked"
		}
		fail(class, fmt.Sprintf("%s(k=%d) [%s] cut at %d: %s", c.Op, c.K, arrivalsString(c.Arrivals), c.CutAt, problem))
	}
	if failure != nil {
		rt.Report(tb, *failure)
	}
}

func TestC03_AsyncOuterRelease(t *testing.T) {
	currentT = t
	rapid.Check(t, func(rt_ *rapid.T) {
		op := rapid.SampledFrom(c03AsyncOps).Draw(rt_, "op")
		k := rapid.IntRange(2, 3).Draw(rt_, "k")
		scripts := make([][]rt.Ev, k)
		for i := range scripts {
			n := rapid.IntRange(0, 3).Draw(rt_, "values")
			for j := 1; j <= n; j++ {
				scripts[i] = append(scripts[i], rt.N(10*i+j))
			}
			switch rapid.IntRange(0, 3).Draw(rt_, "end") {
			case 0, 1:
				scripts[i] = append(scripts[i], rt.C())
			case 2:
				scripts[i] = append(scripts[i], rt.E(i+1))
			}
		}
		pos := make([]int, k)
		var as []arrival
		for {
			var open []int
			for i := range scripts {
				if pos[i] < len(scripts[i]) {
					open = append(open, i)
				}
			}
			if len(open) == 0 {
				break
			}
			i := rapid.SampledFrom(open).Draw(rt_, "next")
			as = append(as, arrival{Src: i, Ev: scripts[i][pos[i]]})
			pos[i]++
		}
		c := c03AsyncCase{Op: op, K: k, Arrivals: as, CutAt: rapid.IntRange(0, len(as)).Draw(rt_, "cut")}
		c03AsyncRun(rt_, t, c)
		rt.Case(caseKey("asyncouter", op, k, arrivalsString(as), c.CutAt), c.CutAt > 0, "async-outer:"+op, func() any { return c })
	})
}
