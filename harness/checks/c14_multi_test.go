package checks

import (
	"encoding/json"
	"fmt"
	"testing"
	"time"

	"github.com/samber/ro"
	"verifharness/rt"
)

// C14 for the operators with SEVERAL upstream sources: never-ending hot sources, a
// few values each, then the downstream side ends - one of the sources fails, a
// Take(n) below the operator is satisfied, or the subscriber unsubscribes. Once the
// subscriber has seen an ending (or has unsubscribed), EVERY source the operator had
// subscribed is released, without any of them having to emit again.

type c14Multi struct {
	Op    string `json:"op"`
	K     int    `json:"k"`
	Vals  int    `json:"values_per_source_before_the_cut"`
	Cut   string `json:"cut"` // "source i fails" | "Take(n) below" | "Unsubscribe"
	Which int    `json:"which"`
	// SyncFirst = i+1: source i delivers one value from inside its subscription (and then
	// stays open like the others) - a notifier that fires while the operator is still
	// subscribing its sources.
	SyncFirst int `json:"source_emitting_during_subscription,omitempty"`
}

func init() {
	replayers["multi-source-stage"] = func(t *testing.T, raw json.RawMessage) {
		var c c14Multi
		if err := json.Unmarshal(raw, &c); err != nil {
			t.Fatal(err)
		}
		c14MultiRun(t, c)
	}
}

func c14MultiRun(t rt.TB, c c14Multi) {
	row := mrowByName(c.Op)
	rt.NewSink()
	srcs := make([]*rt.ManualSrc, c.K)
	obss := make([]ro.Observable[int], c.K)
	for i := range srcs {
		srcs[i] = rt.NewManual(fmt.Sprintf("S%d", i), rt.CtorUnsafeCtx)
		obss[i] = srcs[i].Observable()
		if c.SyncFirst == i+1 {
			obss[i] = ro.StartWith(0)(obss[i])
		}
	}
	rec := rt.NewRecorder[any]()
	fail := func(class, msg string) {
		rt.Report(t, rt.Failure{Property: "C14", Check: "multi-source-stage", Op: c.Op, Class: class, Msg: msg, Case: c})
	}
	var pan any
	finished := make(chan struct{})
	go func() {
		defer close(finished)
		defer func() { pan = recover() }()
		pipe := row.Build(obss)
		if c.Cut == "Take(n) below" {
			pipe = ro.Take[any](int64(c.Which))(pipe)
		}
		sub := pipe.Subscribe(rec)
		for j := 0; j < c.Vals; j++ {
			for i := range srcs {
				v := 10*i + j + 1
				if row.Same {
					v = j + 1
				}
				srcs[i].Emit(rt.N(v))
			}
		}
		switch c.Cut {
		case "source i fails":
			srcs[c.Which].Emit(rt.E(1))
		case "Unsubscribe":
			sub.Unsubscribe()
		}
	}()
	stuck := false
	select {
	case <-finished:
	case <-time.After(5 * time.Second):
		stuck = true
	}
	desc := fmt.Sprintf("%s(k=%d), %d value(s) per source, then %s (%d)", c.Op, c.K, c.Vals, c.Cut, c.Which)
	if c.SyncFirst > 0 {
		desc += fmt.Sprintf(", source %d delivering a first value during its subscription", c.SyncFirst-1)
	}
	if stuck {
		fail("pipeline-deadlocks-on-downstream-termination", fmt.Sprintf("%s: the goroutine driving the sources has not come back after 5s (everything here is synchronous)", desc))
		return
	}
	if pan != nil {
		fail("panic-escaped", fmt.Sprintf("%s: %v", desc, pan))
		return
	}
	ended := rec.Trace().End != 0 || c.Cut == "Unsubscribe"
	if !ended {
		return // the downstream side has not ended (the operator swallowed the failure, or Take was not satisfied): nothing to release yet
	}
	for i, s := range srcs {
		if n := s.LiveDests(); n != 0 {
			fail("source-still-subscribed-after-downstream-ended", fmt.Sprintf("%s: the subscriber has seen %s, yet source %d of %d is still subscribed (%d live subscription(s)); sources are never-ending, nothing else will release it", desc, rt_end(rec.Trace().End, c.Cut), i, c.K, n))
			return
		}
	}
}

func rt_end(e byte, cut string) string {
	switch e {
	case 'E':
		return "an error"
	case 'C':
		return "the completion"
	}
	return "nothing more after its " + cut
}

func TestC14_MultiSourceStages(t *testing.T) {
	idx := 0
	all := append(append([]mrow{}, mrows...), mrowsWide...)
	for ri := range all {
		row := &all[ri]
		if row.Family == "concat" {
			continue // Subscribe stays inside the first source until it ends: driven by C15's attempt sequences and C14's asynchronous stages
		}
		for _, k := range row.K {
			if k == 0 {
				continue
			}
			for _, vals := range []int{0, 1, 2} {
				var cuts []c14Multi
				for i := 0; i < k; i++ {
					cuts = append(cuts, c14Multi{Cut: "source i fails", Which: i})
				}
				cuts = append(cuts, c14Multi{Cut: "Take(n) below", Which: 1}, c14Multi{Cut: "Take(n) below", Which: 2}, c14Multi{Cut: "Unsubscribe"})
				for _, cc := range cuts {
					for sf := 0; sf <= k; sf++ {
						idx++
						if !rt.Mine(idx) {
							continue
						}
						c := c14Multi{Op: row.Name, K: k, Vals: vals, Cut: cc.Cut, Which: cc.Which, SyncFirst: sf}
						c14MultiRun(t, c)
						rt.Case(caseKey("c14multi", row.Name, k, vals, cc.Cut, cc.Which, sf), vals > 0 || sf > 0, "multi-source:"+row.Family, func() any { return c })
					}
				}
			}
		}
	}
}
