package checks

import (
	"encoding/json"
	"fmt"
	"sync"
	"sync/atomic"
	"testing"
	"time"

	"github.com/samber/ro"
	"verifharness/rt"
)

// C08 with SEVERAL producers: wherever the library serialises concurrent
// producers (Serialize, the safe constructors, Merge and friends, subjects, Share),
// a producer's Next still returns only once the observer has finished handling
// THAT value - a second producer waits its turn, its value is not parked in a
// hidden queue for someone else to deliver later.

type c08Conc struct {
	Top       string `json:"top"`
	Producers int    `json:"producers"`
	Values    int    `json:"values_each"`
	DwellUs   int    `json:"dwell_us"`
	Reps      int    `json:"reps"`
}

func init() {
	replayers["concurrent-backpressure"] = func(t *testing.T, raw json.RawMessage) {
		var c c08Conc
		if err := json.Unmarshal(raw, &c); err != nil {
			t.Fatal(err)
		}
		c.Reps *= 10
		c08ConcRun(t, c)
	}
}

var c08ConcTops = []string{"Serialize", "Serialize>Map", "NewSafeObservable", "Merge", "MergeAll", "MergeWith>Filter", "PublishSubject", "Share", "CombineLatestAll>Map"}

func c08ConcRun(t rt.TB, c c08Conc) {
	for rep := 0; rep < c.Reps; rep++ {
		total := c.Producers * c.Values
		handled := make([]int32, total+1)
		// push[i] delivers one value on behalf of producer i
		push := make([]func(v int), c.Producers)
		var obs ro.Observable[int]
		srcs := make([]*rt.ManualSrc, c.Producers)
		obss := make([]ro.Observable[int], c.Producers)
		for i := range srcs {
			srcs[i] = rt.NewManual(fmt.Sprintf("S%d", i), rt.CtorUnsafeCtx)
			obss[i] = srcs[i].Observable()
			i := i
			push[i] = func(v int) { srcs[i].Emit(rt.N(v)) }
		}
		one := rt.NewManual("shared", rt.CtorUnsafeCtx) // ONE unsafe source fed by every producer
		shared := func() {
			for i := range push {
				push[i] = func(v int) { one.Emit(rt.N(v)) }
			}
		}
		ident := ro.Map(func(x int) int { return x })
		switch c.Top {
		case "Serialize":
			shared()
			obs = ro.Serialize[int]()(one.Observable())
		case "Serialize>Map":
			shared()
			obs = ident(ro.Serialize[int]()(one.Observable()))
		case "NewSafeObservable":
			var dest atomic.Pointer[ro.Observer[int]]
			obs = ro.NewSafeObservable(func(d ro.Observer[int]) ro.Teardown { dest.Store(&d); return nil })
			for i := range push {
				push[i] = func(v int) { (*dest.Load()).Next(v) }
			}
		case "Merge":
			obs = ro.Merge(obss...)
		case "MergeAll":
			obs = ro.MergeAll[int]()(ro.Just(obss...))
		case "MergeWith>Filter":
			obs = ro.Filter(func(int) bool { return true })(ro.MergeWith(obss[1:]...)(obss[0]))
		case "PublishSubject":
			s := ro.NewPublishSubject[int]()
			obs = s
			for i := range push {
				push[i] = func(v int) { s.Next(v) }
			}
		case "Share":
			shared()
			obs = ro.Share[int]()(ro.Serialize[int]()(one.Observable()))
		case "CombineLatestAll>Map":
			// the value of producer i is recognisable in the combination: handled[] is
			// keyed by the newest component
			obs = ro.Map(func(xs []int) int {
				m := 0
				for _, x := range xs {
					if x > m {
						m = x
					}
				}
				return m
			})(ro.CombineLatestAll[int]()(ro.Just(obss...)))
		}
		sub := obs.Subscribe(ro.NewObserver(func(v int) {
			if c.DwellUs > 0 {
				time.Sleep(time.Duration(c.DwellUs) * time.Microsecond)
			}
			if v >= 1 && v <= total {
				atomic.StoreInt32(&handled[v], 1)
			}
		}, func(error) {}, func() {}))
		var early int32
		var earlyV int32
		var wg sync.WaitGroup
		start := make(chan struct{})
		for p := 0; p < c.Producers; p++ {
			wg.Add(1)
			go func(p int) {
				defer wg.Done()
				<-start
				for k := 0; k < c.Values; k++ {
					// values are handed out in increasing order overall so that "newest
					// component" identifies them in combinations
					v := p + 1 + k*c.Producers
					push[p](v)
					if c.Top == "CombineLatestAll>Map" {
						continue // a combination is only emitted once every source has a value
					}
					if atomic.LoadInt32(&handled[v]) == 0 {
						atomic.StoreInt32(&early, 1)
						atomic.StoreInt32(&earlyV, int32(v))
					}
				}
			}(p)
		}
		close(start)
		wg.Wait()
		sub.Unsubscribe()
		if atomic.LoadInt32(&early) == 1 {
			rt.Report(t, rt.Failure{Property: "C08", Check: "concurrent-backpressure", Op: c.Top, Class: "next-returned-before-downstream-handled-the-value", Msg: fmt.Sprintf("%s, %d producers x %d values, observer taking %dus per value (repetition %d): Next(%d) returned to its producer although the observer had not handled that value yet - it was parked for another goroutine to deliver", c.Top, c.Producers, c.Values, c.DwellUs, rep, atomic.LoadInt32(&earlyV)), Case: c})
			return
		}
	}
}

func TestC08_ConcurrentProducersBackpressure(t *testing.T) {
	reps := 15
	if rt.Thorough() {
		reps = 300
	}
	idx := 0
	for _, top := range c08ConcTops {
		for _, k := range []int{2, 4} {
			for _, dwell := range []int{0, 50} {
				idx++
				if !rt.Mine(idx) {
					continue
				}
				c := c08Conc{Top: top, Producers: k, Values: 4, DwellUs: dwell, Reps: reps}
				c08ConcRun(t, c)
				rt.Case(caseKey("concbp", top, k, dwell), true, "concurrent-backpressure:"+top, func() any { return c })
			}
		}
	}
}
