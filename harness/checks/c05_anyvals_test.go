package checks

import (
	"fmt"

	"github.com/samber/lo"
	"github.com/samber/ro"
	"verifharness/model"
)

// The multi-source operators instantiated with an INTERFACE element type (what
// CombineLatestAny exists for): the values of one stream then have different
// dynamic types, and nil is a value like any other. dress maps the ints of a script
// to such payloads one-to-one, undress maps what comes out back, and the int step
// model stays the oracle - an operator has no business looking at dynamic types.

type dressed struct{ X int }

func dress(v int) any {
	switch {
	case v == 2:
		return nil
	case v%3 == 0:
		return v
	case v%3 == 1:
		return fmt.Sprintf("s%d", v)
	default:
		return dressed{v}
	}
}

func undress(x any) any {
	switch t := x.(type) {
	case nil:
		return 2
	case int:
		return t
	case string:
		var v int
		fmt.Sscanf(t, "s%d", &v)
		return v
	case dressed:
		return t.X
	case []any:
		out := make([]int, len(t))
		for i := range t {
			out[i], _ = undress(t[i]).(int)
		}
		return out
	case lo.Tuple2[any, any]:
		return lo.Tuple2[int, int]{A: undress(t.A).(int), B: undress(t.B).(int)}
	case lo.Tuple3[any, any, any]:
		return lo.Tuple3[int, int, int]{A: undress(t.A).(int), B: undress(t.B).(int), C: undress(t.C).(int)}
	}
	return x
}

func dressAll(s []ro.Observable[int]) []ro.Observable[any] {
	out := make([]ro.Observable[any], len(s))
	for i := range s {
		out[i] = ro.Map(dress)(s[i])
	}
	return out
}

func undressObs[T any](o ro.Observable[T]) ro.Observable[any] {
	return ro.Map(func(v T) any { return undress(any(v)) })(o)
}

// mrowsDressed take part in the random arrival orders only (sequential step oracle).
var mrowsDressed []mrow

func init() {
	mrowsDressed = append(mrowsDressed,
		mrow{Name: "CombineLatestAny[dynamic types]", Family: "combinelatest", K: []int{2, 3}, Model: model.CombineLatest,
			Build: func(s []ro.Observable[int]) ro.Observable[any] { return undressObs(ro.CombineLatestAny(dressAll(s)...)) }},
		mrow{Name: "CombineLatestAll[any]", Family: "combinelatest", K: []int{2, 3}, Model: model.CombineLatest,
			Build: func(s []ro.Observable[int]) ro.Observable[any] {
				return undressObs(ro.CombineLatestAll[any]()(ro.Just(dressAll(s)...)))
			}},
		mrow{Name: "CombineLatest2[any]", Family: "combinelatest", K: []int{2}, Model: model.CombineLatest,
			Build: func(s []ro.Observable[int]) ro.Observable[any] {
				d := dressAll(s)
				return undressObs(ro.CombineLatest2(d[0], d[1]))
			}},
		mrow{Name: "ZipAll[any]", Family: "zip", K: []int{2, 3}, Model: model.Zip,
			Build: func(s []ro.Observable[int]) ro.Observable[any] { return undressObs(ro.ZipAll[any]()(ro.Just(dressAll(s)...))) }},
		mrow{Name: "Zip2[any]", Family: "zip", K: []int{2}, Model: model.Zip,
			Build: func(s []ro.Observable[int]) ro.Observable[any] {
				d := dressAll(s)
				return undressObs(ro.Zip2(d[0], d[1]))
			}},
		mrow{Name: "Merge[any]", Family: "merge", K: []int{2, 3}, Model: model.Merge,
			Build: func(s []ro.Observable[int]) ro.Observable[any] { return undressObs(ro.Merge(dressAll(s)...)) }},
		mrow{Name: "Race[any]", Family: "race", K: []int{2, 3}, Model: model.Race,
			Build: func(s []ro.Observable[int]) ro.Observable[any] { return undressObs(ro.Race(dressAll(s)...)) }},
	)
}
