package checks

import (
	"encoding/json"
	"fmt"
	"os"
	"strings"
	"testing"

	"github.com/samber/ro"
	"verifharness/cat"
	"verifharness/model"
	"verifharness/rt"
)

func TestMain(m *testing.M) {
	rt.InstallHooks()
	model.PinnedMaxEmptyZero = rt.KnownFor("C04", "model", "Max", "trace-mismatch-on-empty-source") != nil
	code := m.Run()
	rt.Flush()
	os.Exit(code)
}

// ---- script enumeration ---------------------------------------------------------

// legalScripts returns every sequence of at most maxLen values over alphabet,
// with each of the endings in ends ('C', 'E', 0 = open).
func legalScripts(alphabet []int, maxLen int, ends []byte) [][]rt.Ev {
	var out [][]rt.Ev
	var rec func(prefix []rt.Ev)
	rec = func(prefix []rt.Ev) {
		for _, e := range ends {
			s := append([]rt.Ev(nil), prefix...)
			switch e {
			case 'C':
				s = append(s, rt.C())
			case 'E':
				s = append(s, rt.E(1))
			}
			out = append(out, s)
		}
		if len(prefix) == maxLen {
			return
		}
		for _, a := range alphabet {
			rec(append(append([]rt.Ev(nil), prefix...), rt.N(a)))
		}
	}
	rec(nil)
	return out
}

// allWords returns every word of length <= maxLen over {N1, N2, E1, C},
// including words that go on after a terminal.
func allWords(maxLen int) [][]rt.Ev {
	letters := []rt.Ev{rt.N(1), rt.N(2), rt.E(1), rt.C()}
	var out [][]rt.Ev
	var rec func(prefix []rt.Ev)
	rec = func(prefix []rt.Ev) {
		out = append(out, append([]rt.Ev(nil), prefix...))
		if len(prefix) == maxLen {
			return
		}
		for _, l := range letters {
			rec(append(append([]rt.Ev(nil), prefix...), l))
		}
	}
	rec(nil)
	return out
}

func scriptEnd(s []rt.Ev) byte {
	for _, e := range s {
		if e.K != 'N' {
			return e.K
		}
	}
	return 0
}

func scriptValues(s []rt.Ev) int {
	n := 0
	for _, e := range s {
		if e.K != 'N' {
			break
		}
		n++
	}
	return n
}

// lateCount = notifications after the first terminal.
func lateCount(s []rt.Ev) int {
	for i, e := range s {
		if e.K != 'N' {
			return len(s) - i - 1
		}
	}
	return 0
}

// ---- running one stage ---------------------------------------------------------------

type runResult struct {
	rec   *rt.Recorder[any]
	src   *rt.ScriptSrc
	env   *cat.Env
	sink  *rt.Sink
	sub   ro.Subscription
	panic any
}

// runRow subscribes a recorder to row(variant, params) over a scripted cold
// source and returns what happened. Panics escaping Subscribe are captured.
func runRow(row *cat.Row, variant string, p []int, script []rt.Ev, ctor rt.Ctor, env *cat.Env) *runResult {
	if env == nil {
		env = cat.NewEnv()
	}
	res := &runResult{rec: rt.NewRecorder[any](), env: env, sink: rt.NewSink()}
	res.src = rt.NewScript("src", ctor, script)
	func() {
		defer func() {
			if r := recover(); r != nil {
				res.panic = r
			}
		}()
		obs := row.Build(variant, p, env)(res.src.Observable())
		res.sub = obs.Subscribe(res.rec)
	}()
	return res
}

// modelRow runs the row's model over the script.
func modelRow(row *cat.Row, p []int, script []rt.Ev, plan map[string]cat.FaultPlan) (tr model.Trace, blocked bool) {
	menv := cat.NewMEnv(plan)
	defer func() {
		if r := recover(); r != nil {
			if _, ok := r.(model.Blocked); ok {
				blocked = true
				return
			}
			panic(r)
		}
	}()
	tr = model.Observe(row.Model(p, menv)(model.Cold(cat.ModelIn(script))))
	return tr, false
}

func caseKey(parts ...any) string {
	var b strings.Builder
	for i, p := range parts {
		if i > 0 {
			b.WriteByte('|')
		}
		switch x := p.(type) {
		case []rt.Ev:
			b.WriteString(rt.ScriptString(x))
		default:
			fmt.Fprint(&b, x)
		}
	}
	return b.String()
}

// ---- replay dispatch -------------------------------------------------------------------

var replayers = map[string]func(t *testing.T, raw json.RawMessage){}

func TestReplay(t *testing.T) {
	path := os.Getenv("VERIF_REPLAY")
	if path == "" {
		t.Skip("VERIF_REPLAY not set")
	}
	b, err := os.ReadFile(path)
	if err != nil {
		t.Fatalf("read %s: %v", path, err)
	}
	var f struct {
		Property string          `json:"property"`
		Check    string          `json:"check"`
		Case     json.RawMessage `json:"case"`
	}
	if err := json.Unmarshal(b, &f); err != nil {
		t.Fatalf("parse %s: %v", path, err)
	}
	fn := replayers[f.Check]
	if fn == nil {
		t.Fatalf("no replayer for check %q", f.Check)
	}
	fn(t, f.Case)
}
