package checks

import (
	"context"
	"encoding/json"
	"fmt"
	"strings"
	"testing"

	"github.com/samber/ro"
	"pgregory.net/rapid"
	"verifharness/rt"
)

// C07, last clause: "failures that no one can receive go to the unhandled-error
// hook". Observers built without an error callback (NewObserverWithContext with a
// nil onError) cannot receive a failure: a panic of their Next callback must reach
// OnUnhandledError exactly once with its cause, and an Error notification addressed
// to them must surface exactly once through one of the two hooks - never vanish,
// never escape as a panic.

type c07Partial struct {
	Via      string  `json:"via"`       // direct | Map | Filter>Map | subject
	Script   []rt.Ev `json:"script"`    // values then ending
	PanicAt  int     `json:"panic_at"`  // the observer's Next panics on this value index (-1: never)
	HasDone  bool    `json:"has_complete_callback"`
	PanicErr bool    `json:"panic_with_error_value"`
}

func init() {
	replayers["partial-observer"] = func(t *testing.T, raw json.RawMessage) {
		var c c07Partial
		if err := json.Unmarshal(raw, &c); err != nil {
			t.Fatal(err)
		}
		c07PartialRun(t, c)
	}
}

func c07PartialRun(t rt.TB, c c07Partial) {
	fail := func(class, msg string) {
		rt.Report(t, rt.Failure{Property: "C07", Check: "partial-observer", Op: c.Via, Class: class, Msg: msg, Case: c})
	}
	sink := rt.NewSink()
	seen := 0
	cause := "boom-c07-partial"
	onNext := func(ctx context.Context, v int) {
		i := seen
		seen++
		if i == c.PanicAt {
			if c.PanicErr {
				panic(fmt.Errorf("%s", cause))
			}
			panic(cause)
		}
	}
	var onDone func(context.Context)
	if c.HasDone {
		onDone = func(context.Context) {}
	}
	obs := ro.NewObserverWithContext[int](onNext, nil, onDone)
	var pan any
	func() {
		defer func() { pan = recover() }()
		switch c.Via {
		case "subject":
			s := ro.NewPublishSubject[int]()
			s.Subscribe(obs)
			for _, e := range c.Script {
				switch e.K {
				case 'N':
					s.Next(e.V)
				case 'E':
					s.Error(rt.Err(e.V))
				case 'C':
					s.Complete()
				}
			}
		default:
			src := rt.NewScript("src", rt.CtorUnsafeCtx, c.Script)
			var o ro.Observable[int] = src.Observable()
			switch c.Via {
			case "Map":
				o = ro.Map(func(x int) int { return x })(o)
			case "Filter>Map":
				o = ro.Map(func(x int) int { return x })(ro.Filter(func(int) bool { return true })(o))
			}
			o.Subscribe(obs)
		}
	}()
	desc := fmt.Sprintf("observer without error callback via %s over [%s], Next panics at value #%d", c.Via, rt.ScriptString(c.Script), c.PanicAt)
	if pan != nil {
		fail("panic-escaped", fmt.Sprintf("%s: %v", desc, pan))
		return
	}
	nvals := scriptValues(c.Script)
	unhandled := sink.UnhandledErrs()
	if c.PanicAt >= 0 && c.PanicAt < nvals {
		n := 0
		for _, e := range unhandled {
			if strings.Contains(e.Error(), cause) {
				n++
			}
		}
		if n != 1 {
			fail("unreceivable-fault-not-in-unhandled-hook", fmt.Sprintf("%s: the panic reached OnUnhandledError %d times, want exactly once (hook saw %v; dropped: %v)", desc, n, unhandled, sink.DroppedList()))
			return
		}
	}
	if scriptEnd(c.Script) == 'E' {
		key := rt.Err(c.Script[len(c.Script)-1].V).Error()
		n := 0
		for _, e := range unhandled {
			if strings.Contains(e.Error(), key) {
				n++
			}
		}
		for _, d := range sink.DroppedList() {
			if strings.Contains(d, key) {
				n++
			}
		}
		if n != 1 {
			fail("unreceivable-error-vanished", fmt.Sprintf("%s: the source's error %q surfaced %d times through the hooks, want exactly once (unhandled %v; dropped %v)", desc, key, n, unhandled, sink.DroppedList()))
		}
	}
}

func TestC07_PartialObservers(t *testing.T) {
	rapid.Check(t, propC07PartialObservers)
}

func propC07PartialObservers(t *rapid.T) {
	n := rapid.IntRange(0, 4).Draw(t, "values")
	var script []rt.Ev
	for i := 1; i <= n; i++ {
		script = append(script, rt.N(i))
	}
	switch rapid.IntRange(0, 2).Draw(t, "end") {
	case 0:
		script = append(script, rt.C())
	case 1:
		script = append(script, rt.E(3))
	}
	c := c07Partial{Via: rapid.SampledFrom([]string{"direct", "Map", "Filter>Map", "subject"}).Draw(t, "via"), Script: script,
		PanicAt: rapid.IntRange(-1, 4).Draw(t, "panicAt"), HasDone: rapid.Bool().Draw(t, "hasDone"), PanicErr: rapid.Bool().Draw(t, "panicErr")}
	c07PartialRun(t, c)
	rt.Case(caseKey("partial", c.Via, rt.ScriptString(script), c.PanicAt, c.HasDone, c.PanicErr), c.PanicAt >= 0 && c.PanicAt < n || scriptEnd(script) == 'E', "partial:"+c.Via, func() any { return c })
}
