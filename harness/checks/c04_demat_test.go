package checks

import (
	"encoding/json"
	"fmt"
	"reflect"
	"testing"

	"github.com/samber/ro"
	"pgregory.net/rapid"
	"verifharness/rt"
)

// C04 for Dematerialize over ARBITRARY notification streams (the catalogue only
// feeds it what Materialize produced): in-band notifications are replayed in
// order, the first in-band terminal ends the output, and a stream of
// notifications that ends by itself - completion or error of the source, with no
// in-band terminal before - ends the output the same way.

type c04Demat struct {
	Notifs []string `json:"notifications"` // "N<v>", "E<k>", "C"
	End    string   `json:"source_end"`    // "C", "E", ""
	Via    string   `json:"via"`           // direct | Take
	Take   int      `json:"take,omitempty"`
}

func init() {
	replayers["dematerialize"] = func(t *testing.T, raw json.RawMessage) {
		var c c04Demat
		if err := json.Unmarshal(raw, &c); err != nil {
			t.Fatal(err)
		}
		c04DematRun(t, c)
	}
}

func c04DematRun(t rt.TB, c c04Demat) {
	fail := func(class, msg string) {
		rt.Report(t, rt.Failure{Property: "C04", Check: "dematerialize", Op: "Dematerialize", Class: class, Msg: msg, Case: c})
	}
	rt.NewSink()
	var ns []ro.Notification[int]
	for _, s := range c.Notifs {
		switch s[0] {
		case 'N':
			var v int
			fmt.Sscanf(s[1:], "%d", &v)
			ns = append(ns, ro.NewNotificationNext(v))
		case 'E':
			var k int
			fmt.Sscanf(s[1:], "%d", &k)
			ns = append(ns, ro.NewNotificationError[int](rt.Err(k)))
		case 'C':
			ns = append(ns, ro.NewNotificationComplete[int]())
		}
	}
	in := ns
	if c.Via == "Take" && c.Take < len(in) {
		in = in[:c.Take] // what Take(n) lets through, followed by Take's own completion
	}
	// expectation
	var wantVals []int
	wantEnd, wantErr := byte(0), ""
	for _, n := range in {
		if wantEnd != 0 {
			break
		}
		switch n.Kind {
		case ro.KindNext:
			wantVals = append(wantVals, n.Value)
		case ro.KindError:
			wantEnd, wantErr = 'E', n.Err.Error()
		case ro.KindComplete:
			wantEnd = 'C'
		}
	}
	if wantEnd == 0 {
		switch {
		case c.Via == "Take" && c.Take <= len(ns):
			wantEnd = 'C' // Take completed
		case c.End == "C":
			wantEnd = 'C'
		case c.End == "E":
			wantEnd, wantErr = 'E', rt.Err(7).Error()
		}
	}
	src := ro.NewUnsafeObservable(func(d ro.Observer[ro.Notification[int]]) ro.Teardown {
		for _, n := range ns {
			d.Next(n)
		}
		switch c.End {
		case "C":
			d.Complete()
		case "E":
			d.Error(rt.Err(7))
		}
		return nil
	})
	var stream ro.Observable[ro.Notification[int]] = src
	if c.Via == "Take" {
		stream = ro.Take[ro.Notification[int]](int64(c.Take))(src)
	}
	rec := rt.NewRecorder[int]()
	var pan any
	func() {
		defer func() { pan = recover() }()
		ro.Dematerialize[int]()(stream).Subscribe(rec)
	}()
	desc := fmt.Sprintf("Dematerialize over notifications %v, the stream of notifications itself ending %q (via %s %d)", c.Notifs, c.End, c.Via, c.Take)
	if pan != nil {
		fail("panic-escaped", fmt.Sprintf("%s: %v", desc, pan))
		return
	}
	tr := rec.Trace()
	var got []int
	for _, v := range tr.Vals {
		got = append(got, v.(int))
	}
	gotErr := ""
	if tr.Err != nil {
		gotErr = tr.Err.Error()
	}
	if !(len(got) == 0 && len(wantVals) == 0) && !reflect.DeepEqual(got, wantVals) || tr.End != wantEnd || gotErr != wantErr {
		class := "wrong-output"
		if tr.End == 0 && wantEnd != 0 {
			class = "terminal-not-forwarded"
		}
		fail(class, fmt.Sprintf("%s: delivered %v ending %q (%s), want %v ending %q (%s)", desc, got, tr.End, gotErr, wantVals, wantEnd, wantErr))
		return
	}
	if g := rec.Grammar(); g != "" {
		fail("grammar", desc+": "+g)
	}
}

func TestC04_Dematerialize(t *testing.T) { rapid.Check(t, propC04Dematerialize) }

func propC04Dematerialize(t *rapid.T) {
	n := rapid.IntRange(0, 5).Draw(t, "n")
	c := c04Demat{End: rapid.SampledFrom([]string{"C", "E", ""}).Draw(t, "end"), Via: rapid.SampledFrom([]string{"direct", "direct", "Take"}).Draw(t, "via")}
	for i := 0; i < n; i++ {
		switch rapid.IntRange(0, 7).Draw(t, "kind") {
		case 0:
			c.Notifs = append(c.Notifs, "C")
		case 1:
			c.Notifs = append(c.Notifs, fmt.Sprintf("E%d", rapid.IntRange(1, 3).Draw(t, "e")))
		default:
			c.Notifs = append(c.Notifs, fmt.Sprintf("N%d", rapid.IntRange(-2, 9).Draw(t, "v")))
		}
	}
	if c.Via == "Take" {
		c.Take = rapid.IntRange(0, n+1).Draw(t, "take")
	}
	c04DematRun(t, c)
	inband := false
	for _, s := range c.Notifs {
		if s[0] != 'N' {
			inband = true
		}
	}
	rt.Case(caseKey("demat", c.Notifs, c.End, c.Via, c.Take), !inband && (c.End != "" || c.Via == "Take"), "dematerialize", func() any { return c })
}
