package checks

import (
	"fmt"
	"testing"

	"verifharness/cat"
	"verifharness/rt"
)

// Every ordered pair of catalogue rows (first boundary parameter and one more of
// each) over a fixed set of short scripts: "a chain behaves as the composition of
// its parts", enumerated for chains of two.
func TestC04_PairsEnumerated(t *testing.T) {
	scripts := [][]rt.Ev{
		{rt.C()},
		{rt.E(1)},
		{rt.N(1), rt.C()},
		{rt.N(2), rt.N(1), rt.C()},
		{rt.N(1), rt.N(2), rt.N(3), rt.C()},
		{rt.N(1), rt.N(2), rt.E(1)},
		{rt.N(2), rt.N(2), rt.N(1), rt.N(3), rt.C()},
	}
	pick := func(r *cat.Row) [][]int {
		if len(r.Params) <= 2 {
			return r.Params
		}
		return [][]int{r.Params[0], r.Params[len(r.Params)/2]}
	}
	idx := 0
	for _, a := range cat.Rows {
		for _, b := range cat.Rows {
			idx++
			if !rt.Mine(idx) {
				continue
			}
			for _, pa := range pick(a) {
				for _, pb := range pick(b) {
					links := []cat.Link{{Op: a.Name, Variant: a.Variants[0], P: pa}, {Op: b.Name, Variant: b.Variants[len(b.Variants)-1], P: pb}}
					if chainDiverges(links) {
						continue
					}
					for _, s := range scripts {
						c := c04Chain{Links: links, Script: s}
						c04RunChain(t, c)
						rt.Case(caseKey("pair", a.Name, pa, b.Name, pb, s), true, "pair", func() any { return c })
					}
				}
			}
		}
	}
	rt.Note("pairs_scope", fmt.Sprintf("every ordered pair of the %d catalogue rows x up to 2 parameter choices each x %d scripts", len(cat.Rows), len(scripts)))
}
