package checks

import (
	"context"
	"encoding/json"
	"fmt"
	"strings"
	"sync"
	"testing"
	"testing/synctest"
	"time"

	"github.com/samber/ro"
	ronative "github.com/samber/ro/plugins/ratelimit/native"
	roulule "github.com/samber/ro/plugins/ratelimit/ulule"
	"github.com/ulule/limiter/v3"
	"github.com/ulule/limiter/v3/drivers/store/memory"
	"pgregory.net/rapid"
	"verifharness/rt"
)

// C20 — rate limiters never exceed the quota and keep per-key order.

type item struct {
	Key string
	N   int
}

type c20Case struct {
	Impl   string `json:"impl"` // native | ulule
	Quota  int    `json:"quota"`
	Window int    `json:"window_ms"`
	Keys   []int  `json:"keys"`    // key index of item i
	Gaps   []int  `json:"gaps_ms"` // gap before item i
	End    byte   `json:"end"`
	Async  bool   `json:"async_source"`
	Subs   int    `json:"subscriptions,omitempty"` // 2 = two subscriptions alive together on one limited observable
	// ItemCtx: every item travels with a cancellable context of its own (as after
	// ContextWithTimeout); the context of item #CancelItem is cancelled just before
	// item #CancelAt is emitted. What a limiter does for the key of that item is its
	// business (it may go silent); the other keys, the bound and the source's own
	// ending are not affected.
	ItemCtx    bool `json:"per_item_contexts,omitempty"`
	CancelItem int  `json:"cancel_context_of_item,omitempty"`
	CancelAt   int  `json:"cancel_before_item,omitempty"`
	// CancelLag > 0: deadline-like, the context of every item i is cancelled just
	// before item i+CancelLag is emitted.
	CancelLag int `json:"cancel_every_context_after_items,omitempty"`
}

func init() {
	replayers["ratelimit"] = func(t *testing.T, raw json.RawMessage) {
		var c c20Case
		if err := json.Unmarshal(raw, &c); err != nil {
			t.Fatal(err)
		}
		c20Run(t, t, c)
	}
}

type passed struct {
	it item
	at time.Duration
}

func c20Judge(c c20Case, out []passed, end byte, endErr error, exact bool, fail func(class, msg string)) {
	desc := fmt.Sprintf("%s limiter quota=%d window=%dms keys=%v gaps=%v end=%q async=%v", c.Impl, c.Quota, c.Window, c.Keys, c.Gaps, c.End, c.Async)
	byKey := map[string][]passed{}
	for _, p := range out {
		byKey[p.it.Key] = append(byKey[p.it.Key], p)
	}
	w := ms(c.Window)
	if c.Window == 0 {
		w = time.Hour
	}
	for k, ps := range byKey {
		// order and no duplicates: item numbers strictly increase per key
		for i := 1; i < len(ps); i++ {
			if ps[i].it.N <= ps[i-1].it.N {
				fail("per-key-order-or-duplicate", fmt.Sprintf("%s: key %s passed items %v", desc, k, nums(ps)))
				return
			}
		}
		// every passed item belongs to that key's input
		for _, p := range ps {
			if p.it.N < 0 || p.it.N >= len(c.Keys) || fmt.Sprintf("k%d", c.Keys[p.it.N]) != k {
				fail("item-invented", fmt.Sprintf("%s: key %s passed %v", desc, k, p.it))
				return
			}
		}
		// quota bound, sound whatever the alignment of the windows
		for i := range ps {
			for j := i; j < len(ps); j++ {
				L := ps[j].at - ps[i].at
				if n, max := j-i+1, c.Quota*(int(L/w)+2); n > max {
					fail("quota-exceeded", fmt.Sprintf("%s: key %s: %d items passed within %v (bound %d)", desc, k, n, L, max))
					return
				}
			}
		}
	}
	if exact {
		// a period far longer than the run: exactly the first `quota` items of each key pass, keys independently
		seen := map[string]int{}
		var want []int
		for i, ki := range c.Keys {
			k := fmt.Sprintf("k%d", ki)
			if seen[k] < c.Quota {
				want = append(want, i)
			}
			seen[k]++
		}
		var got []int
		for _, p := range out {
			got = append(got, p.it.N)
		}
		if fmt.Sprint(got) != fmt.Sprint(want) {
			fail("keys-not-independent-or-wrong-items", fmt.Sprintf("%s: passed items %v, with a long period exactly %v must pass", desc, got, want))
			return
		}
	}
	if c.End != 0 && end != c.End {
		fail("terminal-not-propagated", fmt.Sprintf("%s: the source ended with %q, the subscriber saw %q (%v)", desc, c.End, end, endErr))
	}
}

func nums(ps []passed) []int {
	out := make([]int, len(ps))
	for i, p := range ps {
		out[i] = p.it.N
	}
	return out
}

func c20Run(tb rt.TB, t *testing.T, c c20Case) {
	var failure *rt.Failure
	fail := func(class, msg string) {
		if failure == nil {
			failure = &rt.Failure{Property: "C20", Check: "ratelimit", Op: c.Impl, Class: class, Msg: msg, Case: c}
		}
	}
	body := func() {
		rt.NewSink()
		start := time.Now()
		var mu sync.Mutex
		var out []passed
		var end byte
		var endErr error
		done := make(chan struct{})
		var once sync.Once
		key := func(it item) string { return it.Key }
		cancels := make([]context.CancelFunc, len(c.Keys))
		src := ro.NewObservable(func(d ro.Observer[item]) ro.Teardown {
			play := func() {
				for i, ki := range c.Keys {
					if c.Gaps[i] > 0 {
						time.Sleep(ms(c.Gaps[i]))
					}
					if c.ItemCtx {
						if c.CancelLag > 0 {
							if j := i - c.CancelLag; j >= 0 && cancels[j] != nil {
								cancels[j]()
							}
						} else if i == c.CancelAt && c.CancelItem < i && cancels[c.CancelItem] != nil {
							cancels[c.CancelItem]()
						}
						var ictx context.Context
						ictx, cancels[i] = context.WithCancel(context.Background())
						d.NextWithContext(ictx, item{Key: fmt.Sprintf("k%d", ki), N: i})
						continue
					}
					d.Next(item{Key: fmt.Sprintf("k%d", ki), N: i})
				}
				switch c.End {
				case 'C':
					d.Complete()
				case 'E':
					d.Error(rt.Err(1))
				}
			}
			if c.Async {
				go play()
			} else {
				play()
			}
			return nil
		})
		var limited ro.Observable[item]
		exact := false
		switch c.Impl {
		case "native":
			limited = ronative.NewRateLimiter[item](int64(c.Quota), ms(c.Window), key)(src)
		case "ulule":
			period := ms(c.Window)
			if c.Window == 0 {
				period = time.Hour
				exact = true
			}
			lim := limiter.New(memory.NewStore(), limiter.Rate{Period: period, Limit: int64(c.Quota)})
			limited = roulule.NewRateLimiter[item](lim, key)(src)
		}
		sub := limited.Subscribe(ro.NewObserver(
			func(it item) { mu.Lock(); out = append(out, passed{it, time.Since(start)}); mu.Unlock() },
			func(err error) { mu.Lock(); end, endErr = 'E', err; mu.Unlock(); once.Do(func() { close(done) }) },
			func() { mu.Lock(); end = 'C'; mu.Unlock(); once.Do(func() { close(done) }) },
		))
		var out2 []passed
		var sub2 ro.Subscription
		if c.Subs == 2 {
			sub2 = limited.Subscribe(ro.NewObserver(
				func(it item) { mu.Lock(); out2 = append(out2, passed{it, time.Since(start)}); mu.Unlock() },
				func(err error) {}, func() {},
			))
		}
		total := 0
		for _, g := range c.Gaps {
			total += g
		}
		if c.Impl == "native" {
			time.Sleep(ms(total + 3*c.Window + 5))
			synctest.Wait()
		} else if c.End != 0 {
			select {
			case <-done:
			case <-time.After(10 * time.Second):
			}
		} else {
			time.Sleep(ms(total + 5))
		}
		mu.Lock()
		o, e, ee := append([]passed(nil), out...), end, endErr
		mu.Unlock()
		c20Judge(c, o, e, ee, exact, fail)
		if c.Subs == 2 {
			mu.Lock()
			o2 := append([]passed(nil), out2...)
			mu.Unlock()
			c2 := c
			c2.End = 0
			c20Judge(c2, o2, 0, nil, exact && c.Impl == "native", func(class, msg string) { fail(class+"-with-two-subscriptions", "second subscription: "+msg) })
			sub2.Unsubscribe()
		}
		sub.Unsubscribe()
		if c.Impl == "native" {
			time.Sleep(ms(3*c.Window + 5))
			synctest.Wait()
		}
	}
	if c.Impl == "native" {
		problem := bubble(t, body)
		if problem != "" && failure == nil {
			class := "panic-in-bubble"
			if strings.Contains(problem, "deadlock") {
				class = "goroutine-left-blocked"
			}
			if strings.HasPrefix(problem, "stalled") {
				class = "stalled"
			}
			fail(class, fmt.Sprintf("%v: %s", c, problem))
		}
	} else {
		body()
	}
	if failure != nil {
		rt.Report(tb, *failure)
	}
}

func c20NonTrivial(c c20Case) bool {
	// some key exceeds its quota inside one window: the limiter actually has to drop
	cnt := map[int]int{}
	for i, k := range c.Keys {
		if c.Gaps[i] >= c.Window && c.Window > 0 {
			cnt = map[int]int{}
		}
		cnt[k]++
		if cnt[k] > c.Quota {
			return true
		}
	}
	return false
}

func c20Gen(t *rapid.T, impl string) c20Case {
	c := c20Case{Impl: impl, Quota: rapid.IntRange(1, 3).Draw(t, "quota"), Window: rapid.IntRange(5, 40).Draw(t, "window")}
	n := rapid.IntRange(0, 14).Draw(t, "items")
	nk := rapid.IntRange(1, 3).Draw(t, "keys")
	shape := rapid.SampledFrom([]string{"burst", "steady", "sparse", "mixed"}).Draw(t, "shape")
	for i := 0; i < n; i++ {
		c.Keys = append(c.Keys, rapid.IntRange(0, nk-1).Draw(t, "key"))
		g := 0
		switch shape {
		case "steady":
			g = c.Window / 3
		case "sparse":
			g = c.Window + rapid.IntRange(0, 10).Draw(t, "g")
		case "mixed":
			g = rapid.SampledFrom([]int{0, 0, 1, c.Window / 2, c.Window, c.Window + 1}).Draw(t, "g")
		}
		c.Gaps = append(c.Gaps, g)
	}
	c.End = rapid.SampledFrom([]byte{'C', 'E', 0}).Draw(t, "end")
	c.Async = rapid.Bool().Draw(t, "async")
	if impl == "native" && c.Async && rapid.IntRange(0, 2).Draw(t, "two") == 0 {
		c.Subs = 2
	}
	if impl == "native" && c.Subs != 2 && n >= 2 && rapid.IntRange(0, 2).Draw(t, "itemCtx") == 0 {
		c.ItemCtx = true
		c.CancelItem = rapid.IntRange(0, n-2).Draw(t, "cancelItem")
		c.CancelAt = rapid.IntRange(c.CancelItem+1, n-1).Draw(t, "cancelAt")
		if rapid.Bool().Draw(t, "deadlines") {
			c.CancelLag = rapid.IntRange(1, 3).Draw(t, "lag")
			if rapid.Bool().Draw(t, "spaced") {
				// room for whatever a cancelled context sets off to finish before the next item
				for i := range c.Gaps {
					if c.Gaps[i] == 0 {
						c.Gaps[i] = 1
					}
				}
			}
		}
	}
	if impl == "ulule" {
		if rapid.Bool().Draw(t, "longPeriod") {
			c.Window = 0 // an hour: exact model
			for i := range c.Gaps {
				c.Gaps[i] = 0
			}
		} else {
			c.Window = rapid.IntRange(3, 10).Draw(t, "window")
			for i := range c.Gaps {
				if c.Gaps[i] > 4 {
					c.Gaps[i] = 4
				}
			}
		}
	}
	return c
}

func TestC20_Native(t *testing.T) {
	currentT = t
	rapid.Check(t, func(rt2 *rapid.T) {
		c := c20Gen(rt2, "native")
		c20Run(rt2, currentT, c)
		class := "native"
		if c.CancelLag > 0 {
			class = "native, every item's context cancelled a few items later"
		} else if c.ItemCtx {
			class = "native, one item's context cancelled mid-stream"
		}
		rt.Case(caseKey("rl", fmt.Sprint(c)), c20NonTrivial(c), class, func() any { return c })
	})
}

func TestC20_Ulule(t *testing.T) {
	currentT = t
	rapid.Check(t, func(rt2 *rapid.T) {
		c := c20Gen(rt2, "ulule")
		c20Run(rt2, currentT, c)
		nt := c20NonTrivial(c)
		if c.Window == 0 {
			cnt := map[int]int{}
			for _, k := range c.Keys {
				cnt[k]++
				if cnt[k] > c.Quota {
					nt = true
				}
			}
		}
		rt.Case(caseKey("rl", fmt.Sprint(c)), nt, "ulule", func() any { return c })
	})
}

// Real-time stress of the native limiter: a hot key far over quota, tiny windows,
// a fast producer. Only the order / duplicate / membership clauses are asserted
// here (delivery stamps taken under load cannot bound the quota soundly).
func TestC20_NativeStress(t *testing.T) {
	n := 400000
	if rt.Thorough() {
		n = 6000000
	}
	n /= rt.ShardCount()
	for round := 0; round < 3; round++ {
		c := c20Case{Impl: "native", Quota: 1000000, Window: 1, End: 'C', Async: true}
		var mu sync.Mutex
		var out []passed
		done := make(chan struct{})
		src := ro.NewObservable(func(d ro.Observer[item]) ro.Teardown {
			go func() {
				for i := 0; i < n; i++ {
					d.Next(item{Key: fmt.Sprintf("k%d", i%2), N: i})
				}
				d.Complete()
			}()
			return nil
		})
		limited := ronative.NewRateLimiter[item](int64(c.Quota), time.Millisecond, func(it item) string { return it.Key })(src)
		sub := limited.Subscribe(ro.NewObserver(
			func(it item) { mu.Lock(); out = append(out, passed{it, 0}); mu.Unlock() },
			func(error) { close(done) }, func() { close(done) }))
		select {
		case <-done:
		case <-time.After(30 * time.Second):
			rt.Report(t, rt.Failure{Property: "C20", Check: "ratelimit-stress", Op: "native", Class: "terminal-not-propagated", Msg: "the source completed, the subscriber saw no terminal within 30s", Case: c})
		}
		sub.Unsubscribe()
		mu.Lock()
		last := map[string]int{"k0": -1, "k1": -1}
		for _, p := range out {
			if p.it.N <= last[p.it.Key] {
				rt.Report(t, rt.Failure{Property: "C20", Check: "ratelimit-stress", Op: "native", Class: "per-key-order-or-duplicate", Msg: fmt.Sprintf("key %s: item %d delivered after item %d", p.it.Key, p.it.N, last[p.it.Key]), Case: c})
				break
			}
			last[p.it.Key] = p.it.N
		}
		mu.Unlock()
		rt.Case(fmt.Sprintf("stress|%d", round), true, "native-stress", func() any { return map[string]any{"items": n, "window_ms": 1, "keys": 2} })
	}
}
