package checks

import (
	"encoding/json"
	"fmt"
	"math"
	"reflect"
	"testing"

	"github.com/samber/ro"
	"pgregory.net/rapid"
	"verifharness/cat"
	"verifharness/rt"
)

// Creation operators: the emitted sequence is a function of the parameters.

type c04Create struct {
	Op string    `json:"op"`
	I  []int64   `json:"ints,omitempty"`
	F  []float64 `json:"floats,omitempty"`
	S  [][]int   `json:"slices,omitempty"`
}

func init() {
	replayers["creation"] = func(t *testing.T, raw json.RawMessage) {
		var c c04Create
		if err := json.Unmarshal(raw, &c); err != nil {
			t.Fatal(err)
		}
		c04RunCreate(t, c)
	}
}

func collectAny[T any](o ro.Observable[T]) (vals []any, end byte, err error, pan any) {
	rec := rt.NewRecorder[T]()
	func() {
		defer func() { pan = recover() }()
		o.Subscribe(rec)
	}()
	tr := rec.Trace()
	if g := rec.Grammar(); g != "" {
		pan = "grammar: " + g
	}
	return tr.Vals, tr.End, tr.Err, pan
}

func c04RunCreate(t rt.TB, c c04Create) {
	var got []any
	var end byte
	var err error
	var pan any
	var want []any
	wantEnd := byte('C')
	wantErr := ""
	class := "creation-sequence"
	switch c.Op {
	case "Range":
		a, b := c.I[0], c.I[1]
		got, end, err, pan = collectAny(ro.Range(a, b))
		// documented: half-open [start:end), ascending or descending, empty when equal
		if a < b {
			for x := a; x < b; x++ {
				want = append(want, x)
			}
		} else {
			for x := a; x > b; x-- {
				want = append(want, x)
			}
		}
	case "RangeWithStep":
		a, b, s := c.F[0], c.F[1], c.F[2]
		got, end, err, pan = collectAny(ro.RangeWithStep(a, b, s))
		// documented: [start:end) by steps; the implementation accumulates
		// cursor += step (float drift is part of the pinned meaning), so the
		// oracle is the validity predicate: every value lies in the half-open
		// range, consecutive values differ by step within 1e-9 relative, the first
		// is start, and the count is ceil(span/step) up to one unit of drift.
		n := math.Ceil(math.Abs(b-a) / s)
		if a == b {
			n = 0
		}
		if len(got) == 0 && n == 0 {
			break
		}
		ok := float64(len(got)) >= n-1 && float64(len(got)) <= n+1 && len(got) > 0 && got[0].(float64) == a
		for i, v := range got {
			x := v.(float64)
			if a < b && !(x >= a && x < b) || a > b && !(x <= a && x > b) {
				ok = false
			}
			exp := a + float64(i)*s*sign(b-a)
			if math.Abs(x-exp) > 1e-9*math.Max(1, math.Abs(exp)) {
				ok = false
			}
		}
		// the last in-range multiple must not be missing
		lastExp := a + (n-1)*s*sign(b-a)
		if n >= 1 && math.Abs(lastExp-b) > 1e-6 && float64(len(got)) < n {
			ok = false
		}
		if !ok {
			rt.Report(t, rt.Failure{Property: "C04", Check: "creation", Op: c.Op, Class: class, Msg: fmt.Sprintf("RangeWithStep(%v,%v,%v) emitted %v (expected %v values from %v by %v inside the half-open range)", a, b, s, got, n, a, s), Case: c})
		}
		want = got
	case "Repeat":
		got, end, err, pan = collectAny(ro.Repeat(int(c.I[0]), c.I[1]))
		for i := int64(0); i < c.I[1]; i++ {
			want = append(want, int(c.I[0]))
		}
	case "Of", "Just":
		xs := c.S[0]
		if c.Op == "Of" {
			got, end, err, pan = collectAny(ro.Of(xs...))
		} else {
			got, end, err, pan = collectAny(ro.Just(xs...))
		}
		for _, x := range xs {
			want = append(want, x)
		}
	case "FromSlice":
		got, end, err, pan = collectAny(ro.FromSlice(c.S...))
		for _, s := range c.S {
			for _, x := range s {
				want = append(want, x)
			}
		}
		// the argument slices must not be modified
	case "Start":
		calls := 0
		got, end, err, pan = collectAny(ro.Start(func() int { calls++; return int(c.I[0]) }))
		want = []any{int(c.I[0])}
		if calls != 1 {
			rt.Report(t, rt.Failure{Property: "C04", Check: "creation", Op: c.Op, Class: "callback-count", Msg: fmt.Sprintf("Start called its callback %d times", calls), Case: c})
		}
	case "Empty":
		got, end, err, pan = collectAny(ro.Empty[int]())
	case "Throw":
		got, end, err, pan = collectAny(ro.Throw[int](rt.Err(int(c.I[0]))))
		wantEnd, wantErr = 'E', fmt.Sprintf("e%d", c.I[0])
	case "Defer":
		calls := 0
		o := ro.Defer(func() ro.Observable[int] { calls++; return ro.Just(int(c.I[0]), calls) })
		if calls != 0 {
			rt.Report(t, rt.Failure{Property: "C04", Check: "creation", Op: c.Op, Class: "not-lazy", Msg: "Defer called its factory at construction", Case: c})
		}
		got, end, err, pan = collectAny(o)
		want = []any{int(c.I[0]), 1}
		got2, _, _, _ := collectAny(o)
		if !reflect.DeepEqual(got2, []any{int(c.I[0]), 2}) {
			rt.Report(t, rt.Failure{Property: "C04", Check: "creation", Op: c.Op, Class: "factory-per-subscription", Msg: fmt.Sprintf("second subscription of Defer got %v", got2), Case: c})
		}
	case "Iif":
		f := ro.Iif(func() bool { return c.I[0] == 1 }, ro.Just(1), ro.Just(2))
		got, end, err, pan = collectAny(f())
		if c.I[0] == 1 {
			want = []any{1}
		} else {
			want = []any{2}
		}
	case "RandIntN":
		n, cnt := int(c.I[0]), int(c.I[1])
		got, end, err, pan = collectAny(ro.RandIntN(n, cnt))
		ok := len(got) == cnt
		for _, v := range got {
			if x := v.(int); x < 0 || x >= n {
				ok = false
			}
		}
		if !ok {
			rt.Report(t, rt.Failure{Property: "C04", Check: "creation", Op: c.Op, Class: class, Msg: fmt.Sprintf("RandIntN(%d,%d) emitted %v", n, cnt, got), Case: c})
		}
		want = got
	case "RandFloat64":
		cnt := int(c.I[0])
		got, end, err, pan = collectAny(ro.RandFloat64(cnt))
		ok := len(got) == cnt
		for _, v := range got {
			if x := v.(float64); x < 0 || x >= 1 {
				ok = false
			}
		}
		if !ok {
			rt.Report(t, rt.Failure{Property: "C04", Check: "creation", Op: c.Op, Class: class, Msg: fmt.Sprintf("RandFloat64(%d) emitted %v", cnt, got), Case: c})
		}
		want = got
	}
	if pan != nil {
		rt.Report(t, rt.Failure{Property: "C04", Check: "creation", Op: c.Op, Class: "panic-or-grammar", Msg: fmt.Sprint(pan), Case: c})
		return
	}
	gotN := make([]any, len(got))
	for i, v := range got {
		gotN[i] = cat.Norm(v)
	}
	wantN := make([]any, len(want))
	for i, v := range want {
		wantN[i] = cat.Norm(v)
	}
	ek := ""
	if end == 'E' {
		ek = cat.ErrKey(err)
	}
	if !(len(gotN) == 0 && len(wantN) == 0) && !reflect.DeepEqual(gotN, wantN) || end != wantEnd || ek != wantErr {
		if c.Op == "Range" && (c.I[0] < math.MinInt64/2 || c.I[1] < math.MinInt64/2 || c.I[0] > math.MaxInt64/2 || c.I[1] > math.MaxInt64/2) {
			class = "creation-sequence-at-int64-extremes"
		}
		rt.Report(t, rt.Failure{Property: "C04", Check: "creation", Op: c.Op, Class: class, Msg: fmt.Sprintf("%s%v%v%v: got %v end %q(%s), want %v end %q(%s)", c.Op, c.I, c.F, c.S, trunc(gotN), end, ek, trunc(wantN), wantEnd, wantErr), Case: c})
	}
}

func trunc(xs []any) any {
	if len(xs) > 12 {
		return fmt.Sprintf("%v...(%d values)", xs[:12], len(xs))
	}
	return xs
}

func sign(x float64) float64 {
	if x < 0 {
		return -1
	}
	return 1
}

func TestC04_Creation(t *testing.T) {
	run := func(c c04Create, nt bool) {
		c04RunCreate(t, c)
		rt.Case(caseKey("creation", c.Op, c.I, c.F, c.S), nt, "creation:"+c.Op, func() any { return c })
	}
	// bounded-exhaustive part
	for a := int64(-3); a <= 4; a++ {
		for b := int64(-3); b <= 4; b++ {
			run(c04Create{Op: "Range", I: []int64{a, b}}, a != b)
		}
	}
	for _, a := range []float64{-1, 0, 0.5, 3, 10} {
		for _, b := range []float64{-1, 0, 0.5, 1, 3, 10} {
			for _, s := range []float64{0.25, 0.3, 0.5, 1, 2, 7} {
				run(c04Create{Op: "RangeWithStep", F: []float64{a, b, s}}, a != b)
			}
		}
	}
	for n := int64(0); n <= 5; n++ {
		run(c04Create{Op: "Repeat", I: []int64{7, n}}, n > 0)
		run(c04Create{Op: "RandIntN", I: []int64{3, n}}, n > 0)
		run(c04Create{Op: "RandFloat64", I: []int64{n}}, n > 0)
	}
	for _, xs := range [][]int{{}, {1}, {1, 2}, {3, 1, 2, 1}} {
		run(c04Create{Op: "Of", S: [][]int{xs}}, len(xs) > 0)
		run(c04Create{Op: "Just", S: [][]int{xs}}, len(xs) > 0)
		run(c04Create{Op: "FromSlice", S: [][]int{xs}}, len(xs) > 0)
		run(c04Create{Op: "FromSlice", S: [][]int{xs, {}, xs}}, len(xs) > 0)
	}
	run(c04Create{Op: "FromSlice", S: [][]int{}}, false)
	run(c04Create{Op: "Start", I: []int64{5}}, true)
	run(c04Create{Op: "Empty"}, true)
	run(c04Create{Op: "Throw", I: []int64{2}}, true)
	run(c04Create{Op: "Defer", I: []int64{4}}, true)
	run(c04Create{Op: "Iif", I: []int64{0}}, true)
	run(c04Create{Op: "Iif", I: []int64{1}}, true)
	// int64 extremes (short ranges placed at the ends of the type)
	for _, base := range []int64{math.MinInt64, math.MaxInt64 - 3, math.MinInt64 + 3} {
		for d := int64(0); d <= 3; d++ {
			if base == math.MinInt64 {
				run(c04Create{Op: "Range", I: []int64{base, base + d}}, true)
				run(c04Create{Op: "Range", I: []int64{base + d, base}}, true)
			} else if base > 0 {
				run(c04Create{Op: "Range", I: []int64{base, base + d}}, true)
				run(c04Create{Op: "Range", I: []int64{base + d, base}}, true)
			} else {
				run(c04Create{Op: "Range", I: []int64{base, base - d}}, true)
			}
		}
	}
	// random part
	rapid.Check(t, func(t *rapid.T) {
		switch rapid.IntRange(0, 3).Draw(t, "which") {
		case 0:
			a := rapid.Int64Range(-50, 50).Draw(t, "a")
			b := a + rapid.Int64Range(-60, 60).Draw(t, "d")
			run(c04Create{Op: "Range", I: []int64{a, b}}, a != b)
		case 1:
			a := float64(rapid.IntRange(-40, 40).Draw(t, "a")) / 4
			b := float64(rapid.IntRange(-40, 40).Draw(t, "b")) / 4
			s := float64(rapid.IntRange(1, 30).Draw(t, "s")) / 8
			run(c04Create{Op: "RangeWithStep", F: []float64{a, b, s}}, a != b)
		case 2:
			n := rapid.IntRange(0, 4).Draw(t, "n")
			ss := make([][]int, n)
			for i := range ss {
				ss[i] = rapid.SliceOfN(rapid.IntRange(-5, 5), 0, 6).Draw(t, "s")
			}
			run(c04Create{Op: "FromSlice", S: ss}, n > 0)
		case 3:
			run(c04Create{Op: "Repeat", I: []int64{int64(rapid.IntRange(-3, 3).Draw(t, "v")), int64(rapid.IntRange(0, 30).Draw(t, "n"))}}, true)
		}
	})
}
