package checks

import (
	"encoding/json"
	"fmt"
	"testing"
	"unicode/utf8"

	"github.com/samber/ro"
	robytes "github.com/samber/ro/plugins/bytes"
	rostrings "github.com/samber/ro/plugins/strings"
	"pgregory.net/rapid"
	"verifharness/rt"
)

// C18, the generators of the text plugins: Random(size, charset) delivers, for
// every input item, a text of exactly `size` characters, each taken from the
// charset - for every non-empty charset (one character, a power of two, one more
// than a power of two, multi-byte runes) - and never an error or a panic. (Which
// text is random; the validity predicate is not.) strconv's remaining lifts
// (ParseUint64, FormatComplex) are compared with the wrapped functions.

type c18Random struct {
	Flavour string `json:"flavour"` // strings | bytes
	Size    int    `json:"size"`
	Charset string `json:"charset"`
	Items   int    `json:"items"`
}

func init() {
	replayers["text-random"] = func(t *testing.T, raw json.RawMessage) {
		var c c18Random
		if err := json.Unmarshal(raw, &c); err != nil {
			t.Fatal(err)
		}
		c18RandomRun(t, c)
	}
}

func c18RandomRun(t rt.TB, c c18Random) {
	fail := func(class, msg string) {
		rt.Report(t, rt.Failure{Property: "C18", Check: "text-random", Op: c.Flavour + ".Random", Class: class, Msg: msg, Case: c})
	}
	charset := []rune(c.Charset)
	in := make([]int, c.Items)
	var texts []string
	var err error
	var pan any
	func() {
		defer func() { pan = recover() }()
		if c.Flavour == "strings" {
			texts, err = ro.Collect(rostrings.Random[int](c.Size, charset)(ro.Just(in...)))
		} else {
			var bs [][]byte
			bs, err = ro.Collect(robytes.Random[int](c.Size, charset)(ro.Just(in...)))
			for _, b := range bs {
				texts = append(texts, string(b))
			}
		}
	}()
	desc := fmt.Sprintf("%s.Random(size %d, charset %q of %d characters) over %d items", c.Flavour, c.Size, c.Charset, len(charset), c.Items)
	if pan != nil {
		fail("panic-escaped", fmt.Sprintf("%s: %v", desc, pan))
		return
	}
	if err != nil {
		fail("valid-arguments-end-in-error", fmt.Sprintf("%s: ended with %v", desc, err))
		return
	}
	if len(texts) != c.Items {
		fail("wrong-number-of-values", fmt.Sprintf("%s: %d texts", desc, len(texts)))
		return
	}
	allowed := map[rune]bool{}
	for _, r := range charset {
		allowed[r] = true
	}
	for i, s := range texts {
		if n := utf8.RuneCountInString(s); n != c.Size {
			fail("wrong-length", fmt.Sprintf("%s: text #%d %q has %d characters", desc, i, s, n))
			return
		}
		for _, r := range s {
			if !allowed[r] {
				fail("character-outside-charset", fmt.Sprintf("%s: text #%d %q contains %q", desc, i, s, r))
				return
			}
		}
	}
}

func TestC18_TextRandom(t *testing.T) { rapid.Check(t, propC18TextRandom) }

func propC18TextRandom(t *rapid.T) {
	pool := []rune("abcdefghijklmnopqrstuvwxyzABCDEFGHIJKLMNOPQRSTUVWXYZ0123456789!@#éß世界😀")
	n := rapid.SampledFrom([]int{1, 2, 3, 4, 5, 7, 8, 9, 16, 17, 31, 32, 33, 62, 63, 64, 65, len(pool)}).Draw(t, "charsetLen")
	if n > len(pool) {
		n = len(pool)
	}
	off := rapid.IntRange(0, len(pool)-n).Draw(t, "offset")
	c := c18Random{Flavour: rapid.SampledFrom([]string{"strings", "bytes"}).Draw(t, "flavour"), Size: rapid.SampledFrom([]int{1, 2, 7, 21, 22, 64, 200}).Draw(t, "size"),
		Charset: string(pool[off : off+n]), Items: rapid.IntRange(0, 3).Draw(t, "items")}
	c18RandomRun(t, c)
	rt.Case(caseKey("textrandom", c.Flavour, c.Size, c.Charset, c.Items), c.Items > 0, "text-random", func() any { return c })
}
