package checks

import (
	"context"
	"encoding/json"
	"errors"
	"fmt"
	"reflect"
	"testing"
	"time"

	"github.com/samber/ro"
	"verifharness/cat"
	"verifharness/rt"
)

// C04 with another unusual but legal input: items that travel with contexts which are
// already over (cancelled before the item is emitted) or end as soon as the emission
// returned (what ContextWithTimeout upstream produces for a slow stream). Only the
// SUBSCRIPTION context tells a pipeline to stop; the state of an item's context is
// the item's business. Metamorphic oracle: every catalogue row delivers the same
// values and the same ending whatever the state of the item contexts
// (ThrowOnContextCancel, whose documented job is to look at it, excepted).

type c04ItemCtx struct {
	Op      string `json:"op"`
	Variant string `json:"variant"`
	P       []int  `json:"params"`
	N       int    `json:"values"`
	End     byte   `json:"end"`
	Mode    string `json:"item_contexts"` // "cancelled before emission" | "cancelled after emission"
}

func init() {
	replayers["item-contexts-over"] = func(t *testing.T, raw json.RawMessage) {
		var c c04ItemCtx
		if err := json.Unmarshal(raw, &c); err != nil {
			t.Fatal(err)
		}
		c04ItemCtxRun(t, c)
	}
}

func c04ItemCtxRun(t rt.TB, c c04ItemCtx) {
	row := cat.ByName(c.Op)
	run := func(mode string) (vals []any, end byte, errKey string, pan any, returned bool) {
		rt.NewSink()
		src := ro.NewUnsafeObservableWithContext(func(ctx ctxT, d ro.Observer[int]) ro.Teardown {
			for i := 1; i <= c.N; i++ {
				ictx, cancel := context.WithCancel(ctx)
				if mode == "cancelled before emission" {
					cancel()
				}
				d.NextWithContext(ictx, i)
				cancel()
			}
			switch c.End {
			case 'E':
				d.ErrorWithContext(ctx, rt.Err(1))
			case 'C':
				d.CompleteWithContext(ctx)
			}
			return nil
		})
		rec := rt.NewRecorder[any]()
		done := make(chan struct{})
		var sub ro.Subscription
		go func() {
			defer close(done)
			defer func() { pan = recover() }()
			if mode == "subscription context already cancelled" {
				sctx, scancel := context.WithCancel(context.Background())
				scancel()
				sub = row.Build(c.Variant, c.P, cat.NewEnv())(src).SubscribeWithContext(sctx, rec)
				return
			}
			sub = row.Build(c.Variant, c.P, cat.NewEnv())(src).Subscribe(rec)
		}()
		select {
		case <-done:
			returned = true
			if sub != nil && c.End == 0 {
				sub.Unsubscribe()
			}
		case <-time.After(3 * time.Second):
		}
		tr := rec.Trace()
		for _, v := range tr.Vals {
			vals = append(vals, cat.Norm(v))
		}
		if tr.Err != nil && errors.Is(tr.Err, context.Canceled) {
			return vals, tr.End, "context canceled", pan, returned
		}
		return vals, tr.End, cat.ErrKey(tr.Err), pan, returned
	}
	v1, e1, k1, p1, r1 := run("live")
	if p1 != nil || !r1 {
		return
	}
	v2, e2, k2, p2, r2 := run(c.Mode)
	desc := fmt.Sprintf("%s%s%v over %d values ending %q, item contexts %s", c.Op, c.Variant, c.P, c.N, c.End, c.Mode)
	fail := func(class, msg string) {
		rt.Report(t, rt.Failure{Property: "C04", Check: "item-contexts-over", Op: c.Op, Class: class, Msg: msg, Case: c})
	}
	if p2 != nil {
		fail("panic-escaped", fmt.Sprintf("%s: %v", desc, p2))
		return
	}
	if !r2 {
		fail("subscribe-never-returns", fmt.Sprintf("%s: with live item contexts Subscribe returns (%v ending %q), now it is still running after 3s", desc, v1, e1))
		return
	}
	if c.Mode == "subscription context already cancelled" {
		// the documentation does not say what a stage makes of a subscription context that
		// is over: it may go on as if nothing were (every stage does today), cut short, or
		// end with the context's error - but it may not invent values, and a subscriber
		// whose source has ended is not left without an ending
		if len(v2) > len(v1) || (len(v2) > 0 && !reflect.DeepEqual(v1[:len(v2)], v2)) {
			fail("output-not-a-prefix-under-a-cancelled-subscription-context", fmt.Sprintf("%s: with a live context the output is %v ending %q, now it is %v ending %q %s", desc, v1, e1, v2, e2, k2))
		} else if e1 != 0 && e2 == 0 {
			fail("no-ending-under-a-cancelled-subscription-context", fmt.Sprintf("%s: with a live context the output is %v ending %q; now it is %v and the subscriber never hears of an ending", desc, v1, e1, v2))
		} else if e2 != 0 && !(e2 == e1 && k2 == k1 && len(v1) == len(v2)) && k2 != "context canceled" {
			fail("ending-differs-under-a-cancelled-subscription-context", fmt.Sprintf("%s: with a live context the output is %v ending %q %s, now it is %v ending %q %s (neither the same nor the context's error)", desc, v1, e1, k1, v2, e2, k2))
		}
		return
	}
	if !(len(v1) == 0 && len(v2) == 0) && !reflect.DeepEqual(v1, v2) || e1 != e2 || k1 != k2 {
		fail("output-depends-on-the-state-of-item-contexts", fmt.Sprintf("%s: with live item contexts the output is %v ending %q %s, now it is %v ending %q %s", desc, v1, e1, k1, v2, e2, k2))
	}
}

func TestC04_ItemContextsOver(t *testing.T) {
	idx := 0
	for _, row := range cat.Rows {
		if row.Name == "ThrowOnContextCancel" {
			continue
		}
		for _, p := range row.Params {
			for _, v := range row.Variants {
				for _, n := range []int{0, 1, 3} {
					for _, end := range []byte{'C', 'E'} {
						for _, mode := range []string{"cancelled before emission", "cancelled after emission", "subscription context already cancelled"} {
							idx++
							if !rt.Mine(idx) {
								continue
							}
							if row.Diverges != nil && row.Diverges(p, n, end) {
								continue
							}
							c := c04ItemCtx{Op: row.Name, Variant: v, P: p, N: n, End: end, Mode: mode}
							c04ItemCtxRun(t, c)
							rt.Case(caseKey("itemctx", row.Name, v, p, n, end, mode), n > 0, "item-contexts-over:"+mode, func() any { return c })
						}
					}
				}
			}
		}
	}
}
