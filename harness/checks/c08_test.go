package checks

import (
	"context"
	"encoding/json"
	"fmt"
	"reflect"
	"sync"
	"sync/atomic"
	"testing"
	"time"

	"github.com/samber/ro"
	"pgregory.net/rapid"
	"verifharness/cat"
	"verifharness/model"
	"verifharness/rt"
)

// C08 — Next returns after downstream is done; queues are bounded FIFO.

type c08Sync struct {
	Links  []cat.Link `json:"chain"`
	Script []rt.Ev    `json:"script"`
}

type c08Hand struct {
	Op     string `json:"op"` // ObserveOn | SubscribeOn | ToChannel
	Cap    int    `json:"capacity"`
	Len    int    `json:"length"`
	End    byte   `json:"ending"`
	SlowUs []int  `json:"consumer_delay_us"` // per item, cycled
	// CancelAt > 0: the subscription context is cancelled just before the source issues
	// its notification #CancelAt (Len+1 = the terminal). The source is not context-aware
	// and goes on: a hand-off operator still owes FIFO delivery and the terminal.
	CancelAt int `json:"cancel_context_at,omitempty"`
}

func init() {
	replayers["sync-backpressure"] = func(t *testing.T, raw json.RawMessage) {
		var c c08Sync
		if err := json.Unmarshal(raw, &c); err != nil {
			t.Fatal(err)
		}
		c08RunSync(t, c)
	}
	replayers["handoff"] = func(t *testing.T, raw json.RawMessage) {
		var c c08Hand
		if err := json.Unmarshal(raw, &c); err != nil {
			t.Fatal(err)
		}
		c08RunHand(t, c)
	}
}

// c08RunSync: drive a manual source one notification at a time from this
// goroutine; when each call returns, everything the definition says that
// notification gives rise to has been delivered, on this goroutine, inside the
// call.
func c08RunSync(t rt.TB, c c08Sync) {
	name := chainName(c.Links)
	fail := func(class, msg string) {
		rt.Report(t, rt.Failure{Property: "C08", Check: "sync-backpressure", Op: name, Class: class, Msg: msg, Case: c})
	}
	env := cat.NewEnv()
	var real opII
	var mop model.Operator
	if len(c.Links) == 1 {
		l := c.Links[0]
		row := cat.ByName(l.Op)
		real = opII(cat.ChainStage(row.Build(l.Variant, l.P, env)))
		mop = cat.ChainModel(row.Model(l.P, cat.NewMEnv(nil)))
	} else {
		r, m := buildChain(c.Links, env, cat.NewMEnv(nil))
		real, mop = opII(r), m
	}
	for _, l := range c.Links {
		// a row with a listed C04 finding (Max on an empty source) would be reported
		// here a second time: excluded by construction, counted
		if scriptValues(c.Script) == 0 && rt.KnownFor("C04", "model", l.Op, "trace-mismatch-on-empty-source") != nil {
			rt.Excluded(1)
			return
		}
	}
	man := rt.NewManual("src", rt.CtorUnsafeCtx)
	rec := rt.NewRecorder[int]()
	real(man.Observable()).Subscribe(rec)
	mm := &model.Manual{}
	col := &model.Collector{}
	mop(mm.Obs())(col)
	me := rt.Gid()
	// what subscription itself produced (StartWith prefixes ...)
	check := func(step int, ev string, callStamp int64) bool {
		retStamp := rt.Tick()
		recs := rec.Recs()
		want := col.T
		n := len(want.Vals)
		if want.End != 0 {
			n++
		}
		if len(recs) != n {
			fail("output-not-delivered-when-next-returns", fmt.Sprintf("%s: after %s (step %d of [%s]) returned, the observer had %d notifications, the definition says %d (%s)", name, ev, step, rt.ScriptString(c.Script), len(recs), n, want))
			return false
		}
		for i, r := range recs {
			if i < len(want.Vals) && (r.K != 'N' || !reflect.DeepEqual(cat.Norm(r.V), cat.Norm(want.Vals[i]))) {
				fail("wrong-output", fmt.Sprintf("%s: after %s: output #%d is %s, definition says %v", name, ev, i, r, want.Vals[i]))
				return false
			}
			if r.In > callStamp {
				if r.Gid != me {
					fail("delivered-on-another-goroutine", fmt.Sprintf("%s: output #%d caused by %s was delivered on goroutine %d, the producer called from %d", name, i, ev, r.Gid, me))
					return false
				}
				if r.Out == 0 || r.Out > retStamp {
					fail("callback-outlives-next", fmt.Sprintf("%s: output #%d caused by %s had not finished when the producer's call returned", name, i, ev))
					return false
				}
			}
		}
		return true
	}
	if !check(-1, "Subscribe", 0) {
		return
	}
	for i, e := range c.Script {
		call := rt.Tick()
		man.Emit(e)
		mm.Push(cat.ModelIn([]rt.Ev{e})[0])
		if !check(i, e.String(), call) {
			return
		}
	}
}

func TestC08_SyncEnumerated(t *testing.T) {
	maxLen := 4
	if rt.Thorough() {
		maxLen = 5
	}
	scripts := legalScripts([]int{1, 2, 3}, maxLen, []byte{'C', 'E', 0})
	idx := 0
	for _, row := range cat.Rows {
		if row.Waits || row.Async {
			continue
		}
		for _, p := range row.Params {
			for _, s := range scripts {
				idx++
				if !rt.Mine(idx) {
					continue
				}
				v := row.Variants[idx%len(row.Variants)]
				c := c08Sync{Links: []cat.Link{{Op: row.Name, Variant: v, P: p}}, Script: s}
				c08RunSync(t, c)
				rt.Case(caseKey("sync", row.Name, v, p, s), scriptValues(s) >= 2, "row:"+row.Name, func() any { return c })
			}
		}
	}
	rt.Note("enumerated_scope", fmt.Sprintf("every synchronous catalogue row x params x scripts of length <= %d x endings, checked after every individual Next/Error/Complete call", maxLen))
}

func TestC08_SyncChainsRandom(t *testing.T) { rapid.Check(t, propC08SyncChainsRandom) }

func propC08SyncChainsRandom(t *rapid.T) {
	n := rapid.IntRange(2, 5).Draw(t, "chainLen")
	links := make([]cat.Link, n)
	for i := range links {
		links[i] = genLink(t, false)
	}
	c := c08Sync{Links: links, Script: genScript(t, 10, 1, 4, []byte{'C', 'E', 0})}
	c08RunSync(t, c)
	rt.Case(caseKey("syncchain", fmt.Sprint(links), c.Script), scriptValues(c.Script) >= 2, fmt.Sprintf("chain-len:%d", n), func() any { return c })
}

// ---- hand-off operators -----------------------------------------------------------------

func c08RunHand(t rt.TB, c c08Hand) {
	fail := func(class, msg string) {
		rt.Report(t, rt.Failure{Property: "C08", Check: "handoff", Op: c.Op, Class: class, Msg: msg, Case: c})
	}
	var returned, consumed int64
	maxLead := int64(0)
	subCtx, cancelSub := context.WithCancel(context.Background())
	defer cancelSub()
	sample := func() {
		lead := atomic.LoadInt64(&returned) - atomic.LoadInt64(&consumed)
		for {
			m := atomic.LoadInt64(&maxLead)
			if lead <= m || atomic.CompareAndSwapInt64(&maxLead, m, lead) {
				break
			}
		}
	}
	src := ro.NewObservableWithContext(func(ctx context.Context, d ro.Observer[int]) ro.Teardown {
		for i := 1; i <= c.Len; i++ {
			if c.CancelAt == i {
				cancelSub()
			}
			d.NextWithContext(ctx, i)
			atomic.AddInt64(&returned, 1)
			sample()
		}
		if c.CancelAt == c.Len+1 {
			cancelSub()
		}
		switch c.End {
		case 'C':
			d.CompleteWithContext(ctx)
		case 'E':
			d.ErrorWithContext(ctx, rt.Err(1))
		}
		return nil
	})
	delay := func(i int) {
		if len(c.SlowUs) > 0 {
			if us := c.SlowUs[i%len(c.SlowUs)]; us > 0 {
				time.Sleep(time.Duration(us) * time.Microsecond)
			}
		}
	}
	var got []int
	var end byte
	var gotErr error
	done := make(chan struct{})
	var once sync.Once
	finish := func() { once.Do(func() { close(done) }) }
	switch c.Op {
	case "ObserveOn", "SubscribeOn":
		var op func(ro.Observable[int]) ro.Observable[int]
		if c.Op == "ObserveOn" {
			op = ro.ObserveOn[int](c.Cap)
		} else {
			op = ro.SubscribeOn[int](c.Cap)
		}
		rec := rt.NewRecorder[int]()
		n := 0
		rec.Hook = func(k byte, ctx context.Context, v any, err error) {
			if k == 'N' {
				sample()
				delay(n)
				n++
				atomic.AddInt64(&consumed, 1)
			} else {
				finish()
			}
		}
		go op(src).SubscribeWithContext(subCtx, rec)
		if c.End == 0 {
			// no terminal: wait until every value has been consumed
			deadline := time.Now().Add(20 * time.Second)
			for atomic.LoadInt64(&consumed) < int64(c.Len) && time.Now().Before(deadline) {
				time.Sleep(200 * time.Microsecond)
			}
		} else {
			select {
			case <-done:
			case <-time.After(20 * time.Second):
				fail("terminal-never-delivered", fmt.Sprintf("%s(%d) over %d values: no terminal after 20s", c.Op, c.Cap, c.Len))
				return
			}
		}
		tr := rec.Trace()
		for _, v := range tr.Vals {
			got = append(got, v.(int))
		}
		end, gotErr = tr.End, tr.Err
		if g := rec.Grammar(); g != "" {
			fail("terminal-before-queued-values", g)
			return
		}
	case "ToChannel":
		rec := rt.NewRecorder[<-chan ro.Notification[int]]()
		chCh := make(chan (<-chan ro.Notification[int]), 1)
		rec.NoSnap = true
		rec.Hook = func(k byte, ctx context.Context, v any, err error) {
			if k == 'N' {
				chCh <- v.(<-chan ro.Notification[int])
			}
		}
		sub := ro.ToChannel[int](c.Cap)(src).SubscribeWithContext(subCtx, rec)
		ch := <-chCh
		n := 0
		if c.End == 0 && c.Len == 0 {
			sub.Unsubscribe()
		}
		timeout := time.After(20 * time.Second)
	loop:
		for {
			select {
			case nf, ok := <-ch:
				if !ok {
					break loop
				}
				switch nf.Kind {
				case ro.KindNext:
					sample()
					delay(n)
					n++
					got = append(got, nf.Value)
					atomic.AddInt64(&consumed, 1)
					if c.End == 0 && n == c.Len {
						sub.Unsubscribe()
					}
				case ro.KindError:
					end, gotErr = 'E', nf.Err
				case ro.KindComplete:
					end = 'C'
				}
			case <-timeout:
				fail("channel-never-closed", fmt.Sprintf("ToChannel(%d) over %d values: channel still open after 20s", c.Cap, c.Len))
				return
			}
		}
	}
	want := make([]int, c.Len)
	for i := range want {
		want[i] = i + 1
	}
	if !(len(got) == 0 && len(want) == 0) && !reflect.DeepEqual(got, want) {
		fail("not-fifo-or-lossy", fmt.Sprintf("%s(%d): consumer saw %v, producer sent 1..%d", c.Op, c.Cap, got, c.Len))
		return
	}
	if end != c.End || (end == 'E' && rt.ErrID(gotErr) != 1) {
		fail("terminal-lost", fmt.Sprintf("%s(%d) over %d values ending %q: consumer saw ending %q (%v)", c.Op, c.Cap, c.Len, c.End, end, gotErr))
		return
	}
	// lead = Next calls that have RETURNED minus values the consumer is done with:
	// such a value sits in the queue (<= capacity) or is the one the consumer holds.
	// The value the producer holds is inside a Next call that has not returned.
	if lead := atomic.LoadInt64(&maxLead); lead > int64(c.Cap)+1 {
		fail("producer-runs-ahead-of-capacity", fmt.Sprintf("%s(%d): %d values had been accepted from the producer and not yet handled by the consumer (bound: capacity + the one the consumer holds = %d)", c.Op, c.Cap, lead, c.Cap+1))
		return
	}
	if atomic.LoadInt64(&maxLead) >= int64(c.Cap)+1 {
		rt.Class("bound-reached", 1)
	}
}

func TestC08_HandOff(t *testing.T) {
	caps := []int{1, 2, 3, 8}
	idx := 0
	for _, op := range []string{"ObserveOn", "SubscribeOn", "ToChannel"} {
		cs := caps
		if op == "ToChannel" {
			cs = append([]int{0}, caps...)
		}
		for _, cp := range cs {
			for _, l := range []int{0, 1, cp, cp + 1, cp + 3, 3*cp + 3} {
				for _, end := range []byte{'C', 'E', 0} {
					for _, slow := range [][]int{{0}, {300}, {0, 0, 1500}} {
						idx++
						if !rt.Mine(idx) {
							continue
						}
						for _, cancelAt := range []int{0, 1, l, l + 1} {
							if cancelAt == 0 || (cancelAt >= 1 && (cancelAt != 1 || l >= 1) && (cancelAt != l || l > 1)) {
								c := c08Hand{Op: op, Cap: cp, Len: l, End: end, SlowUs: slow, CancelAt: cancelAt}
								c08RunHand(t, c)
								rt.Case(caseKey("hand", op, cp, l, end, slow, cancelAt), l > cp && slow[len(slow)-1] > 0, "handoff:"+op, func() any { return c })
							}
						}
					}
				}
			}
		}
	}
	rapid.Check(t, func(t *rapid.T) {
		op := rapid.SampledFrom([]string{"ObserveOn", "SubscribeOn", "ToChannel"}).Draw(t, "op")
		cp := rapid.IntRange(1, 8).Draw(t, "cap")
		l := rapid.IntRange(0, 3*cp+3).Draw(t, "len")
		slow := rapid.SliceOfN(rapid.SampledFrom([]int{0, 0, 50, 400, 1200}), 1, 5).Draw(t, "slow")
		c := c08Hand{Op: op, Cap: cp, Len: l, End: rapid.SampledFrom([]byte{'C', 'E', 0}).Draw(t, "end"), SlowUs: slow}
		if rapid.Bool().Draw(t, "cancelContext") {
			c.CancelAt = rapid.IntRange(1, l+1).Draw(t, "cancelAt")
		}
		c08RunHand(t, c)
		stall := false
		for _, s := range slow {
			if s > 0 {
				stall = true
			}
		}
		rt.Case(caseKey("hand", op, cp, l, c.End, slow, c.CancelAt), l > cp && stall, "handoff:"+op, func() any { return c })
	})
}
