package checks

import (
	"encoding/json"
	"fmt"
	"reflect"
	"testing"
	"time"

	"github.com/samber/ro"
	roprometheus "github.com/samber/ro/ee/plugins/prometheus"
	"verifharness/rt"
)

// C19, transparency under a re-entrant consumer: an observer that, from inside
// Next, makes its (synchronous, lock-free) source emit the next value. The plain
// composition of lock-free operators delivers depth-first; the instrumented pipe
// must deliver the same sequence - in particular it must not introduce a lock the
// plain pipeline does not have and deadlock on the nested emission.

type c19Reentrant struct {
	Arity   int  `json:"arity"`
	Depth   int  `json:"depth"`
	Licence bool `json:"licence"`
}

func init() {
	replayers["prometheus-reentrant"] = func(t *testing.T, raw json.RawMessage) {
		var c c19Reentrant
		if err := json.Unmarshal(raw, &c); err != nil {
			t.Fatal(err)
		}
		c19ReentrantRun(t, c)
	}
}

func c19ReentrantRun(t rt.TB, c c19Reentrant) {
	roprometheus.VerifSetLicenseBypass(c.Licence)
	defer roprometheus.VerifSetLicenseBypass(false)
	run := func(instrumented bool) (got []int, ended bool, hung bool) {
		var dest ro.Observer[int]
		src := ro.NewUnsafeObservable(func(d ro.Observer[int]) ro.Teardown {
			dest = d
			d.Next(0)
			d.Complete()
			return nil
		})
		ops := make([]opII, c.Arity)
		for i := range ops {
			if i%2 == 0 {
				ops[i] = ro.Map(func(x int) int { return x })
			} else {
				ops[i] = ro.Filter(func(int) bool { return true })
			}
		}
		var obs ro.Observable[int]
		if instrumented {
			obs, _ = promPipeN(roprometheus.CollectorConfig{Namespace: "verif"}, src, ops)
		} else {
			obs = src
			for _, op := range ops {
				obs = op(obs)
			}
		}
		done := make(chan struct{})
		go func() {
			defer close(done)
			defer func() { recover() }()
			obs.Subscribe(ro.NewObserver(func(v int) {
				got = append(got, v)
				if v < c.Depth {
					dest.Next(v + 1) // emit the next value from inside the delivery of this one
				}
			}, func(error) {}, func() { ended = true }))
		}()
		select {
		case <-done:
		case <-time.After(3 * time.Second):
			return nil, false, true
		}
		return got, ended, false
	}
	want, wantEnded, plainHung := run(false)
	if plainHung {
		return // the plain pipeline itself does not support this consumer: nothing to compare with
	}
	got, gotEnded, hung := run(true)
	desc := fmt.Sprintf("Pipe%d of lock-free operators, licence=%v, consumer emitting the next value from inside Next (depth %d)", c.Arity, c.Licence, c.Depth)
	if hung {
		rt.Report(t, rt.Failure{Property: "C19", Check: "prometheus-reentrant", Op: fmt.Sprintf("Pipe%d", c.Arity), Class: "instrumented-pipe-deadlocks-on-re-entrant-emission", Msg: fmt.Sprintf("%s: the plain composition delivers %v; the instrumented pipe is still blocked after 3s", desc, want), Case: c})
		return
	}
	if !reflect.DeepEqual(got, want) || gotEnded != wantEnded {
		rt.Report(t, rt.Failure{Property: "C19", Check: "prometheus-reentrant", Op: fmt.Sprintf("Pipe%d", c.Arity), Class: "trace-differs-from-plain-pipeline", Msg: fmt.Sprintf("%s: instrumented %v (completed %v), plain %v (completed %v)", desc, got, gotEnded, want, wantEnded), Case: c})
	}
}

func TestC19_ReentrantConsumer(t *testing.T) {
	for _, arity := range []int{1, 2, 3, 7, 13} {
		for _, depth := range []int{0, 1, 4} {
			for _, lic := range []bool{false, true} {
				c := c19Reentrant{Arity: arity, Depth: depth, Licence: lic}
				c19ReentrantRun(t, c)
				rt.Case(caseKey("reentrant", arity, depth, lic), depth > 0, "reentrant", func() any { return c })
			}
		}
	}
}
