package checks

import (
	"strings"
	"fmt"
	roprometheus "github.com/samber/ro/ee/plugins/prometheus"
	"sync"
	"testing"

	"github.com/samber/ro"
	"verifharness/model"
	"verifharness/rt"
)

// C13 — goroutine-safe parts of the API are free of data races.
//
// These tests only *produce* executions; the oracle is the Go race detector
// (the driver builds this binary with -race and parses its reports). Observers
// are quiet (no locks or atomics of the harness between the library's accesses).

func quietObserver() ro.Observer[int] {
	n := 0
	return ro.NewObserver(func(v int) { n += v }, func(error) {}, func() {})
}

func TestC13_MultiSource(t *testing.T) {
	reps := 80
	if rt.Thorough() {
		reps = 800
	}
	belows := [][]string{{}, {"Map"}, {"StartWith"}, {"TapOnFinalize", "Scan"}}
	idx := 0
	for _, top := range c02Tops {
		for _, below := range belows {
			idx++
			if !rt.Mine(idx) {
				continue
			}
			k := c02K(top, 3)
			c := c02Case{Top: top, K: k, Below: below, Scripts: c02Scripts(k, 5, idx%2 == 0), Reps: reps}
			c02Run(t, c, true)
			rt.Case(caseKey("race-multi", top, below, k), true, "race:"+top, func() any { return c })
		}
	}
}

func TestC13_Subjects(t *testing.T) {
	reps := 200
	if rt.Thorough() {
		reps = 3000
	}
	idx := 0
	for _, k := range subjectKinds {
		for _, shape := range []string{"producers", "subscribe-unsubscribe", "terminal-race"} {
			idx++
			if !rt.Mine(idx) {
				continue
			}
			for rep := 0; rep < reps; rep++ {
				s := k.New()
				var wg sync.WaitGroup
				start := make(chan struct{})
				run := func(f func()) {
					wg.Add(1)
					go func() { defer wg.Done(); defer func() { recover() }(); <-start; f() }()
				}
				s.Subscribe(quietObserver())
				switch shape {
				case "producers":
					for p := 0; p < 3; p++ {
						p := p
						run(func() {
							for i := 0; i < 5; i++ {
								s.Next(p*10 + i)
							}
						})
					}
					run(func() { s.HasObserver(); s.CountObservers(); s.IsClosed(); s.HasThrown(); s.IsCompleted() })
				case "subscribe-unsubscribe":
					run(func() {
						for i := 0; i < 6; i++ {
							s.Next(i)
						}
					})
					for p := 0; p < 3; p++ {
						run(func() {
							sub := s.Subscribe(quietObserver())
							s.CountObservers()
							sub.Unsubscribe()
						})
					}
				case "terminal-race":
					run(func() {
						for i := 0; i < 4; i++ {
							s.Next(i)
						}
					})
					run(func() { s.Complete() })
					run(func() { s.Error(rt.Err(1)) })
					run(func() { s.Subscribe(quietObserver()) })
					run(func() { s.IsClosed(); s.HasThrown(); s.IsCompleted() })
				}
				close(start)
				wg.Wait()
			}
			rt.Case(caseKey("race-subject", k, shape), true, "race:subject", func() any { return map[string]any{"subject": k, "shape": shape, "reps": reps} })
		}
	}
}

func TestC13_ShareAndConnectable(t *testing.T) {
	reps := 600
	if rt.Thorough() {
		reps = 3000
	}
	idx := 0
	for _, cfg := range c11Configs() {
		idx++
		if !rt.Mine(idx) {
			continue
		}
		for rep := 0; rep < reps; rep++ {
			man := rt.NewManual("src", rt.CtorSafeCtx)
			var wg sync.WaitGroup
			start := make(chan struct{})
			run := func(f func()) {
				wg.Add(1)
				go func() { defer wg.Done(); defer func() { recover() }(); <-start; f() }()
			}
			if strings.Contains(cfg.Form, "Connectable") {
				conn := ro.ConnectableWithConfig(man.Observable(), ro.ConnectableConfig[int]{Connector: connectorOf(cfg.Cfg), ResetOnDisconnect: cfg.Reset})
				run(func() { c := conn.Connect(); c.Unsubscribe() })
				run(func() { conn.Connect() })
				run(func() { sub := conn.Subscribe(quietObserver()); sub.Unsubscribe() })
				run(func() { conn.Subscribe(quietObserver()) })
				run(func() {
					for i := 0; i < 4; i++ {
						man.Emit(rt.N(i))
					}
					if rep%2 == 0 {
						man.Emit(rt.C())
					}
				})
			} else {
				shared := ro.ShareWithConfig(ro.ShareConfig[int]{Connector: connectorOf(cfg.Cfg), ResetOnError: cfg.Cfg.ResetOnError, ResetOnComplete: cfg.Cfg.ResetOnComplete, ResetOnRefCountZero: cfg.Cfg.ResetOnRefZero})(man.Observable())
				for p := 0; p < 3; p++ {
					run(func() { sub := shared.Subscribe(quietObserver()); sub.Unsubscribe() })
				}
				run(func() {
					sub := shared.Subscribe(quietObserver())
					if rep%2 == 1 {
						sub.Unsubscribe() // every subscriber leaves: the count reaches zero while the source may be ending
					}
				})
				run(func() {
					for i := 0; i < 4; i++ {
						man.Emit(rt.N(i))
					}
					switch rep % 3 {
					case 0:
						man.Emit(rt.C())
					case 1:
						man.Emit(rt.E(1))
					}
				})
			}
			close(start)
			wg.Wait()
		}
		c := cfg
		rt.Case(caseKey("race-share", c.name()), true, "race:"+c.Form, func() any { return map[string]any{"config": c.name(), "reps": reps} })
	}
	_ = model.ShareConfig{}
}

func TestC13_SubscriptionsAndSafeObservables(t *testing.T) {
	reps := 4000
	if rt.Thorough() {
		reps = 60000
	}
	reps /= rt.ShardCount()
	for rep := 0; rep < reps; rep++ {
		s := ro.NewSubscriber[int](quietObserver())
		var wg sync.WaitGroup
		start := make(chan struct{})
		run := func(f func()) {
			wg.Add(1)
			go func() { defer wg.Done(); defer func() { recover() }(); <-start; f() }()
		}
		n := 0
		run(func() { s.Add(func() { n++ }) })
		run(func() { s.Next(1); s.Next(2) })
		run(func() { s.Next(3); s.IsClosed() })
		run(func() { s.Unsubscribe() })
		run(func() {
			if rep%2 == 0 {
				s.Complete()
			} else {
				s.Error(rt.Err(1))
			}
		})
		run(func() { s.Wait() })
		close(start)
		wg.Wait()
	}
	rt.Case("race-subscriber", true, "race:subscriber", func() any {
		return map[string]any{"scenario": "Add | Next | Next | Unsubscribe | terminal | Wait on one subscriber", "reps": reps}
	})
	rt.Case("race-subscriber-2", true, "race:subscriber", func() any { return fmt.Sprintf("%d repetitions", reps) })
}

// Operators that notify from a goroutine of their own (timers, tickers, context
// watchers, hand-off consumers) against one producer.
func TestC13_InternalGoroutines(t *testing.T) {
	reps := 25
	if rt.Thorough() {
		reps = 300
	}
	idx := 0
	for _, op := range c02InternalOps {
		for _, p := range []struct{ d, gap, dwell, cancel int }{{60, 50, 80, -1}, {150, 0, 30, 100}, {50, 120, 0, 40}} {
			for _, end := range []byte{'C', 'E'} {
				idx++
				if !rt.Mine(idx) {
					continue
				}
				c := c02Internal{Op: op, DUs: p.d, N: 5, GapUs: p.gap, DwellUs: p.dwell, CancelUs: p.cancel, End: end, Reps: reps}
				c02InternalRun(t, c, true)
				rt.Case(caseKey("race-internal", op, p.d, p.gap, p.dwell, p.cancel, end), true, "race:internal:"+op, func() any { return c })
			}
		}
	}
}

// Instrumented pipes (Prometheus plugin, licence on) whose operators hand
// notifications over to another goroutine: the stages in front of the hand-off run
// on the producer's goroutine, those behind it on the consumer's, and several
// subscriptions run at once.
func TestC13_InstrumentedPipes(t *testing.T) {
	reps := 20
	if rt.Thorough() {
		reps = 300
	}
	roprometheus.VerifSetLicenseBypass(true)
	defer roprometheus.VerifSetLicenseBypass(false)
	ident := func() opII { return ro.Map(func(x int) int { return x }) }
	shapes := map[string]func() []opII{
		"Map|ObserveOn|Map": func() []opII { return []opII{ident(), ro.ObserveOn[int](2), ident()} },
		"Map|SubscribeOn|Filter|Map": func() []opII {
			return []opII{ident(), ro.SubscribeOn[int](2), ro.Filter(func(int) bool { return true }), ident()}
		},
		"ObserveOn|Scan": func() []opII { return []opII{ro.ObserveOn[int](4), ro.Scan(func(a, x int) int { return a + x }, 0)} },
		"Map|Map":        func() []opII { return []opII{ident(), ident()} },
	}
	idx := 0
	for name, mk := range shapes {
		idx++
		if !rt.Mine(idx) {
			continue
		}
		for rep := 0; rep < reps; rep++ {
			obs, _ := promPipeN(roprometheus.CollectorConfig{Namespace: "verif"}, ro.Just(seqInts(40)...), mk())
			var wg sync.WaitGroup
			for s := 0; s < 3; s++ {
				wg.Add(1)
				go func() {
					defer wg.Done()
					defer func() { recover() }()
					done := make(chan struct{})
					obs.Subscribe(ro.NewObserver(func(int) {}, func(error) { close(done) }, func() { close(done) }))
					<-done
				}()
			}
			wg.Wait()
		}
		n := name
		rt.Case(caseKey("race-prom", n), true, "race:prometheus", func() any { return map[string]any{"pipe": n, "reps": reps, "subscriptions": 3} })
	}
}
