package checks

import (
	"fmt"
	"math"
	"reflect"
	"testing"

	"github.com/samber/ro"
	"verifharness/cat"
	"verifharness/rt"
)

// C04 with count parameters at the top of their type's range (no allocation is
// proportional to them): Take(MaxInt64) is the identity, Skip(MaxInt64) keeps only
// the ending, ElementAtOrDefault(MaxInt64, d) delivers d on completion,
// Range(MaxInt64-2, MaxInt64) the two values below the top. Arithmetic on the
// parameter ("count+1", "count-index") must not wrap.
func TestC04_CountsAtTheTop(t *testing.T) {
	if !rt.Mine(0) {
		return // a handful of cases: one shard runs them
	}
	scripts := map[string][]rt.Ev{
		"C":       {rt.C()},
		"1 2 3 C": {rt.N(1), rt.N(2), rt.N(3), rt.C()},
		"1 2 E":   {rt.N(1), rt.N(2), rt.E(1)},
	}
	type row struct {
		name string
		op   func(ro.Observable[int]) ro.Observable[int]
		want func(vals []int, end byte) ([]int, byte)
	}
	rows := []row{
		{"Take(MaxInt64)", ro.Take[int](math.MaxInt64), func(v []int, e byte) ([]int, byte) { return v, e }},
		{"Take(MaxInt64-1)", ro.Take[int](math.MaxInt64 - 1), func(v []int, e byte) ([]int, byte) { return v, e }},
		{"Skip(MaxInt64)", ro.Skip[int](math.MaxInt64), func(v []int, e byte) ([]int, byte) { return nil, e }},
		{"ElementAtOrDefault(MaxInt64,9)", ro.ElementAtOrDefault(math.MaxInt64, 9), func(v []int, e byte) ([]int, byte) {
			if e == 'C' {
				return []int{9}, e
			}
			return nil, e
		}},
		{"Take(MaxInt64)|Skip(MaxInt64)", func(s ro.Observable[int]) ro.Observable[int] {
			return ro.Skip[int](math.MaxInt64)(ro.Take[int](math.MaxInt64)(s))
		}, func(v []int, e byte) ([]int, byte) { return nil, e }},
	}
	for _, r := range rows {
		for sn, s := range scripts {
			var vals []int
			end := byte(0)
			for _, e := range s {
				if e.K == 'N' {
					vals = append(vals, e.V)
				} else {
					end = e.K
				}
			}
			wv, we := r.want(vals, end)
			rt.NewSink()
			rec := rt.NewRecorder[int]()
			var pan any
			func() {
				defer func() { pan = recover() }()
				r.op(rt.NewScript("src", rt.CtorUnsafeCtx, s).Observable()).Subscribe(rec)
			}()
			c := map[string]any{"op": r.name, "script": sn}
			tr := rec.Trace()
			var got []int
			for _, v := range tr.Vals {
				got = append(got, v.(int))
			}
			if pan != nil {
				rt.Report(t, rt.Failure{Property: "C04", Check: "counts-at-the-top", Op: r.name, Class: "panic-escaped", Msg: fmt.Sprintf("%s over [%s]: %v", r.name, sn, pan), Case: c})
			} else if !(len(got) == 0 && len(wv) == 0) && !reflect.DeepEqual(got, wv) || tr.End != we {
				rt.Report(t, rt.Failure{Property: "C04", Check: "counts-at-the-top", Op: r.name, Class: "trace-differs", Msg: fmt.Sprintf("%s over [%s]: delivered %s, the definition gives %v ending %q", r.name, sn, cat.TraceOf(rec.Trace()), wv, we), Case: c})
			}
			rt.Case(caseKey("topcounts", r.name, sn), true, "counts-at-the-top", func() any { return c })
		}
	}
	// creation operators next to the top of the int64 range
	for _, c := range []struct {
		name string
		obs  ro.Observable[int64]
		want []int64
	}{
		{"Range(MaxInt64-2, MaxInt64)", ro.Range(math.MaxInt64-2, math.MaxInt64), []int64{math.MaxInt64 - 2, math.MaxInt64 - 1}},
		{"Range(MinInt64+2, MinInt64)", ro.Range(math.MinInt64+2, math.MinInt64), []int64{math.MinInt64 + 2, math.MinInt64 + 1}},
	} {
		got, err := ro.Collect(c.obs)
		cc := map[string]any{"op": c.name}
		if err != nil || !reflect.DeepEqual(got, c.want) {
			rt.Report(t, rt.Failure{Property: "C04", Check: "counts-at-the-top", Op: c.name, Class: "trace-differs", Msg: fmt.Sprintf("%s delivered %v (%v), the definition gives %v", c.name, got, err, c.want), Case: cc})
		}
		rt.Case(caseKey("topcounts", c.name), true, "counts-at-the-top", func() any { return cc })
	}
}
