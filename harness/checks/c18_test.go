package checks

import (
	"bytes"
	"context"
	"encoding/base64"
	"encoding/csv"
	"encoding/gob"
	"encoding/json"
	"errors"
	"fmt"
	htmltemplate "html/template"
	"io"
	"reflect"
	"regexp"
	"sort"
	"strconv"
	"strings"
	"sync"
	"testing"
	texttemplate "text/template"
	"time"
	_ "time/tzdata"

	"github.com/samber/ro"
	robytes "github.com/samber/ro/plugins/bytes"
	robase64 "github.com/samber/ro/plugins/encoding/base64"
	rocsv "github.com/samber/ro/plugins/encoding/csv"
	rogob "github.com/samber/ro/plugins/encoding/gob"
	rojson "github.com/samber/ro/plugins/encoding/json"
	roregexp "github.com/samber/ro/plugins/regexp"
	rosort "github.com/samber/ro/plugins/sort"
	rostdio "github.com/samber/ro/plugins/stdio"
	rostrconv "github.com/samber/ro/plugins/strconv"
	rostrings "github.com/samber/ro/plugins/strings"
	rotemplate "github.com/samber/ro/plugins/template"
	rotime "github.com/samber/ro/plugins/time"
	"pgregory.net/rapid"
	"verifharness/rt"
)

// C18 — data plugins are faithful lifts of the functions they wrap.

type c18Case struct {
	Op     string `json:"op"`
	Params []any  `json:"params,omitempty"`
	Inputs []any  `json:"inputs"`
}

type c18Ctx string

// liftCheck runs `build` over the inputs and compares, item by item, with the
// wrapped library function `ref`: same values, or the Error notification carrying
// ref's error at the first failing item and nothing after it. It also checks the
// core contract on the plugin operator: grammar, no escaping panic, source
// released, context marker visible, inputs and delivered values not modified.
func liftCheck[I, O any](t rt.TB, op string, params []any, build func(ro.Observable[I]) ro.Observable[O], inputs []I, ref func(I) (O, error)) {
	c := c18Case{Op: op, Params: params}
	for _, x := range inputs {
		c.Inputs = append(c.Inputs, showVal(x))
	}
	fail := func(class, msg string) {
		rt.Report(t, rt.Failure{Property: "C18", Check: "lift", Op: op, Class: class, Msg: msg, Case: c})
	}
	snapshot := rt.DeepCopy(inputs)
	subs, tears := 0, 0
	src := ro.NewUnsafeObservableWithContext(func(ctx context.Context, d ro.Observer[I]) ro.Teardown {
		subs++
		for _, x := range inputs {
			d.NextWithContext(ctx, x)
		}
		d.CompleteWithContext(ctx)
		return func() { tears++ }
	})
	rec := rt.NewRecorder[O]()
	var pan any
	func() {
		defer func() { pan = recover() }()
		build(src).SubscribeWithContext(context.WithValue(context.Background(), c18Ctx("marker"), 1), rec)
	}()
	if pan != nil {
		fail("panic-escaped", fmt.Sprintf("%s%v over %v: Subscribe panicked: %v", op, params, c.Inputs, pan))
		return
	}
	var want []O
	var wantErr error
	for _, x := range inputs {
		v, err := ref(x)
		if err != nil {
			wantErr = err
			break
		}
		want = append(want, v)
	}
	tr := rec.Trace()
	if len(tr.Vals) != len(want) {
		fail("values-differ-from-wrapped-function", fmt.Sprintf("%s%v over %v: %d values delivered, the wrapped function yields %d (%v vs %v)", op, params, c.Inputs, len(tr.Vals), len(want), showVals(tr.Vals), showVal(want)))
		return
	}
	for i := range want {
		if !equalVal(tr.Vals[i], any(want[i])) {
			fail("values-differ-from-wrapped-function", fmt.Sprintf("%s%v: item %v: got %v, the wrapped function returns %v", op, params, c.Inputs[i], showVal(tr.Vals[i]), showVal(want[i])))
			return
		}
	}
	if wantErr != nil {
		if tr.End != 'E' || tr.Err == nil || tr.Err.Error() != wantErr.Error() {
			fail("error-differs-from-wrapped-function", fmt.Sprintf("%s%v over %v: ended %q (%v), the wrapped function fails with %v", op, params, c.Inputs, tr.End, tr.Err, wantErr))
			return
		}
	} else if tr.End != 'C' {
		fail("terminal-differs", fmt.Sprintf("%s%v over %v: ended %q (%v), expected completion", op, params, c.Inputs, tr.End, tr.Err))
		return
	}
	if g := rec.Grammar(); g != "" {
		fail("grammar", g)
		return
	}
	if m := rec.Mutated(); m != "" {
		fail("delivered-value-modified", fmt.Sprintf("%s%v: %s", op, params, m))
		return
	}
	if fmt.Sprintf("%#v", snapshot) != fmt.Sprintf("%#v", rt.DeepCopy(inputs)) {
		fail("input-modified", fmt.Sprintf("%s%v: the values handed to the operator were modified: before %v, after %v", op, params, showVal(snapshot), showVal(inputs)))
		return
	}
	if subs != 1 || tears != 1 {
		fail("source-not-released", fmt.Sprintf("%s%v: source subscribed %d times, released %d times", op, params, subs, tears))
		return
	}
	for i, r := range rec.Recs() {
		if r.CtxNil || r.Ctx.Value(c18Ctx("marker")) == nil {
			fail("context-lost", fmt.Sprintf("%s%v: callback #%d does not see the subscription context value", op, params, i))
			return
		}
	}
}

func equalVal(a, b any) bool {
	if fa, ok := a.(float64); ok {
		if fb, ok := b.(float64); ok {
			return fa == fb || (fa != fa && fb != fb)
		}
	}
	if ta, ok := a.(time.Time); ok {
		if tb, ok := b.(time.Time); ok {
			return ta.Equal(tb) && ta.Location().String() == tb.Location().String()
		}
	}
	if reflect.ValueOf(a).Kind() == reflect.Slice && reflect.ValueOf(b).Kind() == reflect.Slice && reflect.ValueOf(a).Len() == 0 && reflect.ValueOf(b).Len() == 0 {
		return reflect.ValueOf(a).IsNil() == reflect.ValueOf(b).IsNil() || true
	}
	return reflect.DeepEqual(a, b)
}

func showVal(v any) any {
	switch x := v.(type) {
	case []byte:
		return fmt.Sprintf("%q", x)
	case string:
		return fmt.Sprintf("%q", x)
	}
	s := fmt.Sprintf("%v", v)
	if len(s) > 200 {
		s = s[:200] + "..."
	}
	return s
}

func showVals(vs []any) []any {
	out := make([]any, len(vs))
	for i, v := range vs {
		out[i] = showVal(v)
	}
	return out
}

// ---- generators ------------------------------------------------------------------------------------

var hostileStrings = []string{"", " ", "0", "-0", "+1", "0x1F", "0b101", "0o17", "1e400", "1_000", "٣", "９", "NaN", "Inf", "-Inf", "true", "T", "t", "1", "False", "nope",
	"9223372036854775807", "9223372036854775808", "-9223372036854775809", "18446744073709551615", "18446744073709551616", "3.14", "1e-400", ".5", "5.", "\x00", "a\x00b",
	"\xc6", "\xff\xfe", "héllo wörld", "日本語 テキスト", "hello_world-fooBar BAZ", "XMLHttpRequest2Go", "  trim me  ", "a1b2c3", "ß", "İstanbul", "ǅungla", "'quoted'", "\"dq\"", "`bq`", "\\n", "\"\\xZZ\"", "'\\''"}

func genText(t *rapid.T, label string) string {
	switch rapid.IntRange(0, 3).Draw(t, label+"kind") {
	case 0:
		return rapid.SampledFrom(hostileStrings).Draw(t, label)
	case 1:
		return rapid.StringMatching(`[a-zA-Z0-9_\- ]{0,24}`).Draw(t, label)
	case 2:
		return string(rapid.SliceOfN(rapid.Byte(), 0, 16).Draw(t, label)) // arbitrary bytes, often invalid UTF-8
	}
	return rapid.String().Draw(t, label)
}

func genTexts(t *rapid.T, n int) []string {
	k := rapid.IntRange(0, n).Draw(t, "count")
	out := make([]string, k)
	for i := range out {
		out[i] = genText(t, "s")
	}
	return out
}

func bytesOf(ss []string, spare bool) [][]byte {
	out := make([][]byte, len(ss))
	for i, s := range ss {
		if spare {
			b := make([]byte, len(s), len(s)+16) // spare capacity: an append into the input would be visible
			copy(b, s)
			for j := len(s); j < cap(b); j++ {
				b[:cap(b)][j] = '#'
			}
			out[i] = b
		} else {
			out[i] = []byte(s)
		}
	}
	return out
}

// ---- strconv ---------------------------------------------------------------------------------------------

func TestC18_Strconv(t *testing.T) { rapid.Check(t, propC18Strconv) }

func propC18Strconv(t *rapid.T) {
	in := genTexts(t, 4)
	base := rapid.SampledFrom([]int{0, 2, 8, 10, 16, 36, 37, 1, -1}).Draw(t, "base")
	bits := rapid.SampledFrom([]int{0, 8, 16, 32, 64, 65, -1}).Draw(t, "bits")
	nt := false
	for _, s := range in {
		if _, err := strconv.Atoi(s); err != nil {
			nt = true
		}
	}
	switch rapid.IntRange(0, 14).Draw(t, "which") {
	case 0:
		liftCheck(t, "strconv.Atoi", nil, rostrconv.Atoi[string](), in, strconv.Atoi)
	case 1:
		liftCheck(t, "strconv.ParseInt", []any{base, bits}, rostrconv.ParseInt[string](base, bits), in, func(s string) (int64, error) { return strconv.ParseInt(s, base, bits) })
	case 2:
		fb := rapid.SampledFrom([]int{32, 64, 0, 16}).Draw(t, "fbits")
		liftCheck(t, "strconv.ParseFloat", []any{fb}, rostrconv.ParseFloat[string](fb), in, func(s string) (float64, error) { return strconv.ParseFloat(s, fb) })
	case 3:
		liftCheck(t, "strconv.ParseBool", nil, rostrconv.ParseBool[string](), in, strconv.ParseBool)
	case 4:
		liftCheck(t, "strconv.ParseUint", []any{base, bits}, rostrconv.ParseUint[string](base, bits), in, func(s string) (uint64, error) { return strconv.ParseUint(s, base, bits) })
	case 5:
		liftCheck(t, "strconv.Quote", nil, rostrconv.Quote(), in, func(s string) (string, error) { return strconv.Quote(s), nil })
	case 6:
		liftCheck(t, "strconv.Unquote", nil, rostrconv.Unquote(), in, strconv.Unquote)
	case 7:
		xs := rapid.SliceOfN(rapid.Int64(), 0, 4).Draw(t, "ints")
		b := rapid.IntRange(2, 36).Draw(t, "fbase")
		liftCheck(t, "strconv.FormatInt", []any{b}, rostrconv.FormatInt[string](b), xs, func(x int64) (string, error) { return strconv.FormatInt(x, b), nil })
	case 8:
		xs := rapid.SliceOfN(rapid.Uint64(), 0, 4).Draw(t, "uints")
		b := rapid.IntRange(2, 36).Draw(t, "fbase")
		liftCheck(t, "strconv.FormatUint", []any{b}, rostrconv.FormatUint[string](b), xs, func(x uint64) (string, error) { return strconv.FormatUint(x, b), nil })
	case 9:
		xs := rapid.SliceOfN(rapid.Float64(), 0, 4).Draw(t, "floats")
		f := rapid.SampledFrom([]byte{'e', 'E', 'f', 'g', 'G', 'b', 'x', 'X'}).Draw(t, "fmt")
		p := rapid.IntRange(-1, 20).Draw(t, "prec")
		bs := rapid.SampledFrom([]int{32, 64}).Draw(t, "fbits")
		liftCheck(t, "strconv.FormatFloat", []any{string(f), p, bs}, rostrconv.FormatFloat(f, p, bs), xs, func(x float64) (string, error) { return strconv.FormatFloat(x, f, p, bs), nil })
	case 10:
		xs := rapid.SliceOfN(rapid.Int(), 0, 4).Draw(t, "ints")
		liftCheck(t, "strconv.Itoa", nil, rostrconv.Itoa(), xs, func(x int) (string, error) { return strconv.Itoa(x), nil })
	case 11:
		xs := rapid.SliceOfN(rapid.Bool(), 0, 4).Draw(t, "bools")
		liftCheck(t, "strconv.FormatBool", nil, rostrconv.FormatBool(), xs, func(x bool) (string, error) { return strconv.FormatBool(x), nil })
	case 12:
		xs := rapid.SliceOfN(rapid.Rune(), 0, 4).Draw(t, "runes")
		liftCheck(t, "strconv.QuoteRune", nil, rostrconv.QuoteRune(), xs, func(x rune) (string, error) { return strconv.QuoteRune(x), nil })
	case 13:
		liftCheck(t, "strconv.ParseUint64", []any{base, bits}, rostrconv.ParseUint64[string](base, bits), in, func(s string) (uint64, error) { return strconv.ParseUint(s, base, bits) })
	case 14:
		xs := rapid.SliceOfN(rapid.Custom(func(t *rapid.T) complex128 {
			return complex(rapid.Float64().Draw(t, "re"), rapid.Float64().Draw(t, "im"))
		}), 0, 4).Draw(t, "complexes")
		f := rapid.SampledFrom([]byte{'e', 'E', 'f', 'g', 'G', 'b', 'x', 'X'}).Draw(t, "fmt")
		p := rapid.IntRange(-1, 20).Draw(t, "prec")
		bs := rapid.SampledFrom([]int{64, 128}).Draw(t, "cbits")
		liftCheck(t, "strconv.FormatComplex", []any{string(f), p, bs}, rostrconv.FormatComplex(f, p, bs), xs, func(x complex128) (string, error) { return strconv.FormatComplex(x, f, p, bs), nil })
	}
	rt.Case(caseKey("strconv", fmt.Sprintf("%q", in), base, bits), nt, "strconv", func() any { return map[string]any{"inputs": fmt.Sprintf("%q", in), "base": base, "bitSize": bits} })
}

// ---- regexp ----------------------------------------------------------------------------------------------

var c18Patterns = []string{`a+`, `(a)(b)?`, `[0-9]+`, `^\s*$`, `(\w+)@(\w+)\.com`, `x*`, `(?i)hello`, `[^\x00-\x7F]+`, `.`, `(?s).*`, `\b\w`, `(a|b)*c`, ``}

func TestC18_Regexp(t *testing.T) { rapid.Check(t, propC18Regexp) }

func propC18Regexp(t *rapid.T) {
	pat := rapid.SampledFrom(c18Patterns).Draw(t, "pattern")
	re := regexp.MustCompile(pat)
	n := rapid.SampledFrom([]int{-1, 0, 1, 2, 5}).Draw(t, "n")
	in := genTexts(t, 4)
	for i := range in {
		if rapid.Bool().Draw(t, "seed") {
			in[i] += rapid.SampledFrom([]string{"aaa", "ab", "123", "bob@example.com", "HeLLo", "日本", "abc"}).Draw(t, "frag")
		}
	}
	bin := bytesOf(in, true)
	repl := rapid.SampledFrom([]string{"", "X", "$1", "${1}x", "$$"}).Draw(t, "repl")
	switch rapid.IntRange(0, 13).Draw(t, "which") {
	case 0:
		liftCheck(t, "regexp.FindString", []any{pat}, roregexp.FindString[string](re), in, func(s string) (string, error) { return re.FindString(s), nil })
	case 1:
		liftCheck(t, "regexp.Find", []any{pat}, roregexp.Find[[]byte](re), bin, func(s []byte) ([]byte, error) { return re.Find(s), nil })
	case 2:
		liftCheck(t, "regexp.FindStringSubmatch", []any{pat}, roregexp.FindStringSubmatch[string](re), in, func(s string) ([]string, error) { return re.FindStringSubmatch(s), nil })
	case 3:
		liftCheck(t, "regexp.FindSubmatch", []any{pat}, roregexp.FindSubmatch[[]byte](re), bin, func(s []byte) ([][]byte, error) { return re.FindSubmatch(s), nil })
	case 4:
		liftCheck(t, "regexp.FindAllString", []any{pat, n}, roregexp.FindAllString[string](re, n), in, func(s string) ([]string, error) { return re.FindAllString(s, n), nil })
	case 5:
		liftCheck(t, "regexp.FindAll", []any{pat, n}, roregexp.FindAll[[]byte](re, n), bin, func(s []byte) ([][]byte, error) { return re.FindAll(s, n), nil })
	case 6:
		liftCheck(t, "regexp.FindAllStringSubmatch", []any{pat, n}, roregexp.FindAllStringSubmatch[string](re, n), in, func(s string) ([][]string, error) { return re.FindAllStringSubmatch(s, n), nil })
	case 7:
		liftCheck(t, "regexp.FindAllSubmatch", []any{pat, n}, roregexp.FindAllSubmatch[[]byte](re, n), bin, func(s []byte) ([][][]byte, error) { return re.FindAllSubmatch(s, n), nil })
	case 8:
		liftCheck(t, "regexp.MatchString", []any{pat}, roregexp.MatchString[string](re), in, func(s string) (bool, error) { return re.MatchString(s), nil })
	case 9:
		liftCheck(t, "regexp.Match", []any{pat}, roregexp.Match[[]byte](re), bin, func(s []byte) (bool, error) { return re.Match(s), nil })
	case 10:
		liftCheck(t, "regexp.ReplaceAllString", []any{pat, repl}, roregexp.ReplaceAllString[string](re, repl), in, func(s string) (string, error) { return re.ReplaceAllString(s, repl), nil })
	case 11:
		liftCheck(t, "regexp.ReplaceAll", []any{pat, repl}, roregexp.ReplaceAll[[]byte](re, []byte(repl)), bin, func(s []byte) ([]byte, error) { return re.ReplaceAll(s, []byte(repl)), nil })
	case 12:
		// FilterMatchString keeps exactly the items the pattern matches
		var want []string
		for _, s := range in {
			if re.MatchString(s) {
				want = append(want, s)
			}
		}
		got, err := ro.Collect(roregexp.FilterMatchString[string](re)(ro.Just(in...)))
		if err != nil || !(len(got) == 0 && len(want) == 0) && !reflect.DeepEqual(got, want) {
			rt.Report(t, rt.Failure{Property: "C18", Check: "lift", Op: "regexp.FilterMatchString", Class: "values-differ-from-wrapped-function", Msg: fmt.Sprintf("pattern %q over %q: got %q want %q (%v)", pat, in, got, want, err), Case: c18Case{Op: "regexp.FilterMatchString", Params: []any{pat}, Inputs: []any{fmt.Sprintf("%q", in)}}})
		}
	case 13:
		var want [][]byte
		for _, s := range bin {
			if re.Match(s) {
				want = append(want, s)
			}
		}
		got, err := ro.Collect(roregexp.FilterMatch[[]byte](re)(ro.Just(bin...)))
		if err != nil || !(len(got) == 0 && len(want) == 0) && !reflect.DeepEqual(got, want) {
			rt.Report(t, rt.Failure{Property: "C18", Check: "lift", Op: "regexp.FilterMatch", Class: "values-differ-from-wrapped-function", Msg: fmt.Sprintf("pattern %q over %q: got %q want %q (%v)", pat, in, got, want, err), Case: c18Case{Op: "regexp.FilterMatch", Params: []any{pat}, Inputs: []any{fmt.Sprintf("%q", in)}}})
		}
	}
	rt.Case(caseKey("regexp", pat, n, fmt.Sprintf("%q", in), repl), len(in) > 0, "regexp", func() any { return map[string]any{"pattern": pat, "n": n, "inputs": fmt.Sprintf("%q", in)} })
}

// ---- strings / bytes text helpers: the two flavours agree on the same text ---------------------------------------

type c18Text struct {
	Helper string   `json:"helper"`
	Length int      `json:"length"`
	Inputs [][]byte `json:"inputs"` // raw bytes (base64 in JSON: the texts are often not valid UTF-8)
}

func init() {
	replayers["text-flavour"] = func(t *testing.T, raw json.RawMessage) {
		var c c18Text
		if err := json.Unmarshal(raw, &c); err != nil {
			t.Fatal(err)
		}
		c18RunText(t, c)
	}
}

func c18RunText(t rt.TB, c c18Text) (nonASCII bool) {
	which, length := c.Helper, c.Length
	in := make([]string, len(c.Inputs))
	for i, b := range c.Inputs {
		in[i] = string(b)
	}
	var sop func(ro.Observable[string]) ro.Observable[string]
	var bop func(ro.Observable[[]byte]) ro.Observable[[]byte]
	switch which {
	case "CamelCase":
		sop, bop = rostrings.CamelCase[string](), robytes.CamelCase[[]byte]()
	case "Capitalize":
		sop, bop = rostrings.Capitalize[string](), robytes.Capitalize[[]byte]()
	case "KebabCase":
		sop, bop = rostrings.KebabCase[string](), robytes.KebabCase[[]byte]()
	case "PascalCase":
		sop, bop = rostrings.PascalCase[string](), robytes.PascalCase[[]byte]()
	case "SnakeCase":
		sop, bop = rostrings.SnakeCase[string](), robytes.SnakeCase[[]byte]()
	case "Ellipsis":
		sop, bop = rostrings.Ellipsis[string](length), robytes.Ellipsis[[]byte](length)
	}
	for _, s := range in {
		for i := 0; i < len(s); i++ {
			if s[i] >= 0x80 {
				nonASCII = true
			}
		}
	}
	bin := bytesOf(in, true)
	snap := rt.DeepCopy(bin)
	fail := func(class, msg string) {
		rt.Report(t, rt.Failure{Property: "C18", Check: "text-flavour", Op: "text." + which, Class: class, Msg: msg, Case: c})
	}
	var pan any
	func() {
		defer func() { pan = recover() }()
		if which == "Words" {
			gs, err1 := ro.Collect(rostrings.Words[string]()(ro.Just(in...)))
			gb, err2 := ro.Collect(robytes.Words[[]byte]()(ro.Just(bin...)))
			if err1 != nil || err2 != nil || len(gs) != len(gb) {
				fail("flavours-disagree", fmt.Sprintf("Words over %q: string flavour %q (%v), bytes flavour %q (%v)", in, gs, err1, gb, err2))
				return
			}
			for i := range gs {
				var bw []string
				for _, w := range gb[i] {
					bw = append(bw, string(w))
				}
				if !(len(gs[i]) == 0 && len(bw) == 0) && !reflect.DeepEqual(gs[i], bw) {
					cl := "flavours-disagree"
					if nonASCII {
						cl = "flavours-disagree-on-non-ascii"
					}
					fail(cl, fmt.Sprintf("Words(%q): string flavour %q, bytes flavour %q", in[i], gs[i], bw))
					return
				}
			}
		} else {
			gs, err1 := ro.Collect(sop(ro.Just(in...)))
			gb, err2 := ro.Collect(bop(ro.Just(bin...)))
			if err1 != nil || err2 != nil || len(gs) != len(gb) {
				fail("flavours-disagree", fmt.Sprintf("%s over %q: string flavour %q (%v), bytes flavour %q (%v)", which, in, gs, err1, gb, err2))
				return
			}
			for i := range gs {
				if gs[i] != string(gb[i]) {
					cl := "flavours-disagree"
					if nonASCII {
						cl = "flavours-disagree-on-non-ascii"
					}
					fail(cl, fmt.Sprintf("%s(%q, %d): string flavour %q, bytes flavour %q", which, in[i], length, gs[i], gb[i]))
					return
				}
			}
		}
	}()
	if pan != nil {
		fail("panic-escaped", fmt.Sprintf("%s over %q (length %d): %v", which, in, length, pan))
	}
	// no plugin operator modifies the value it was handed (the backing arrays have spare capacity)
	for i := range bin {
		full, was := bin[i][:cap(bin[i])], snap.([][]byte)[i]
		if !bytes.Equal(bin[i], was) || strings.Count(string(full[len(bin[i]):]), "#") != cap(bin[i])-len(bin[i]) {
			fail("input-modified", fmt.Sprintf("%s(%q, %d) wrote into the slice it was handed: backing array is now %q", which, was, length, full))
			break
		}
	}
	return nonASCII
}

func TestC18_TextHelpers(t *testing.T) { rapid.Check(t, propC18TextHelpers) }

func propC18TextHelpers(t *rapid.T) {
	in := genTexts(t, 4)
	c := c18Text{Helper: rapid.SampledFrom([]string{"CamelCase", "Capitalize", "KebabCase", "PascalCase", "SnakeCase", "Ellipsis", "Words"}).Draw(t, "helper"), Length: rapid.IntRange(-1, 12).Draw(t, "length")}
	for _, s := range in {
		c.Inputs = append(c.Inputs, []byte(s))
	}
	nonASCII := c18RunText(t, c)
	rt.Case(caseKey("text", c.Helper, c.Length, fmt.Sprintf("%q", in)), nonASCII || len(in) > 1, "text:"+c.Helper, func() any {
		return map[string]any{"helper": c.Helper, "length": c.Length, "inputs": fmt.Sprintf("%q", in)}
	})
}

// ---- time, template, base64, json, gob, csv --------------------------------------------------------------------------

type tplData struct {
	Name  string
	N     int
	Items []string
	M     map[string]int
}

func TestC18_TimeTemplateEncodings(t *testing.T) { rapid.Check(t, propC18TimeTemplateEncodings) }

var c18TimeSetup = sync.OnceValues(func() ([]string, []*time.Location) {
	layouts := []string{time.RFC3339, time.RFC1123, "2006-01-02", "15:04:05", time.Kitchen, "Jan _2 2006", "", "bogus"}
	locs := []*time.Location{time.UTC, time.FixedZone("X", 3*3600+1800), time.FixedZone("W", -11*3600)}
	// locations with daylight saving (time/tzdata is linked in): days that are 23,
	// 24.5 or 25 hours long, midnights that do not exist
	for _, name := range []string{"Europe/Paris", "America/New_York", "Australia/Lord_Howe", "America/Sao_Paulo", "Asia/Tehran", "Pacific/Apia"} {
		if l, err := time.LoadLocation(name); err == nil {
			locs = append(locs, l)
		}
	}
	return layouts, locs
})

func propC18TimeTemplateEncodings(t *rapid.T) {
	layouts, locs := c18TimeSetup()
	which := rapid.IntRange(0, 10).Draw(t, "which")
	if which >= 8 {
		which = 2 // templates get a larger share
	}
	switch which {
	case 0: // time parse
		layout := rapid.SampledFrom(append(append([]string{}, layouts...), time.UnixDate, time.RFC822, time.RFC1123Z, time.RFC850)).Draw(t, "layout")
		// time.Parse matches offsets and zone abbreviations against time.Local: the
		// process's local zone is part of the wrapped function's behaviour, so it is
		// drawn too (restored afterwards; nothing here runs in parallel)
		defer func(l *time.Location) { time.Local = l }(time.Local)
		time.Local = rapid.SampledFrom(locs).Draw(t, "processLocalZone")
		in := genTexts(t, 3)
		for i := range in {
			if rapid.Bool().Draw(t, "valid") {
				zone := time.Local
				if rapid.IntRange(0, 2).Draw(t, "otherZone") == 0 {
					zone = rapid.SampledFrom(locs).Draw(t, "inputZone")
				}
				in[i] = time.Unix(rapid.Int64Range(-1e10, 1e10).Draw(t, "ts"), 0).In(zone).Format(layout)
			}
		}
		liftCheck(t, "time.Parse", []any{layout}, rotime.Parse[string](layout), in, func(s string) (time.Time, error) { return time.Parse(layout, s) })
		loc := rapid.SampledFrom(locs).Draw(t, "loc")
		liftCheck(t, "time.ParseInLocation", []any{layout, loc.String()}, rotime.ParseInLocation[string](layout, loc), in, func(s string) (time.Time, error) { return time.ParseInLocation(layout, s, loc) })
		rt.Case(caseKey("time.parse", layout, fmt.Sprintf("%q", in)), true, "time", func() any { return map[string]any{"layout": layout, "inputs": fmt.Sprintf("%q", in)} })
	case 1: // time arithmetic / formatting
		n := rapid.IntRange(0, 3).Draw(t, "n")
		ts := make([]time.Time, n)
		for i := range ts {
			ts[i] = time.Unix(rapid.Int64Range(-6e10, 6e10).Draw(t, "ts"), rapid.Int64Range(0, 999999999).Draw(t, "ns")).In(rapid.SampledFrom(locs).Draw(t, "loc"))
			if rapid.Bool().Draw(t, "nearTransition") {
				// a moment within a day of the next change of the zone offset, if any
				base := time.Unix(rapid.Int64Range(0, 2e9).Draw(t, "base"), 0).In(ts[i].Location())
				if _, end := base.ZoneBounds(); !end.IsZero() {
					ts[i] = end.Add(time.Duration(rapid.Int64Range(-26*3600, 26*3600).Draw(t, "offsetSeconds")) * time.Second)
				}
			}
		}
		d := time.Duration(rapid.Int64Range(-1e15, 1e15).Draw(t, "d"))
		y, m, dd := rapid.IntRange(-3, 3).Draw(t, "y"), rapid.IntRange(-14, 14).Draw(t, "m"), rapid.IntRange(-40, 40).Draw(t, "dd")
		layout := rapid.SampledFrom(layouts).Draw(t, "layout")
		loc := rapid.SampledFrom(locs).Draw(t, "loc")
		liftCheck(t, "time.Add", []any{d.String()}, rotime.Add(d), ts, func(x time.Time) (time.Time, error) { return x.Add(d), nil })
		liftCheck(t, "time.AddDate", []any{y, m, dd}, rotime.AddDate(y, m, dd), ts, func(x time.Time) (time.Time, error) { return x.AddDate(y, m, dd), nil })
		liftCheck(t, "time.Format", []any{layout}, rotime.Format(layout), ts, func(x time.Time) (string, error) { return x.Format(layout), nil })
		liftCheck(t, "time.In", []any{loc.String()}, rotime.In(loc), ts, func(x time.Time) (time.Time, error) { return x.In(loc), nil })
		liftCheck(t, "time.StartOfDay", nil, rotime.StartOfDay(), ts, func(x time.Time) (time.Time, error) {
			return time.Date(x.Year(), x.Month(), x.Day(), 0, 0, 0, 0, x.Location()), nil
		})
		rt.Case(caseKey("time.arith", fmt.Sprint(ts), d, y, m, dd, layout), n > 0, "time", func() any { return map[string]any{"times": fmt.Sprint(ts), "d": d.String()} })
	case 2: // templates
		tpls := []string{"order for {{.Name}}: first item is {{index .Items 0}}", "A{{.N}}B{{index .Items 2}}C", "hello {{.Name}}", "{{.N}} items: {{range .Items}}[{{.}}]{{end}}", "{{.Missing}}", "{{index .Items 5}}", "<b>{{.Name}}</b> & {{len .M}}", "{{if gt .N 1}}many{{else}}few{{end}}", "{{.M.k}}"}
		tpl := rapid.SampledFrom(tpls).Draw(t, "tpl")
		n := rapid.IntRange(0, 3).Draw(t, "n")
		in := make([]tplData, n)
		for i := range in {
			in[i] = tplData{Name: genText(t, "name"), N: rapid.IntRange(0, 3).Draw(t, "N"), Items: rapid.SliceOfN(rapid.StringMatching(`[a-z<>&"]{0,4}`), 0, 3).Draw(t, "items"), M: map[string]int{"k": i}}
		}
		tt := texttemplate.Must(texttemplate.New(tpl).Parse(tpl))
		ht := htmltemplate.Must(htmltemplate.New(tpl).Parse(tpl))
		liftCheck(t, "template.TextTemplate", []any{tpl}, rotemplate.TextTemplate[tplData](tpl), in, func(x tplData) (string, error) {
			var b bytes.Buffer
			err := tt.Execute(&b, x)
			return b.String(), err
		})
		liftCheck(t, "template.HTMLTemplate", []any{tpl}, rotemplate.HTMLTemplate[tplData](tpl), in, func(x tplData) (string, error) {
			var b bytes.Buffer
			err := ht.Execute(&b, x)
			return b.String(), err
		})
		// one operator value used for a second stream: a failed render must not leak into it
		op := rotemplate.TextTemplate[tplData](tpl)
		ro.Collect(op(ro.Just(in...)))
		liftCheck(t, "template.TextTemplate(reused)", []any{tpl}, op, in, func(x tplData) (string, error) {
			var b bytes.Buffer
			err := tt.Execute(&b, x)
			return b.String(), err
		})
		rt.Case(caseKey("template", tpl, fmt.Sprint(in)), n > 0, "template", func() any { return map[string]any{"template": tpl, "inputs": fmt.Sprint(in)} })
	case 3: // base64
		encs := map[string]*base64.Encoding{"Std": base64.StdEncoding, "URL": base64.URLEncoding, "RawStd": base64.RawStdEncoding, "RawURL": base64.RawURLEncoding}
		name := rapid.SampledFrom([]string{"Std", "URL", "RawStd", "RawURL"}).Draw(t, "enc")
		enc := encs[name]
		raw := bytesOf(genTexts(t, 4), true)
		liftCheck(t, "base64.Encode", []any{name}, robase64.Encode[[]byte](enc), raw, func(b []byte) (string, error) { return enc.EncodeToString(b), nil })
		texts := genTexts(t, 3)
		for i := range texts {
			if rapid.Bool().Draw(t, "valid") {
				texts[i] = encs[rapid.SampledFrom([]string{"Std", "URL", "RawStd", "RawURL"}).Draw(t, "enc2")].EncodeToString([]byte(texts[i]))
			}
		}
		liftCheck(t, "base64.Decode", []any{name}, robase64.Decode[string](enc), texts, func(s string) ([]byte, error) { return enc.DecodeString(s) })
		// round trip
		got, err := ro.Collect(ro.Pipe2(ro.Just(raw...), robase64.Encode[[]byte](enc), robase64.Decode[string](enc)))
		if err != nil || len(got) != len(raw) {
			rt.Report(t, rt.Failure{Property: "C18", Check: "lift", Op: "base64.roundtrip", Class: "round-trip-not-identity", Msg: fmt.Sprintf("%s: %q -> %q (%v)", name, raw, got, err), Case: c18Case{Op: "base64.roundtrip", Params: []any{name}}})
		} else {
			for i := range raw {
				if !bytes.Equal(raw[i], got[i]) {
					rt.Report(t, rt.Failure{Property: "C18", Check: "lift", Op: "base64.roundtrip", Class: "round-trip-not-identity", Msg: fmt.Sprintf("%s: %q -> %q", name, raw[i], got[i]), Case: c18Case{Op: "base64.roundtrip", Params: []any{name}}})
				}
			}
		}
		rt.Case(caseKey("base64", name, fmt.Sprintf("%q %q", raw, texts)), true, "base64", func() any {
			return map[string]any{"encoding": name, "raw": fmt.Sprintf("%q", raw), "texts": fmt.Sprintf("%q", texts)}
		})
	case 4: // json
		n := rapid.IntRange(0, 3).Draw(t, "n")
		in := make([]tplData, n)
		for i := range in {
			in[i] = tplData{Name: genText(t, "name"), N: rapid.Int().Draw(t, "N"), Items: rapid.SliceOfN(rapid.String(), 0, 3).Draw(t, "items")}
		}
		liftCheck(t, "json.Marshal", nil, rojson.Marshal[tplData](), in, func(x tplData) ([]byte, error) { return json.Marshal(x) })
		fl := rapid.SliceOfN(rapid.Float64(), 0, 3).Draw(t, "floats")
		if rapid.Bool().Draw(t, "nan") {
			fl = append(fl, nan())
		}
		liftCheck(t, "json.Marshal(float)", nil, rojson.Marshal[float64](), fl, func(x float64) ([]byte, error) { return json.Marshal(x) })
		// element and field types whose custom encoding has a POINTER receiver (used by
		// encoding/json only for addressable values), a value receiver, or a text form
		monies := make([]c18Money, n)
		wraps := make([]c18Wrap, n)
		for i := range monies {
			monies[i] = c18Money{Cents: rapid.IntRange(-500, 5000).Draw(t, "cents"), Currency: rapid.SampledFrom([]string{"EUR", "USD", ""}).Draw(t, "cur")}
			wraps[i] = c18Wrap{Price: monies[i], Tag: c18Tag(i), Ptr: &monies[i], When: c18Stamp{i}}
		}
		liftCheck(t, "json.Marshal(pointer-receiver marshaler)", nil, rojson.Marshal[c18Money](), monies, func(x c18Money) ([]byte, error) { return json.Marshal(x) })
		liftCheck(t, "json.Marshal(nested marshalers)", nil, rojson.Marshal[c18Wrap](), wraps, func(x c18Wrap) ([]byte, error) { return json.Marshal(x) })
		docs := bytesOf(genTexts(t, 3), false)
		for i := range docs {
			if rapid.Bool().Draw(t, "valid") {
				docs[i], _ = json.Marshal(tplData{Name: string(docs[i]), N: i})
			}
		}
		liftCheck(t, "json.Unmarshal", nil, rojson.Unmarshal[tplData](), docs, func(b []byte) (tplData, error) {
			var v tplData
			err := json.Unmarshal(b, &v)
			return v, err
		})
		rt.Case(caseKey("json", fmt.Sprint(in), fmt.Sprintf("%q", docs)), true, "json", func() any { return map[string]any{"values": fmt.Sprint(in), "docs": fmt.Sprintf("%q", docs)} })
	case 5: // gob round trip
		n := rapid.IntRange(0, 3).Draw(t, "n")
		in := make([]tplData, n)
		for i := range in {
			in[i] = tplData{Name: genText(t, "name"), N: rapid.Int().Draw(t, "N"), Items: rapid.SliceOfN(rapid.String(), 1, 3).Draw(t, "items"), M: map[string]int{"a": i}}
		}
		got, err := ro.Collect(ro.Pipe2(ro.Just(in...), rogob.Encode[tplData](), rogob.Decode[tplData]()))
		if err != nil || !(len(got) == 0 && len(in) == 0) && !reflect.DeepEqual(got, in) {
			rt.Report(t, rt.Failure{Property: "C18", Check: "lift", Op: "gob.roundtrip", Class: "round-trip-not-identity", Msg: fmt.Sprintf("%v -> %v (%v)", in, got, err), Case: c18Case{Op: "gob.roundtrip", Inputs: []any{fmt.Sprint(in)}}})
		}
		garbage := bytesOf(genTexts(t, 3), false)
		liftCheck(t, "gob.Decode", nil, rogob.Decode[tplData](), garbage, func(b []byte) (tplData, error) {
			var v tplData
			err := gob.NewDecoder(bytes.NewReader(b)).Decode(&v)
			return v, err
		})
		rt.Case(caseKey("gob", fmt.Sprint(in), fmt.Sprintf("%q", garbage)), true, "gob", func() any { return map[string]any{"values": fmt.Sprint(in)} })
	default: // csv write -> read
		width := rapid.IntRange(1, 3).Draw(t, "width")
		rows := rapid.SliceOfN(rapid.SliceOfN(rapid.SampledFrom([]string{"a", "", "x,y", "q\"uote", "line\nbreak", " sp ", "日本", "1"}), width, width), 0, 4).Draw(t, "rows")
		var buf bytes.Buffer
		w := csv.NewWriter(&buf)
		counts, err := ro.Collect(rocsv.NewCSVWriter(w)(ro.Just(rows...)))
		w.Flush()
		back, err2 := ro.Collect(rocsv.NewCSVReader(csv.NewReader(bytes.NewReader(buf.Bytes()))))
		want, _ := csv.NewReader(bytes.NewReader(buf.Bytes())).ReadAll()
		if err != nil || err2 != nil || !(len(back) == 0 && len(want) == 0) && !reflect.DeepEqual(back, want) {
			rt.Report(t, rt.Failure{Property: "C18", Check: "lift", Op: "csv.roundtrip", Class: "round-trip-not-identity", Msg: fmt.Sprintf("rows %q written (%v, %v) as %q, read back %q (%v), encoding/csv reads %q", rows, counts, err, buf.String(), back, err2, want), Case: c18Case{Op: "csv.roundtrip", Inputs: []any{fmt.Sprintf("%q", rows)}}})
		}
		// rows whose field count is uniform must come back unchanged
		uniform := true
		for _, r := range rows {
			if len(r) != len(rows[0]) {
				uniform = false
			}
			if len(r) == 1 && r[0] == "" {
				uniform = false // a single empty field is written as an empty line, which csv readers skip
			}
		}
		if uniform && len(rows) > 0 && !reflect.DeepEqual(back, rows) {
			rt.Report(t, rt.Failure{Property: "C18", Check: "lift", Op: "csv.roundtrip", Class: "round-trip-not-identity", Msg: fmt.Sprintf("rows %q came back as %q", rows, back), Case: c18Case{Op: "csv.roundtrip", Inputs: []any{fmt.Sprintf("%q", rows)}}})
		}
		rt.Case(caseKey("csv", fmt.Sprintf("%q", rows)), len(rows) > 0, "csv", func() any { return map[string]any{"rows": fmt.Sprintf("%q", rows)} })
	}
}

func nan() float64 { z := 0.0; return z / z }

// ---- sort -------------------------------------------------------------------------------------------------------

type keyed struct {
	K  int
	ID int
}

func TestC18_Sort(t *testing.T) { rapid.Check(t, propC18Sort) }

func propC18Sort(t *rapid.T) {
	n := rapid.SampledFrom([]int{0, 1, 2, 5, 11, 12, 13, 20, 50, 200}).Draw(t, "n")
	keys := rapid.IntRange(1, 4).Draw(t, "distinctKeys")
	in := make([]keyed, n)
	for i := range in {
		in[i] = keyed{K: rapid.IntRange(0, keys-1).Draw(t, "k"), ID: i}
	}
	cmp := func(a, b keyed) int { return a.K - b.K }
	for _, which := range []string{"SortFunc", "SortStableFunc"} {
		var op func(ro.Observable[keyed]) ro.Observable[keyed]
		if which == "SortFunc" {
			op = rosort.SortFunc(cmp)
		} else {
			op = rosort.SortStableFunc(cmp)
		}
		snap := append([]keyed(nil), in...)
		got, err := ro.Collect(op(ro.FromSlice(in)))
		c := c18Case{Op: "sort." + which, Inputs: []any{fmt.Sprint(in)}}
		fail := func(class, msg string) {
			rt.Report(t, rt.Failure{Property: "C18", Check: "lift", Op: "sort." + which, Class: class, Msg: msg, Case: c})
		}
		if err != nil || len(got) != len(in) {
			fail("not-a-permutation", fmt.Sprintf("%d items in, %d out (%v)", len(in), len(got), err))
			continue
		}
		seen := map[int]bool{}
		for i, x := range got {
			if seen[x.ID] || x.ID < 0 || x.ID >= n || in[x.ID] != x {
				fail("not-a-permutation", fmt.Sprintf("output %v is not a permutation of the input", got))
				break
			}
			seen[x.ID] = true
			if i > 0 && got[i-1].K > x.K {
				fail("not-sorted", fmt.Sprintf("output %v", got))
				break
			}
			if which == "SortStableFunc" && i > 0 && got[i-1].K == x.K && got[i-1].ID > x.ID {
				fail("not-stable", fmt.Sprintf("n=%d: items with equal key %d came out in the order %d, %d (input order is by id)", n, x.K, got[i-1].ID, x.ID))
				break
			}
		}
		if len(in) > 0 && !reflect.DeepEqual(snap, in) {
			fail("input-modified", "the input slice was reordered")
		}
	}
	xs := rapid.SliceOfN(rapid.IntRange(-5, 5), 0, 30).Draw(t, "ints")
	got, err := ro.Collect(rosort.Sort(func(a, b int) int { return a - b })(ro.Just(xs...)))
	want := append([]int(nil), xs...)
	sort.Ints(want)
	if err != nil || !(len(got) == 0 && len(want) == 0) && !reflect.DeepEqual(got, want) {
		rt.Report(t, rt.Failure{Property: "C18", Check: "lift", Op: "sort.Sort", Class: "not-sorted", Msg: fmt.Sprintf("%v -> %v", xs, got), Case: c18Case{Op: "sort.Sort", Inputs: []any{fmt.Sprint(xs)}}})
	}
	// an error of the source is forwarded, nothing emitted
	_, err = ro.Collect(rosort.SortFunc(cmp)(ro.Throw[keyed](rt.Err(3))))
	if rt.ErrID(err) != 3 {
		rt.Report(t, rt.Failure{Property: "C18", Check: "lift", Op: "sort.SortFunc", Class: "error-differs-from-wrapped-function", Msg: fmt.Sprintf("source error became %v", err), Case: c18Case{Op: "sort.SortFunc"}})
	}
	rt.Case(caseKey("sort", n, keys, fmt.Sprint(in)), n > 12 && keys < n, "sort", func() any { return map[string]any{"n": n, "distinct_keys": keys} })
}

// ---- stdio readers / writers ------------------------------------------------------------------------------------------

// scriptedReader returns data in chunks of the given sizes; withEOF returns the
// last chunk together with io.EOF; errAt injects an error after that many bytes.
type scriptedReader struct {
	data    []byte
	sizes   []int
	i       int
	withEOF bool
	errAt   int
	read    int
}

func (r *scriptedReader) Read(p []byte) (int, error) {
	if r.errAt >= 0 && r.read >= r.errAt {
		return 0, errors.New("reader-fault")
	}
	if len(r.data) == 0 {
		return 0, io.EOF
	}
	n := len(p)
	if len(r.sizes) > 0 {
		if s := r.sizes[r.i%len(r.sizes)]; s < n && s > 0 {
			n = s
		}
		r.i++
	}
	if n > len(r.data) {
		n = len(r.data)
	}
	if r.errAt >= 0 && r.read+n > r.errAt {
		n = r.errAt - r.read
	}
	copy(p, r.data[:n])
	r.data = r.data[n:]
	r.read += n
	if len(r.data) == 0 && r.withEOF {
		return n, io.EOF
	}
	return n, nil
}

func TestC18_Stdio(t *testing.T) { rapid.Check(t, propC18Stdio) }

func propC18Stdio(t *rapid.T) {
	size := rapid.SampledFrom([]int{0, 1, 5, 1023, 1024, 1025, 2048, 3000, 4095, 4096, 4097, 9000, 65535, 65536, 66000, 140000}).Draw(t, "size")
	data := make([]byte, size)
	lineLen := rapid.SampledFrom([]int{0, 1, 7, 80, 4095, 4096, 4097, 70000}).Draw(t, "lineLen")
	for i := range data {
		data[i] = byte('a' + i%23)
		if lineLen > 0 && i%lineLen == lineLen-1 {
			data[i] = '\n'
		}
	}
	sizes := rapid.SliceOfN(rapid.SampledFrom([]int{1, 2, 100, 1024, 5000}), 0, 3).Draw(t, "chunks")
	withEOF := rapid.Bool().Draw(t, "dataWithEOF")
	errAt := -1
	if rapid.IntRange(0, 4).Draw(t, "fault") == 0 && size > 0 {
		errAt = rapid.IntRange(0, size-1).Draw(t, "errAt")
	}
	c := c18Case{Op: "stdio", Params: []any{size, lineLen, sizes, withEOF, errAt}}
	mk := func() *scriptedReader {
		return &scriptedReader{data: append([]byte(nil), data...), sizes: sizes, withEOF: withEOF, errAt: errAt}
	}
	// NewIOReader: the concatenation of the chunks is the input (up to the fault)
	{
		rec := rt.NewRecorder[[]byte]()
		var pan any
		func() {
			defer func() { pan = recover() }()
			rostdio.NewIOReader(mk()).Subscribe(rec)
		}()
		fail := func(class, msg string) {
			rt.Report(t, rt.Failure{Property: "C18", Check: "lift", Op: "stdio.NewIOReader", Class: class, Msg: msg, Case: c})
		}
		if pan != nil {
			fail("panic-escaped", fmt.Sprint(pan))
		}
		var got []byte
		for _, r := range rec.Recs() {
			if r.K == 'N' {
				got = append(got, r.V.([]byte)...) // snapshot taken at delivery
			}
		}
		want := data
		if errAt >= 0 {
			want = data[:errAt]
		}
		if !bytes.Equal(got, want) {
			cl := "chunks-do-not-concatenate-to-input"
			if withEOF && errAt < 0 && len(got) < len(want) {
				cl = "data-returned-with-eof-dropped"
			}
			fail(cl, fmt.Sprintf("input of %d bytes (reader chunks %v, data+EOF together=%v, fault at %d): the chunks concatenate to %d bytes", len(want), sizes, withEOF, errAt, len(got)))
		}
		tr := rec.Trace()
		if errAt >= 0 && (tr.End != 'E' || tr.Err.Error() != "reader-fault") || errAt < 0 && tr.End != 'C' {
			fail("terminal-differs", fmt.Sprintf("ended %q (%v)", tr.End, tr.Err))
		}
		if m := rec.Mutated(); m != "" {
			fail("delivered-value-modified", "a chunk handed to the observer was overwritten by a later read: "+trimTo(m, 160))
		}
	}
	// NewIOReaderLine: concatenation == input with the line terminators removed
	{
		rec := rt.NewRecorder[[]byte]()
		var pan any
		func() {
			defer func() { pan = recover() }()
			rostdio.NewIOReaderLine(mk()).Subscribe(rec)
		}()
		fail := func(class, msg string) {
			rt.Report(t, rt.Failure{Property: "C18", Check: "lift", Op: "stdio.NewIOReaderLine", Class: class, Msg: msg, Case: c})
		}
		if pan != nil {
			fail("panic-escaped", fmt.Sprint(pan))
		}
		var got []byte
		for _, r := range rec.Recs() {
			if r.K == 'N' {
				got = append(got, r.V.([]byte)...)
			}
		}
		src := data
		if errAt >= 0 {
			src = data[:errAt]
		}
		want := bytes.ReplaceAll(src, []byte("\n"), nil)
		tr := rec.Trace()
		if errAt < 0 {
			if !bytes.Equal(got, want) {
				fail("chunks-do-not-concatenate-to-input", fmt.Sprintf("input of %d bytes with lines of %d: pieces concatenate to %d bytes, expected %d", len(src), lineLen, len(got), len(want)))
			}
			if tr.End != 'C' {
				fail("terminal-differs", fmt.Sprintf("valid input of %d bytes (line length %d) ended %q (%v)", size, lineLen, tr.End, tr.Err))
			}
		} else if !bytes.HasPrefix(want, got) || tr.End != 'E' {
			fail("chunks-do-not-concatenate-to-input", fmt.Sprintf("fault at %d: pieces are not a prefix of the input / ending %q", errAt, tr.End))
		}
		if m := rec.Mutated(); m != "" {
			fail("delivered-value-modified", trimTo(m, 160))
		}
	}
	// NewIOWriter: what reaches the writer is the concatenation of the items, counts are exact
	{
		var buf bytes.Buffer
		pieces := [][]byte{data[:size/3], data[size/3 : size/2], data[size/2:]}
		counts, err := ro.Collect(rostdio.NewIOWriter(&buf)(ro.Just(pieces...)))
		total := 0
		for _, n := range counts {
			total += n
		}
		if err != nil || !bytes.Equal(buf.Bytes(), data) || total != len(data) {
			rt.Report(t, rt.Failure{Property: "C18", Check: "lift", Op: "stdio.NewIOWriter", Class: "chunks-do-not-concatenate-to-input", Msg: fmt.Sprintf("wrote %d bytes in 3 items: writer holds %d, counts %v (%v)", len(data), buf.Len(), counts, err), Case: c})
		}
	}
	rt.Case(caseKey("stdio", size, lineLen, sizes, withEOF, errAt), size >= 1024 || errAt >= 0 || withEOF, "stdio", func() any { return c })
}

func trimTo(s string, n int) string {
	if len(s) > n {
		return s[:n] + "..."
	}
	return s
}

// c18Money: MarshalJSON on the pointer receiver only.
type c18Money struct {
	Cents    int
	Currency string
}

func (m *c18Money) MarshalJSON() ([]byte, error) {
	return json.Marshal(fmt.Sprintf("%d.%02d %s", m.Cents/100, m.Cents%100, m.Currency))
}

// c18Tag: value-receiver marshaler; c18Stamp: pointer-receiver text marshaler.
type c18Tag int

func (g c18Tag) MarshalJSON() ([]byte, error) { return []byte(fmt.Sprintf("\"tag-%d\"", int(g))), nil }

type c18Stamp struct{ N int }

func (s *c18Stamp) MarshalText() ([]byte, error) { return []byte(fmt.Sprintf("stamp:%d", s.N)), nil }

type c18Wrap struct {
	Price c18Money
	Tag   c18Tag
	Ptr   *c18Money
	When  c18Stamp
}
