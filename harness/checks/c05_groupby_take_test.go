package checks

import (
	"encoding/json"
	"fmt"
	"testing"

	"github.com/samber/ro"
	"verifharness/cat"
	"verifharness/model"
	"verifharness/rt"
)

// C05 / "nothing is lost" for GroupBy when the consumer stops taking groups on the
// very notification that delivers one: a group that has been delivered carries
// the item that opened it, whatever the consumer does next.
//   GroupBy(key) |> Take(n) |> MergeAll  over a script S  ==  the prefix of S up to
// and including the item that opens the n-th group, then completion (or all of S
// with S's own ending when fewer than n groups appear).

type c05GroupTake struct {
	Script []rt.Ev `json:"script"`
	Mod    int     `json:"key_mod"`
	N      int     `json:"take_groups"`
	How    string  `json:"how"` // Take | unsubscribe-in-next
}

func init() {
	replayers["groupby-take"] = func(t *testing.T, raw json.RawMessage) {
		var c c05GroupTake
		if err := json.Unmarshal(raw, &c); err != nil {
			t.Fatal(err)
		}
		c05GroupTakeRun(t, c)
	}
}

func c05GroupTakeRun(t rt.TB, c c05GroupTake) {
	fail := func(class, msg string) {
		rt.Report(t, rt.Failure{Property: "C05", Check: "groupby-take", Op: "GroupBy", Class: class, Msg: msg, Case: c})
	}
	rt.NewSink()
	// expectation
	var want model.Trace
	keys := map[int]bool{}
	cut := false
	for _, e := range c.Script {
		switch e.K {
		case 'N':
			want.Vals = append(want.Vals, e.V)
			if !keys[e.V%c.Mod] {
				keys[e.V%c.Mod] = true
				if len(keys) == c.N {
					cut = true
				}
			}
		case 'E':
			want.End, want.Err = 'E', fmt.Sprintf("e%d", e.V)
		case 'C':
			want.End = 'C'
		}
		if cut {
			want.End, want.Err = 'C', ""
			break
		}
	}
	// a hot, controllable source: Subscribe returns first, then the script is played
	src := rt.NewManual("src", rt.CtorUnsafeCtx)
	groups := ro.GroupBy(func(x int) int { return x % c.Mod })(src.Observable())
	rec := rt.NewRecorder[int]()
	var pan any
	var outer ro.Subscription
	func() {
		defer func() { pan = recover() }()
		switch c.How {
		case "Take":
			outer = ro.MergeAll[int]()(ro.Take[ro.Observable[int]](int64(c.N))(groups)).Subscribe(rec)
		default:
			// a hand-written consumer: subscribes each group as it arrives and stops
			// listening for groups inside the Next that delivers the n-th one
			seen := 0
			done := false
			finish := func(f func()) {
				if !done {
					done = true
					f()
				}
			}
			outer = groups.Subscribe(ro.NewObserver(func(g ro.Observable[int]) {
				seen++
				g.Subscribe(ro.NewObserver(func(v int) { rec.Next(v) }, func(error) {}, func() {}))
				if seen == c.N {
					outer.Unsubscribe()
					finish(rec.Complete) // the consumer's own view: it stopped here
				}
			}, func(err error) { finish(func() { rec.Error(err) }) }, func() { finish(rec.Complete) }))
		}
		for _, e := range c.Script {
			src.Emit(e)
		}
	}()
	desc := fmt.Sprintf("GroupBy(x%%%d) |> %s(%d groups) over [%s]", c.Mod, c.How, c.N, rt.ScriptString(c.Script))
	if pan != nil {
		fail("panic-escaped", fmt.Sprintf("%s: %v", desc, pan))
		return
	}
	got := cat.TraceOf(rec.Trace())
	if !cat.SameTrace(got, want) {
		class := "wrong-output"
		if len(got.Vals) < len(want.Vals) {
			class = "item-that-opened-a-delivered-group-lost"
		}
		fail(class, fmt.Sprintf("%s: got %s, want %s", desc, got, want))
		return
	}
	if outer != nil {
		outer.Unsubscribe()
	}
	if src.LiveDests() != 0 {
		fail("source-not-released", desc+": the source is still subscribed after the consumer has gone")
	}
}

func TestC05_GroupByTake(t *testing.T) {
	maxLen := 4
	if rt.Thorough() {
		maxLen = 6
	}
	scripts := legalScripts([]int{1, 2, 3}, maxLen, []byte{'C', 'E', 0})
	idx := 0
	for _, s := range scripts {
		for _, mod := range []int{2, 3} {
			for n := 1; n <= 3; n++ {
				for _, how := range []string{"Take", "unsubscribe-in-next"} {
					idx++
					if !rt.Mine(idx) {
						continue
					}
					if scriptEnd(s) == 0 && how == "Take" {
						// an open-ended synchronous script: fine, Subscribe returns (nothing blocks)
					}
					c := c05GroupTake{Script: s, Mod: mod, N: n, How: how}
					c05GroupTakeRun(t, c)
					rt.Case(caseKey("gbtake", rt.ScriptString(s), mod, n, how), scriptValues(s) >= 2, "groupby-take", func() any { return c })
				}
			}
		}
	}
}
