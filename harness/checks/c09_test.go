package checks

import (
	"context"
	"encoding/json"
	"fmt"
	"testing"

	"github.com/samber/ro"
	"pgregory.net/rapid"
	"verifharness/cat"
	"verifharness/rt"
)

// C09 — context flows from Subscribe through every callback and is never nil.

type c09Case struct {
	Links  []cat.Link `json:"chain"`
	Script []rt.Ev    `json:"script"`
	Pre    string     `json:"upstream_marker"` // "", "ContextWithValue", "ContextMap"
	Ctx    string     `json:"ctx_kind"`        // value | cancel | deadline | custom
	// NoCtxSource: the source is written with the context-less API (destination.Next(v),
	// destination.Complete()): its notifications arrive with context.Background(), so
	// nothing attached at subscription can be expected downstream, but what a context
	// operator BELOW the source attaches must be there on every kind of notification.
	NoCtxSource bool `json:"contextless_source,omitempty"`
}

func init() {
	replayers["context"] = func(t *testing.T, raw json.RawMessage) {
		var c c09Case
		if err := json.Unmarshal(raw, &c); err != nil {
			t.Fatal(err)
		}
		c09Run(t, c)
	}
}

type c09Key string

const c09M c09Key = "upstream-marker"

// customCtx merely implements context.Context around another one.
type customCtx struct{ context.Context }

func c09Context(kind string, id int) (context.Context, func()) {
	base := context.WithValue(context.Background(), rt.SubKey, id)
	switch kind {
	case "cancel":
		c, cancel := context.WithCancel(base)
		return c, cancel
	case "deadline":
		c, cancel := context.WithTimeout(base, 1e12)
		return c, cancel
	case "custom":
		return customCtx{base}, func() {}
	}
	return base, func() {}
}

// ownValueRows deliver values that do not come from their source (prefixes,
// fallbacks, companions): those values need the subscription marker only.
var c09OwnValues = map[string]bool{"StartWith": true, "OnErrorResumeNextWith": true, "ConcatWith": true, "MergeWith": true, "Catch": true}

// provenance: for value-preserving rows fed with the script 1,2,3,... the
// output value identifies the source item it derives from.
var c09Prov = map[string]func(v any) (int, bool){}

func init() {
	same := func(v any) (int, bool) {
		x, ok := cat.Norm(v).(int)
		if !ok || x < 1 || x > 50 {
			return 0, false
		}
		return x - 1, true
	}
	for _, n := range []string{"Filter", "FilterIdx", "Distinct", "DistinctBy", "Skip", "SkipWhile", "SkipLast", "Take", "TakeWhile", "TakeLast",
		"Head", "Tail", "First", "Last", "ElementAt", "Find", "Tap", "TapOnNext", "TapOnError", "TapOnComplete", "TapOnSubscribe", "TapOnFinalize",
		"Serialize", "Materialize|Dematerialize", "ContextWithValue", "ContextMap", "ThrowIfEmpty", "OnErrorReturn", "Cast", "Min", "Max", "Clamp"} {
		c09Prov[n] = same
	}
	c09Prov["Map"] = func(v any) (int, bool) {
		x, ok := cat.Norm(v).(int)
		if !ok || (x-1)%3 != 0 {
			return 0, false
		}
		return (x-1)/3 - 1, true
	}
	// Clamp changes out-of-range values: only in-range ones identify their item
	c09Prov["Clamp"] = nil
	delete(c09Prov, "Clamp")
	delete(c09Prov, "OnErrorReturn") // the replacement value has no source item
	delete(c09Prov, "ElementAtOrDefault")
}

func c09Run(t rt.TB, c c09Case) {
	name := chainName(c.Links)
	fail := func(op, class, msg string) {
		rt.Report(t, rt.Failure{Property: "C09", Check: "context", Op: op, Class: class, Msg: msg, Case: c})
	}
	env := cat.NewEnv()
	env.Mark = true
	id := 4242
	ctx0, cancel := c09Context(c.Ctx, id)
	defer cancel()
	ctor := rt.CtorUnsafeCtx
	if c.NoCtxSource {
		ctor = rt.CtorUnsafe
	}
	src := rt.NewScript("src", ctor, c.Script)
	var o ro.Observable[int] = src.Observable()
	switch c.Pre {
	case "ContextWithValue":
		o = ro.ContextWithValue[int](c09M, true)(o)
	case "ContextMap":
		o = ro.ContextMap[int](func(cx context.Context) context.Context { return context.WithValue(cx, c09M, true) })(o)
	}
	var out ro.Observable[any]
	if len(c.Links) == 1 {
		l := c.Links[0]
		out = cat.ByName(l.Op).Build(l.Variant, l.P, env)(o)
	} else {
		real, _ := buildChain(c.Links, env, cat.NewMEnv(nil))
		out = ro.Map(func(x int) any { return x })(real(o))
	}
	rec := rt.NewRecorder[any]()
	var pan any
	func() {
		defer func() { pan = recover() }()
		out.SubscribeWithContext(ctx0, rec)
	}()
	if pan != nil {
		fail(name, "panic-escaped", fmt.Sprint(pan))
		return
	}
	// (1) the source is subscribed with the subscription context
	for i, sc := range src.SubCtxs {
		// documented exception, second part: DefaultIfEmptyWithContext delivers its default with
		// the explicit context argument; a context-aware loop below it (DoWhile / While
		// WithContext) continues - and re-subscribes - with the context its callback
		// was given and returned, which then is that argument
		viaArg := false
		if i > 0 && sc != nil && sc.Value(cat.MidMarker("DefaultIfEmpty.arg")) != nil {
			for _, l := range c.Links {
				if l.Op == "DefaultIfEmpty" && l.Variant == "WithContext" {
					viaArg = true
				}
			}
		}
		if c.NoCtxSource {
			break // a context-less subscribe function is not shown its context
		}
		if sc == nil || (sc.Value(rt.SubKey) != id && !viaArg) {
			fail(name, "source-not-subscribed-with-subscription-context", fmt.Sprintf("%s: source subscription #%d got context %v", name, i, sc))
			return
		}
	}
	last := c.Links[len(c.Links)-1]
	lastRow := cat.ByName(last.Op)
	// The marker attached upstream of the whole chain can only be expected below
	// stages that pass upstream notifications on: not below a stage that never
	// subscribes its source (Take(0), TakeLast(0), RepeatWith(0), While with a
	// false first condition), that delivers values of its own (prefixes,
	// fallbacks, companions) or that ends the stream by itself with the context
	// its own callback returned (While).
	own := false
	for _, l := range c.Links {
		r := cat.ByName(l.Op)
		if c09OwnValues[l.Op] || l.Op == "While" || (r.NoSub0 && len(l.P) > 0 && l.P[0] == 0) {
			own = true
		}
		if l.Op == "DefaultIfEmpty" && l.Variant == "WithContext" {
			own = true
		}
	}
	// (2) recorder contexts
	recs := rec.Recs()
	for i, r := range recs {
		kind := map[byte]string{'N': "Next", 'E': "Error", 'C': "Complete"}[r.K]
		if r.CtxNil {
			fail(last.Op, "nil-context-on-"+kind, fmt.Sprintf("%s over [%s]: callback #%d %s received a nil context", name, rt.ScriptString(c.Script), i, r))
			return
		}
		argCtx := false
		for _, l := range c.Links {
			if l.Op == "DefaultIfEmpty" && l.Variant == "WithContext" {
				argCtx = true // documented exception: the default value travels with the explicit context argument
			}
		}
		if !c.NoCtxSource && r.Ctx.Value(rt.SubKey) != id && !(argCtx && r.Ctx.Value(cat.MidMarker("DefaultIfEmpty.arg")) != nil) {
			fail(last.Op, "subscription-marker-lost-on-"+kind, fmt.Sprintf("%s over [%s] (ctx kind %s): callback #%d %s: the value attached at SubscribeWithContext is not visible", name, rt.ScriptString(c.Script), c.Ctx, i, r))
			return
		}
		// (3) marker attached upstream by a context operator
		needM := c.Pre == "ContextWithValue"
		if c.Pre == "ContextMap" {
			// ContextMap only rewrites the context of values: expect the marker on
			// outputs that verifiably derive from one source item
			needM = false
			if prov := c09Prov[last.Op]; prov != nil && len(c.Links) == 1 && r.K == 'N' {
				_, needM = prov(r.V)
			}
		}
		if needM && !own && r.Ctx.Value(c09M) == nil && !(argCtx && r.Ctx.Value(cat.MidMarker("DefaultIfEmpty.arg")) != nil) {
			fail(last.Op, "upstream-marker-lost-on-"+kind, fmt.Sprintf("%s below %s over [%s]: callback #%d %s: the value attached upstream is not visible", name, c.Pre, rt.ScriptString(c.Script), i, r))
			return
		}
	}
	// (4) operator callbacks (context-aware variants) see non-nil contexts with the markers
	for _, cs := range env.Ctxs {
		if cs.Ctx == nil {
			fail(last.Op, "nil-context-in-operator-callback", fmt.Sprintf("%s: callback %s received a nil context", name, cs.Pos))
			return
		}
		if !c.NoCtxSource && cs.Ctx.Value(rt.SubKey) != id && cs.Ctx.Value(cat.MidMarker("DefaultIfEmpty.arg")) == nil {
			fail(last.Op, "subscription-marker-lost-in-operator-callback", fmt.Sprintf("%s: callback %s does not see the subscription value", name, cs.Pos))
			return
		}
	}
	// (5) per-item provenance for value-preserving single rows
	if len(c.Links) == 1 {
		if prov := c09Prov[last.Op]; prov != nil && !c.NoCtxSource {
			for i, r := range recs {
				if r.K != 'N' {
					continue
				}
				want, ok := prov(r.V)
				if !ok {
					continue
				}
				got, has := r.Ctx.Value(rt.ItemKey).(int)
				if !has || got != want {
					fail(last.Op, "item-context-of-another-item", fmt.Sprintf("%s%v over [%s]: output #%d (value %v) derives from source item %d but carries the context of item %v", last.Op, last.P, rt.ScriptString(c.Script), i, r.V, want, r.Ctx.Value(rt.ItemKey)))
					return
				}
			}
		}
		// (6) marker returned by a context-aware callback of this row is visible below it
		if (last.Variant == "WithContext" || last.Variant == "IWithContext") && len(lastRow.Pos) == 1 {
			mk := cat.MidMarker(lastRow.Pos[0])
			switch last.Op {
			case "Map", "MapErr", "Scan", "Filter", "TakeWhile", "First", "Last", "DistinctBy", "Reduce":
				for i, r := range recs {
					if r.K == 'N' && r.Ctx.Value(mk) == nil && scriptValues(c.Script) > 0 {
						fail(last.Op, "callback-returned-context-lost", fmt.Sprintf("%s%s over [%s]: output #%d does not carry the context returned by the callback", last.Op, last.Variant, rt.ScriptString(c.Script), i))
						return
					}
				}
			}
		}
	}
}

func seqScript(n int, end byte) []rt.Ev {
	s := make([]rt.Ev, 0, n+1)
	for i := 1; i <= n; i++ {
		s = append(s, rt.N(i))
	}
	switch end {
	case 'C':
		s = append(s, rt.C())
	case 'E':
		s = append(s, rt.E(1))
	}
	return s
}

func TestC09_Enumerated(t *testing.T) {
	maxN := 5
	if rt.Thorough() {
		maxN = 7
	}
	kinds := []string{"value", "cancel", "deadline", "custom"}
	idx := 0
	for _, row := range cat.Rows {
		for _, p := range row.Params {
			for _, v := range row.Variants {
				for n := 0; n <= maxN; n++ {
					for _, end := range []byte{'C', 'E', 0} {
						if row.Waits && end == 0 {
							continue
						}
						if row.Diverges != nil && row.Diverges(p, n, end) {
							continue
						}
						idx++
						if !rt.Mine(idx) {
							continue
						}
						for _, pre := range []string{"", "ContextWithValue", "ContextMap", "ContextWithValue/contextless-source"} {
							c := c09Case{Links: []cat.Link{{Op: row.Name, Variant: v, P: p}}, Script: seqScript(n, end), Pre: pre, Ctx: kinds[idx%len(kinds)]}
							if pre == "ContextWithValue/contextless-source" {
								c.Pre, c.NoCtxSource = "ContextWithValue", true
							}
							c09Run(t, c)
							nt := end != 0 || row.CtxRule == "some" || row.Name == "SkipLast" || row.Name == "TakeLast"
							rt.Case(caseKey("ctx", row.Name, v, p, n, end, pre), nt, "row:"+row.Name, func() any { return c })
						}
					}
				}
			}
		}
	}
	rt.Note("enumerated_scope", fmt.Sprintf("every catalogue row x params x variant x scripts 1..n (n <= %d) x endings x upstream marker {none, ContextWithValue, ContextMap} x 4 context kinds (rotating)", maxN))
}

func TestC09_ChainsRandom(t *testing.T) { rapid.Check(t, propC09ChainsRandom) }

func propC09ChainsRandom(t *rapid.T) {
	n := rapid.IntRange(2, 4).Draw(t, "chainLen")
	links := make([]cat.Link, n)
	for i := range links {
		links[i] = genLink(t, true)
	}
	if chainDiverges(links) {
		return
	}
	c := c09Case{Links: links, Script: seqScript(rapid.IntRange(0, 6).Draw(t, "n"), rapid.SampledFrom([]byte{'C', 'E'}).Draw(t, "end")),
		Pre: rapid.SampledFrom([]string{"", "ContextWithValue"}).Draw(t, "pre"), Ctx: rapid.SampledFrom([]string{"value", "cancel", "deadline", "custom"}).Draw(t, "ctx")}
	c09Run(t, c)
	rt.Case(caseKey("ctxchain", fmt.Sprint(links), c.Script, c.Pre, c.Ctx), true, "chain", func() any { return c })
}
