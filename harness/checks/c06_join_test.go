package checks

import (
	"encoding/json"
	"fmt"
	"sync"
	"sync/atomic"
	"testing"
	"time"

	"github.com/samber/ro"
	"verifharness/rt"
)

// C06: Wait returns once a stream has terminated, also when the source's teardown
// JOINS its other producer goroutines (stop flag + WaitGroup - an ordinary way to
// write a teardown). Several goroutines emit through a safe subscriber; one of
// them delivers the terminal notification, which triggers the teardown on that
// goroutine. If finalizers ran while the subscriber's producer lock is held, the
// others would be parked in Next on that lock and the join would never end.

type c06Join struct {
	Ctor      string `json:"ctor"`
	Producers int    `json:"producers"`
	Values    int    `json:"values_before_terminal"`
	End       byte   `json:"end"`
	Reps      int    `json:"reps"`
}

func init() {
	replayers["teardown-joins-producers"] = func(t *testing.T, raw json.RawMessage) {
		var c c06Join
		if err := json.Unmarshal(raw, &c); err != nil {
			t.Fatal(err)
		}
		c06JoinRun(t, c)
	}
}

func c06JoinRun(t rt.TB, c c06Join) {
	for rep := 0; rep < c.Reps; rep++ {
		var stop int32
		var wg sync.WaitGroup
		body := func(d ro.Observer[int]) ro.Teardown {
			for p := 1; p < c.Producers; p++ {
				wg.Add(1)
				go func(p int) {
					defer wg.Done()
					for atomic.LoadInt32(&stop) == 0 {
						d.Next(p)
					}
				}(p)
			}
			go func() {
				for i := 0; i < c.Values; i++ {
					d.Next(0)
				}
				if c.End == 'C' {
					d.Complete()
				} else {
					d.Error(rt.Err(1))
				}
			}()
			return func() {
				atomic.StoreInt32(&stop, 1)
				wg.Wait() // join the other producers
			}
		}
		var obs ro.Observable[int]
		switch c.Ctor {
		case "NewObservable":
			obs = ro.NewObservable(body)
		case "NewSafeObservable":
			obs = ro.NewSafeObservable(body)
		case "NewObservable>Map":
			obs = ro.Map(func(x int) int { return x })(ro.NewObservable(body))
		case "NewObservable>Serialize":
			obs = ro.Serialize[int]()(ro.NewObservable(body))
		}
		n := 0
		done := make(chan struct{})
		go func() {
			defer close(done)
			sub := obs.Subscribe(ro.NewObserver(func(int) { n++ }, func(error) {}, func() {}))
			sub.Wait()
		}()
		select {
		case <-done:
		case <-time.After(5 * time.Second):
			atomic.StoreInt32(&stop, 1)
			rt.Report(t, rt.Failure{Property: "C06", Check: "teardown-joins-producers", Op: c.Ctor, Class: "wait-never-returns-after-termination", Msg: fmt.Sprintf("%s, %d producer goroutines, the stream ended with %q after %d values (repetition %d): the terminal callback has returned, Wait is still blocked after 5s - the teardown, which joins the other producers, cannot finish", c.Ctor, c.Producers, c.End, c.Values, rep), Case: c})
			return
		}
	}
}

func TestC06_TeardownJoinsProducers(t *testing.T) {
	reps := 800
	if rt.Thorough() {
		reps = 20000
	}
	reps = reps/rt.ShardCount() + 1
	idx := 0
	for _, ctor := range []string{"NewObservable", "NewSafeObservable", "NewObservable>Map", "NewObservable>Serialize"} {
		for _, k := range []int{2, 4} {
			for _, end := range []byte{'C', 'E'} {
				for _, v := range []int{0, 3} {
					idx++
					c := c06Join{Ctor: ctor, Producers: k, Values: v, End: end, Reps: reps}
					c06JoinRun(t, c)
					rt.Case(caseKey("join", ctor, k, end, v), true, "join:"+ctor, func() any { return c })
				}
			}
		}
	}
}
