package checks

import (
	"encoding/json"
	"fmt"
	"reflect"
	"strings"
	"testing"
	"time"

	"github.com/samber/ro"
	"verifharness/cat"
	"verifharness/rt"
)

// C04/C07 with an unusual but legal input: a stream that ends with an error
// notification whose error VALUE is nil (the library accepts Error(nil): the
// subscriber ends errored; Notification prints it as Error(nil)). Metamorphic
// oracle: an operator treats the ending "error" the same way whatever the error
// value is - the output over [v1..vn, Error(nil)] has the same values and the same
// KIND of ending as over [v1..vn, Error(e)].

type c04NilErr struct {
	Op      string `json:"op"`
	Variant string `json:"variant"`
	P       []int  `json:"params"`
	N       int    `json:"values"`
}

func init() {
	replayers["nil-error-ending"] = func(t *testing.T, raw json.RawMessage) {
		var c c04NilErr
		if err := json.Unmarshal(raw, &c); err != nil {
			t.Fatal(err)
		}
		c04NilErrRun(t, c)
	}
}

func c04NilErrRun(t rt.TB, c c04NilErr) {
	row := cat.ByName(c.Op)
	run := func(nilErr bool) (vals []any, end byte, errIsNil bool, pan any, returned bool) {
		rt.NewSink()
		src := ro.NewUnsafeObservableWithContext(func(ctx ctxT, d ro.Observer[int]) ro.Teardown {
			for i := 1; i <= c.N; i++ {
				d.NextWithContext(ctx, i)
			}
			if nilErr {
				d.ErrorWithContext(ctx, nil)
			} else {
				d.ErrorWithContext(ctx, rt.Err(1))
			}
			return nil
		})
		rec := rt.NewRecorder[any]()
		done := make(chan struct{})
		go func() {
			defer close(done)
			defer func() { pan = recover() }()
			row.Build(c.Variant, c.P, cat.NewEnv())(src).Subscribe(rec)
		}()
		select {
		case <-done:
			returned = true
		case <-time.After(3 * time.Second):
		}
		tr := rec.Trace()
		for _, v := range tr.Vals {
			vals = append(vals, cat.Norm(v))
		}
		return vals, tr.End, tr.Err == nil, pan, returned
	}
	v1, e1, _, p1, r1 := run(false)
	v2, e2, _, p2, r2 := run(true)
	desc := fmt.Sprintf("%s%s%v over %d values then an error", c.Op, c.Variant, c.P, c.N)
	fail := func(class, msg string) {
		rt.Report(t, rt.Failure{Property: "C04", Check: "nil-error-ending", Op: c.Op, Class: class, Msg: msg, Case: c})
	}
	if p1 != nil || !r1 {
		return // the reference run itself does not return (re-subscribing for ever on an error): not judged here
	}
	if p2 != nil {
		fail("panic-escaped", fmt.Sprintf("%s whose value is nil: %v", desc, p2))
		return
	}
	if !r2 {
		fail("subscribe-never-returns", fmt.Sprintf("%s: with a non-nil error Subscribe returns (%v ending %q), with Error(nil) it is still running after 3s", desc, v1, e1))
		return
	}
	if strings.Contains(c.Op, "Materialize") && len(v1) == len(v2) {
		v2 = v1 // the materialised error notification carries the error value itself: only the shape is compared
	}
	if !(len(v1) == 0 && len(v2) == 0) && !reflect.DeepEqual(v1, v2) || e1 != e2 {
		fail("error-with-nil-value-treated-differently", fmt.Sprintf("%s: with Error(e) the output is %v ending %q, with Error(nil) it is %v ending %q", desc, v1, e1, v2, e2))
	}
}

func TestC04_NilErrorEnding(t *testing.T) {
	idx := 0
	for _, row := range cat.Rows {
		if row.Waits && row.Diverges != nil {
			// rows that may re-subscribe for ever on errors are covered through the reference run's own return
		}
		for _, p := range row.Params {
			for _, v := range row.Variants {
				for _, n := range []int{0, 2} {
					idx++
					if !rt.Mine(idx) {
						continue
					}
					if row.Diverges != nil && row.Diverges(p, n, 'E') {
						continue
					}
					c := c04NilErr{Op: row.Name, Variant: v, P: p, N: n}
					c04NilErrRun(t, c)
					rt.Case(caseKey("nilerr", row.Name, v, p, n), true, "nil-error:"+row.Name, func() any { return c })
				}
			}
		}
	}
}
