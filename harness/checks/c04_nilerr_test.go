package checks

import (
	"encoding/json"
	"fmt"
	"reflect"
	"strings"
	"testing"
	"time"

	"github.com/samber/ro"
	"verifharness/cat"
	"verifharness/rt"
)

// C04/C07 with an unusual but legal input: a stream that ends with an error
// notification whose error VALUE is nil (the library accepts Error(nil): the
// subscriber ends errored; Notification prints it as Error(nil)). Metamorphic
// oracle: an operator treats the ending "error" the same way whatever the error
// value is - the output over [v1..vn, Error(nil)] has the same values and the same
// KIND of ending as over [v1..vn, Error(e)].

type c04NilErr struct {
	Op      string `json:"op"`
	Variant string `json:"variant"`
	P       []int  `json:"params"`
	N       int    `json:"values"`
}

func init() {
	replayers["nil-error-ending"] = func(t *testing.T, raw json.RawMessage) {
		var c c04NilErr
		if err := json.Unmarshal(raw, &c); err != nil {
			t.Fatal(err)
		}
		c04NilErrRun(t, c)
	}
}

func c04NilErrRun(t rt.TB, c c04NilErr) {
	row := cat.ByName(c.Op)
	run := func(nilErr bool) (vals []any, end byte, errIsNil bool, pan any, returned bool) {
		rt.NewSink()
		src := ro.NewUnsafeObservableWithContext(func(ctx ctxT, d ro.Observer[int]) ro.Teardown {
			for i := 1; i <= c.N; i++ {
				d.NextWithContext(ctx, i)
			}
			if nilErr {
				d.ErrorWithContext(ctx, nil)
			} else {
				d.ErrorWithContext(ctx, rt.Err(1))
			}
			return nil
		})
		rec := rt.NewRecorder[any]()
		done := make(chan struct{})
		go func() {
			defer close(done)
			defer func() { pan = recover() }()
			row.Build(c.Variant, c.P, cat.NewEnv())(src).Subscribe(rec)
		}()
		select {
		case <-done:
			returned = true
		case <-time.After(3 * time.Second):
		}
		tr := rec.Trace()
		for _, v := range tr.Vals {
			vals = append(vals, cat.Norm(v))
		}
		return vals, tr.End, tr.Err == nil, pan, returned
	}
	v1, e1, _, p1, r1 := run(false)
	v2, e2, _, p2, r2 := run(true)
	desc := fmt.Sprintf("%s%s%v over %d values then an error", c.Op, c.Variant, c.P, c.N)
	fail := func(class, msg string) {
		rt.Report(t, rt.Failure{Property: "C04", Check: "nil-error-ending", Op: c.Op, Class: class, Msg: msg, Case: c})
	}
	if p1 != nil || !r1 {
		return // the reference run itself does not return (re-subscribing for ever on an error): not judged here
	}
	if p2 != nil {
		fail("panic-escaped", fmt.Sprintf("%s whose value is nil: %v", desc, p2))
		return
	}
	if !r2 {
		fail("subscribe-never-returns", fmt.Sprintf("%s: with a non-nil error Subscribe returns (%v ending %q), with Error(nil) it is still running after 3s", desc, v1, e1))
		return
	}
	if strings.Contains(c.Op, "Materialize") && len(v1) == len(v2) {
		v2 = v1 // the materialised error notification carries the error value itself: only the shape is compared
	}
	if !(len(v1) == 0 && len(v2) == 0) && !reflect.DeepEqual(v1, v2) || e1 != e2 {
		fail("error-with-nil-value-treated-differently", fmt.Sprintf("%s: with Error(e) the output is %v ending %q, with Error(nil) it is %v ending %q", desc, v1, e1, v2, e2))
	}
}

func TestC04_NilErrorEnding(t *testing.T) {
	idx := 0
	for _, row := range cat.Rows {
		if row.Waits && row.Diverges != nil {
			// rows that may re-subscribe for ever on errors are covered through the reference run's own return
		}
		for _, p := range row.Params {
			for _, v := range row.Variants {
				for _, n := range []int{0, 2} {
					idx++
					if !rt.Mine(idx) {
						continue
					}
					if row.Diverges != nil && row.Diverges(p, n, 'E') {
						continue
					}
					c := c04NilErr{Op: row.Name, Variant: v, P: p, N: n}
					c04NilErrRun(t, c)
					rt.Case(caseKey("nilerr", row.Name, v, p, n), true, "nil-error:"+row.Name, func() any { return c })
				}
			}
		}
	}
}

// The same for the multi-source operators: one source ends with an error while the
// others are still open (hot sources, one notification at a time).
func TestC05_NilErrorEnding(t *testing.T) {
	idx := 0
	for ri := range mrows {
		row := &mrows[ri]
		if row.Family == "concat" {
			continue // Subscribe waits for the first source: covered by C15's attempt sequences
		}
		k := 2
		ok := false
		for _, kk := range row.K {
			if kk == 2 {
				ok = true
			}
		}
		if !ok {
			k = row.K[len(row.K)-1]
		}
		for failing := 0; failing < k; failing++ {
			for _, before := range []int{0, 1} {
				idx++
				run := func(v int) (vals []any, end byte, pan any) {
					rt.NewSink()
					srcs := make([]*rt.ManualSrc, k)
					obss := make([]ro.Observable[int], k)
					for i := range srcs {
						srcs[i] = rt.NewManual(fmt.Sprintf("S%d", i), rt.CtorUnsafeCtx)
						obss[i] = srcs[i].Observable()
					}
					rec := rt.NewRecorder[any]()
					func() {
						defer func() { pan = recover() }()
						sub := row.Build(obss).Subscribe(rec)
						for i := range srcs {
							for j := 0; j < before; j++ {
								srcs[i].Emit(rt.N(10*i + j + 1))
							}
						}
						srcs[failing].Emit(rt.Ev{K: 'E', V: v})
						sub.Unsubscribe()
					}()
					tr := rec.Trace()
					for _, x := range tr.Vals {
						vals = append(vals, cat.Norm(x))
					}
					return vals, tr.End, pan
				}
				v1, e1, p1 := run(1)
				v2, e2, p2 := run(rt.NilErrV)
				c := map[string]any{"op": row.Name, "k": k, "failing_source": failing, "values_before": before}
				if p2 != nil && p1 == nil {
					rt.Report(t, rt.Failure{Property: "C05", Check: "nil-error-ending", Op: row.Name, Class: "panic-escaped", Msg: fmt.Sprintf("%s, source %d ends with Error(nil): %v", row.Name, failing, p2), Case: c})
				} else if !(len(v1) == 0 && len(v2) == 0) && !reflect.DeepEqual(v1, v2) || e1 != e2 {
					rt.Report(t, rt.Failure{Property: "C05", Check: "nil-error-ending", Op: row.Name, Class: "error-with-nil-value-treated-differently", Msg: fmt.Sprintf("%s(k=%d), source %d fails after %d value(s) per source: with Error(e) the output is %v ending %q, with Error(nil) it is %v ending %q", row.Name, k, failing, before, v1, e1, v2, e2), Case: c})
				}
				rt.Case(caseKey("nilerr-multi", row.Name, k, failing, before), true, "nil-error:"+row.Family, func() any { return c })
			}
		}
	}
}

// ... and for the re-subscribing / fallback operators of C15, where "did the
// attempt fail?" decides what happens next.
func TestC15_NilErrorEnding(t *testing.T) {
	failing := func(n int, nilErr bool, subs *int) ro.Observable[int] {
		return ro.NewUnsafeObservable(func(d ro.Observer[int]) ro.Teardown {
			*subs++
			for i := 1; i <= n; i++ {
				d.Next(i)
			}
			if nilErr {
				d.Error(nil)
			} else {
				d.Error(rt.Err(1))
			}
			return nil
		})
	}
	ops := map[string]func(src ro.Observable[int]) ro.Observable[int]{
		"Retry(2)": func(s ro.Observable[int]) ro.Observable[int] {
			return ro.RetryWithConfig[int](ro.RetryConfig{MaxRetries: 2})(s)
		},
		"Retry(2,ResetOnSuccess)": func(s ro.Observable[int]) ro.Observable[int] {
			return ro.RetryWithConfig[int](ro.RetryConfig{MaxRetries: 2, ResetOnSuccess: false})(s)
		},
		"RepeatWith(2)": func(s ro.Observable[int]) ro.Observable[int] { return ro.RepeatWith[int](2)(s) },
		"DoWhile(true,true,false)": func(s ro.Observable[int]) ro.Observable[int] {
			n := 0
			return ro.DoWhile[int](func() bool { n++; return n < 3 })(s)
		},
		"While(true,true,false)": func(s ro.Observable[int]) ro.Observable[int] {
			n := 0
			return ro.While[int](func() bool { n++; return n < 3 })(s)
		},
		"Catch(Just 7)": func(s ro.Observable[int]) ro.Observable[int] {
			return ro.Catch(func(error) ro.Observable[int] { return ro.Just(7) })(s)
		},
		"OnErrorResumeNextWith(Just 7)":  func(s ro.Observable[int]) ro.Observable[int] { return ro.OnErrorResumeNextWith(ro.Just(7))(s) },
		"OnErrorResumeNextWith(failing)": func(s ro.Observable[int]) ro.Observable[int] { return ro.OnErrorResumeNextWith(s)(ro.Just(5)) },
		"OnErrorReturn(9)":               func(s ro.Observable[int]) ro.Observable[int] { return ro.OnErrorReturn(9)(s) },
		"Concat(failing, Just 7)":        func(s ro.Observable[int]) ro.Observable[int] { return ro.Concat(s, ro.Just(7)) },
		"ConcatWith":                     func(s ro.Observable[int]) ro.Observable[int] { return ro.ConcatWith(ro.Just(7))(s) },
		"FlatMap(failing inner)": func(s ro.Observable[int]) ro.Observable[int] {
			return ro.FlatMap(func(int) ro.Observable[int] { return s })(ro.Just(1, 2))
		},
		"MergeMap(failing inner)": func(s ro.Observable[int]) ro.Observable[int] {
			return ro.MergeMap(func(int) ro.Observable[int] { return s })(ro.Just(1, 2))
		},
		"TakeUntil(failing)": func(s ro.Observable[int]) ro.Observable[int] { return ro.TakeUntil[int, struct{}](ro.Never())(s) },
		"Timeout":            func(s ro.Observable[int]) ro.Observable[int] { return ro.Timeout[int](time.Hour)(s) },
		"Delay":              func(s ro.Observable[int]) ro.Observable[int] { return ro.Delay[int](time.Millisecond)(s) },
		"ObserveOn":          func(s ro.Observable[int]) ro.Observable[int] { return ro.ObserveOn[int](2)(s) },
		"Materialize|Dematerialize": func(s ro.Observable[int]) ro.Observable[int] {
			return ro.Dematerialize[int]()(ro.Materialize[int]()(s))
		},
		"Share":          func(s ro.Observable[int]) ro.Observable[int] { return ro.Share[int]()(s) },
		"ShareReplay(1)": func(s ro.Observable[int]) ro.Observable[int] { return ro.ShareReplay[int](1)(s) },
	}
	for name, build := range ops {
		for _, n := range []int{0, 2} {
			run := func(nilErr bool) (vals []any, end byte, subs int, pan any, returned bool) {
				rt.NewSink()
				rec := rt.NewRecorder[int]()
				done := make(chan struct{})
				go func() {
					defer close(done)
					defer func() { pan = recover() }()
					sub := build(failing(n, nilErr, &subs)).Subscribe(rec)
					sub.Wait()
				}()
				select {
				case <-done:
					returned = true
				case <-time.After(3 * time.Second):
				}
				tr := rec.Trace()
				return tr.Vals, tr.End, subs, pan, returned
			}
			v1, e1, s1, p1, r1 := run(false)
			if p1 != nil || !r1 {
				continue
			}
			v2, e2, s2, p2, r2 := run(true)
			c := map[string]any{"op": name, "values_per_attempt": n}
			desc := fmt.Sprintf("%s over a source delivering %d value(s) and then failing", name, n)
			switch {
			case p2 != nil:
				rt.Report(t, rt.Failure{Property: "C15", Check: "nil-error-ending", Op: name, Class: "panic-escaped", Msg: fmt.Sprintf("%s with Error(nil): %v", desc, p2), Case: c})
			case !r2:
				rt.Report(t, rt.Failure{Property: "C15", Check: "nil-error-ending", Op: name, Class: "stream-never-terminates", Msg: fmt.Sprintf("%s: with Error(e) the stream ends (%v, %q) and Wait returns; with Error(nil) Wait is still blocked after 3s (output so far %v, ending %q)", desc, v1, e1, v2, e2), Case: c})
			case !(len(v1) == 0 && len(v2) == 0) && !reflect.DeepEqual(v1, v2) || e1 != e2 || s1 != s2:
				rt.Report(t, rt.Failure{Property: "C15", Check: "nil-error-ending", Op: name, Class: "error-with-nil-value-treated-differently", Msg: fmt.Sprintf("%s: with Error(e): output %v ending %q after %d subscriptions of the source; with Error(nil): %v ending %q after %d", desc, v1, e1, s1, v2, e2, s2), Case: c})
			}
			rt.Case(caseKey("nilerr-c15", name, n), true, "nil-error", func() any { return c })
		}
	}
}

// Subjects (C10): a subject terminated with Error(nil) behaves, for its current and
// its late subscribers, like one terminated with Error(e).
func TestC10_NilErrorEnding(t *testing.T) {
	for _, k := range subjectKinds {
		run := func(nilErr bool) (logs [][]string, flags string) {
			rt.NewSink()
			s := k.New()
			early := rt.NewRecorder[int]()
			s.Subscribe(early)
			s.Next(1)
			s.Next(2)
			if nilErr {
				s.Error(nil)
			} else {
				s.Error(rt.Err(1))
			}
			s.Next(3)
			late := rt.NewRecorder[int]()
			s.Subscribe(late)
			for _, r := range []*rt.Recorder[int]{early, late} {
				var l []string
				for _, x := range r.Recs() {
					switch x.K {
					case 'N':
						l = append(l, fmt.Sprintf("N%v", x.V))
					default:
						l = append(l, string(x.K))
					}
				}
				logs = append(logs, l)
			}
			return logs, fmt.Sprintf("closed=%v thrown=%v completed=%v observers=%d", s.IsClosed(), s.HasThrown(), s.IsCompleted(), s.CountObservers())
		}
		l1, f1 := run(false)
		l2, f2 := run(true)
		c := map[string]any{"subject": k.String()}
		if !reflect.DeepEqual(l1, l2) || f1 != f2 {
			rt.Report(t, rt.Failure{Property: "C10", Check: "nil-error-ending", Op: k.String(), Class: "error-with-nil-value-treated-differently", Msg: fmt.Sprintf("%s [S N1 N2 Error N3 S]: with Error(e) the early / late subscribers see %v (%s); with Error(nil) %v (%s)", k, l1, f1, l2, f2), Case: c})
		}
		rt.Case(caseKey("nilerr-subject", k), true, "nil-error:subject", func() any { return c })
	}
}
