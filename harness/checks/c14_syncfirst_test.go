package checks

import (
	"context"
	"encoding/json"
	"fmt"
	"sync/atomic"
	"testing"
	"time"

	"github.com/samber/ro"
	"verifharness/cat"
	"verifharness/rt"
)

// C14, metamorphic: whether the first value of a never-ending source arrives from
// INSIDE its subscription (a behaviour-subject-like source) or right AFTER the
// subscription returned makes no difference to what happens when the downstream side
// then ends (a Take(1) below is satisfied, or the subscriber unsubscribes): if the
// source is released in the second case it is released in the first. (The Race defect
// repaired by b5f8eb0 was of this kind: the bookkeeping of a subscription that had
// already delivered something when SubscribeWithContext returned.) Rows that wait
// inside their subscribe function are the listed finding
// C14-blocking-subscribe-ignores-downstream-termination and are excluded by
// construction; rows that keep their source by design (ShareReplay) keep it in both
// cases and are not judged.

type c14Sync struct {
	Op      string `json:"op"`
	Variant string `json:"variant"`
	P       []int  `json:"params"`
	Cut     string `json:"cut"` // "Take(1) below" | "Unsubscribe"
}

func init() {
	replayers["first-value-during-subscription"] = func(t *testing.T, raw json.RawMessage) {
		var c c14Sync
		if err := json.Unmarshal(raw, &c); err != nil {
			t.Fatal(err)
		}
		c14SyncRun(t, c)
	}
}

func c14SyncRun(t rt.TB, c c14Sync) {
	row := cat.ByName(c.Op)
	type outcome struct {
		returned bool
		live     int32
		ended    bool
		pan      any
	}
	run := func(during bool) (o outcome) {
		rt.NewSink()
		var live int32
		var dst atomic.Value
		src := ro.NewUnsafeObservableWithContext(func(ctx context.Context, d ro.Observer[int]) ro.Teardown {
			atomic.AddInt32(&live, 1)
			if during {
				d.NextWithContext(ctx, 1)
			} else {
				dst.Store(d)
			}
			return func() { atomic.AddInt32(&live, -1) }
		})
		rec := rt.NewRecorder[any]()
		done := make(chan struct{})
		go func() {
			defer close(done)
			defer func() { o.pan = recover() }()
			pipe := row.Build(c.Variant, c.P, cat.NewEnv())(src)
			if c.Cut == "Take(1) below" {
				pipe = ro.Take[any](1)(pipe)
			}
			sub := pipe.Subscribe(rec)
			if !during {
				if d, ok := dst.Load().(ro.Observer[int]); ok {
					d.Next(1)
				}
			}
			if c.Cut == "Unsubscribe" {
				sub.Unsubscribe()
			}
		}()
		select {
		case <-done:
			o.returned = true
		case <-time.After(3 * time.Second):
			return o
		}
		// stages that hand over to another goroutine or a timer: give the ending a moment
		for i := 0; i < 100 && rec.Trace().End == 0 && c.Cut != "Unsubscribe"; i++ {
			time.Sleep(time.Millisecond)
		}
		// the reference case gets 50 ms to release the source (slower: not judged); the case
		// under judgement gets 3 s - machine load must not turn into a verdict
		patience := 50
		if during {
			patience = 3000
		}
		for i := 0; i < patience && atomic.LoadInt32(&live) != 0; i++ {
			time.Sleep(time.Millisecond)
		}
		o.ended = rec.Trace().End != 0 || c.Cut == "Unsubscribe"
		o.live = atomic.LoadInt32(&live)
		return o
	}
	after := run(false)
	if after.pan != nil || !after.returned || !after.ended || after.live != 0 {
		return // the reference case does not release the source either (kept by design, or never subscribed): not judged
	}
	during := run(true)
	desc := fmt.Sprintf("%s%s%v over a never-ending source, then %s", c.Op, c.Variant, c.P, c.Cut)
	fail := func(class, msg string) {
		rt.Report(t, rt.Failure{Property: "C14", Check: "first-value-during-subscription", Op: c.Op, Class: class, Msg: msg, Case: c})
	}
	switch {
	case during.pan != nil:
		fail("panic-escaped", fmt.Sprintf("%s: %v", desc, during.pan))
	case !during.returned:
		fail("subscribe-still-running-after-downstream-terminated", fmt.Sprintf("%s: with the first value delivered right after the subscription everything returns and the source is released; delivered from inside the subscription, the call has not returned after 3s", desc))
	case during.ended && during.live != 0:
		fail("source-still-subscribed-after-downstream-terminated", fmt.Sprintf("%s: with the first value delivered right after the subscription the source is released; delivered from inside the subscription, %d subscription(s) of the source stay alive", desc, during.live))
	}
}

func TestC14_FirstValueDuringSubscription(t *testing.T) {
	idx := 0
	for _, row := range cat.Rows {
		for _, p := range row.Params {
			for _, v := range row.Variants {
				for _, cut := range []string{"Take(1) below", "Unsubscribe"} {
					idx++
					if !rt.Mine(idx) {
						continue
					}
					if row.Waits {
						rt.Excluded(1) // listed finding C14-blocking-subscribe-ignores-downstream-termination
						continue
					}
					c := c14Sync{Op: row.Name, Variant: v, P: p, Cut: cut}
					c14SyncRun(t, c)
					rt.Case(caseKey("c14sync", row.Name, v, p, cut), true, "first-value-during-subscription", func() any { return c })
				}
			}
		}
	}
}
