package checks

import (
	"context"
	"encoding/json"
	"errors"
	"fmt"
	"testing"
	"testing/synctest"
	"time"

	"github.com/samber/ro"
	"pgregory.net/rapid"
	"verifharness/rt"
)

// C15, Retry with a Delay between attempts (virtual time): attempts are spaced by
// the delay, never more of them than the budget allows, and a cancellation of the
// SUBSCRIPTION context during a wait ends the stream at once - whatever context
// the failed attempt's error notification happened to carry (sources written with
// the context-less API deliver context.Background()).

type c15Delay struct {
	DelayMs    int    `json:"delay_ms"`
	MaxRetries int    `json:"max_retries"`
	Fails      int    `json:"failing_attempts"` // the source fails this many times, then completes
	Ctor       string `json:"source_ctor"`
	CancelMs   int    `json:"cancel_at_ms"` // -1: never
}

func init() {
	replayers["retry-delay"] = func(t *testing.T, raw json.RawMessage) {
		var c c15Delay
		if err := json.Unmarshal(raw, &c); err != nil {
			t.Fatal(err)
		}
		c15DelayRun(t, t, c)
	}
}

func c15DelayRun(tb rt.TB, t *testing.T, c c15Delay) {
	var failure *rt.Failure
	fail := func(class, msg string) {
		if failure == nil {
			failure = &rt.Failure{Property: "C15", Check: "retry-delay", Op: "Retry", Class: class, Msg: msg, Case: c}
		}
	}
	problem := bubble(t, func() {
		rt.NewSink()
		start := time.Now()
		var subsAt []time.Duration
		scripts := make([][]rt.Ev, 0, c.Fails+1)
		for i := 0; i < c.Fails; i++ {
			scripts = append(scripts, []rt.Ev{rt.N(i + 1), rt.E(1)})
		}
		scripts = append(scripts, []rt.Ev{rt.N(100), rt.C()})
		src := rt.NewOutcomes("A", rt.Ctor(c.Ctor), scripts)
		src.OnSubscribe = func(int) { subsAt = append(subsAt, time.Since(start)) }
		obs := ro.RetryWithConfig[int](ro.RetryConfig{MaxRetries: uint64(c.MaxRetries), Delay: ms(c.DelayMs)})(src.Observable())
		ctx, cancel := context.WithCancel(context.Background())
		defer cancel()
		rec := rt.NewRecorder[int]()
		var endAt time.Duration = -1
		rec.Hook = func(k byte, _ context.Context, v any, err error) {
			if k != 'N' {
				endAt = time.Since(start)
			}
		}
		returned := make(chan struct{})
		var retAt time.Duration
		go func() {
			defer close(returned)
			defer func() { recover() }()
			obs.SubscribeWithContext(ctx, rec)
			retAt = time.Since(start)
		}()
		if c.CancelMs >= 0 {
			time.Sleep(ms(c.CancelMs) + 137*time.Microsecond) // never on the very instant a delay ends
			cancel()
		}
		synctest.Wait()
		time.Sleep(ms(c.DelayMs*(c.Fails+2) + 10))
		synctest.Wait()
		desc := fmt.Sprintf("Retry{MaxRetries %d, Delay %dms} over a source (%s) failing %d times, subscription context cancelled at %dms", c.MaxRetries, c.DelayMs, c.Ctor, c.Fails, c.CancelMs)
		select {
		case <-returned:
		default:
			fail("subscribe-never-returns", desc+": Subscribe is still blocked")
			cancel()
			return
		}
		tr := rec.Trace()
		// spacing: attempt i+1 starts exactly one delay after attempt i ended (attempts are synchronous)
		for i := 1; i < len(subsAt); i++ {
			if d := subsAt[i] - subsAt[i-1]; d != ms(c.DelayMs) {
				fail("retry-delay-not-respected", fmt.Sprintf("%s: attempt #%d started %v after attempt #%d, the configured delay is %dms", desc, i, d, i-1, c.DelayMs))
				return
			}
		}
		budget := c.Fails + 1
		if c.MaxRetries > 0 && c.MaxRetries+1 < budget {
			budget = c.MaxRetries + 1
		}
		if c.CancelMs >= 0 {
			cancelAt := ms(c.CancelMs) + 137*time.Microsecond
			wantAttempts := int(cancelAt/ms(c.DelayMs)) + 1
			if wantAttempts > budget {
				wantAttempts = budget
			}
			if len(subsAt) > wantAttempts {
				fail("attempt-after-context-cancellation", fmt.Sprintf("%s: %d attempts were made (at %v), at most %d start before the cancellation", desc, len(subsAt), subsAt, wantAttempts))
				return
			}
			if wantAttempts < budget { // the cancellation falls into a wait: it must end the stream at once
				if tr.End != 'E' || !errors.Is(tr.Err, context.Canceled) {
					fail("cancellation-not-reported", fmt.Sprintf("%s: expected Error(context canceled), got ending %q (%v)", desc, tr.End, tr.Err))
					return
				}
				if endAt != cancelAt || retAt != cancelAt {
					fail("cancellation-during-delay-not-immediate", fmt.Sprintf("%s: the stream ended at %v and Subscribe returned at %v; the context was cancelled at %v, in the middle of a wait", desc, endAt, retAt, cancelAt))
					return
				}
			}
			return
		}
		if len(subsAt) != budget {
			fail("attempt-count", fmt.Sprintf("%s: %d attempts, the definition says %d", desc, len(subsAt), budget))
		}
	})
	if problem != "" && failure == nil {
		fail("bubble-problem", problem)
	}
	if failure != nil {
		rt.Report(tb, *failure)
	}
}

func TestC15_RetryDelay(t *testing.T) {
	currentT = t
	rapid.Check(t, func(rt_ *rapid.T) {
		c := c15Delay{DelayMs: rapid.SampledFrom([]int{1, 10, 250}).Draw(rt_, "delay"), MaxRetries: rapid.IntRange(0, 4).Draw(rt_, "max"), Fails: rapid.IntRange(1, 4).Draw(rt_, "fails"),
			Ctor: string(rapid.SampledFrom([]rt.Ctor{rt.CtorUnsafeCtx, rt.CtorUnsafe, rt.CtorDefault, rt.CtorDefaultCtx}).Draw(rt_, "ctor")), CancelMs: -1}
		if rapid.Bool().Draw(rt_, "cancel") {
			c.CancelMs = rapid.IntRange(0, c.DelayMs*(c.Fails+1)).Draw(rt_, "cancelAt")
		}
		c15DelayRun(rt_, t, c)
		rt.Case(caseKey("retrydelay", c.DelayMs, c.MaxRetries, c.Fails, c.Ctor, c.CancelMs), c.Fails >= 2 || c.CancelMs >= 0, "retry-delay", func() any { return c })
	})
}
