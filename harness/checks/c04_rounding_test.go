package checks

import (
	"encoding/json"
	"fmt"
	"math"
	"math/big"
	"testing"

	"github.com/samber/ro"
	"pgregory.net/rapid"
	"verifharness/rt"
)

// C04, the float operators of the math group. Round / Abs / Floor / Ceil / Trunc
// are lifts of the math package (differential, bit for bit incl. NaN, Inf, -0).
// FloorWithPrecision / CeilWithPrecision(places) are judged by a validity
// predicate in exact arithmetic (big.Float, 2000 bits), with q = 10^-places:
//   floor: r <= x,  x - r < q,  r is a multiple of q      (ceil: mirrored)
// each within the rounding a float64 result cannot avoid (one ulp of x or r), and
// with +-Inf accepted where the ideal result is beyond the float64 range. NaN and
// +-Inf pass through. Order, count and the ending are those of the source.

type c04Round struct {
	Op     string    `json:"op"`
	Places int       `json:"places"`
	Vals   []float64 `json:"values"`
	End    string    `json:"end"`
}

func init() {
	replayers["math-rounding"] = func(t *testing.T, raw json.RawMessage) {
		var c c04Round
		if err := json.Unmarshal(raw, &c); err != nil {
			t.Fatal(err)
		}
		c04RoundRun(t, c)
	}
}

func abs(n int) int {
	if n < 0 {
		return -n
	}
	return n
}

func ulp(x float64) float64 {
	if x == 0 || math.IsInf(x, 0) || math.IsNaN(x) {
		return math.SmallestNonzeroFloat64
	}
	return math.Abs(x - math.Nextafter(x, 0)) // toward zero: defined for +-MaxFloat64 too
}

// precisionOK judges r as floor (dir=-1) or ceil (dir=+1) of x to `places` decimals.
// precisionOK: a float64 stands for a decimal the user wrote (0.1 is 0.1000000000000000055..
// in binary, and nobody expects its ceiling at one decimal to be 0.2): the result is
// accepted when it is right for x itself or for a neighbour within two ulps of x.
func precisionOK(dir int, x, r float64, places int) string {
	first := precisionOKExact(dir, x, r, places)
	if first == "" || math.IsNaN(x) || math.IsInf(x, 0) {
		return first
	}
	lo, hi := x, x
	for i := 0; i < 2; i++ {
		lo, hi = math.Nextafter(lo, math.Inf(-1)), math.Nextafter(hi, math.Inf(1))
		if precisionOKExact(dir, lo, r, places) == "" || precisionOKExact(dir, hi, r, places) == "" {
			return ""
		}
	}
	return first
}

func precisionOKExact(dir int, x, r float64, places int) string {
	switch {
	case math.IsNaN(x):
		if !math.IsNaN(r) {
			return "NaN must stay NaN"
		}
		return ""
	case math.IsInf(x, 0):
		if r != x {
			return "an infinity must pass through"
		}
		return ""
	case math.IsNaN(r):
		return "a finite value became NaN"
	}
	// exact rational arithmetic: q = 10^-places, x as the exact value of the float64
	q := new(big.Rat).SetInt(new(big.Int).Exp(big.NewInt(10), big.NewInt(int64(abs(places))), nil))
	if places > 0 {
		q.Inv(q)
	}
	bx := new(big.Rat)
	bx.SetFloat64(x)
	quo := new(big.Rat).Quo(bx, q)
	// ideal result: the multiple of q next to x in direction dir
	n := new(big.Int).Quo(quo.Num(), quo.Denom()) // truncated toward zero
	if !quo.IsInt() {
		if dir < 0 && quo.Sign() < 0 {
			n.Sub(n, big.NewInt(1))
		}
		if dir > 0 && quo.Sign() > 0 {
			n.Add(n, big.NewInt(1))
		}
	}
	ideal := new(big.Rat).Mul(new(big.Rat).SetInt(n), q)
	idealF, _ := ideal.Float64()
	show := new(big.Float).SetPrec(200).SetRat(ideal).Text('g', 20)
	if math.IsInf(idealF, 0) {
		if r == idealF || math.Abs(r) == math.MaxFloat64 {
			return ""
		}
		return fmt.Sprintf("the ideal result %s is beyond the float64 range: expected %v", show, idealF)
	}
	if math.IsInf(r, 0) {
		return fmt.Sprintf("infinite result, the ideal one is %s", show)
	}
	// r must be the ideal result up to the rounding of float64 (two ulps of either)
	br := new(big.Rat)
	br.SetFloat64(r)
	diff := new(big.Rat).Sub(br, ideal)
	tol := new(big.Rat)
	tol.SetFloat64(2 * math.Max(ulp(r), math.Max(ulp(idealF), ulp(x))))
	if diff.Abs(diff).Cmp(tol) > 0 {
		return fmt.Sprintf("the multiple of 1e%d next to it is %s", -places, show)
	}
	return ""
}

func sameFloat(a, b float64) bool {
	return math.Float64bits(a) == math.Float64bits(b) || (math.IsNaN(a) && math.IsNaN(b))
}

func c04RoundRun(t rt.TB, c c04Round) {
	fail := func(class, msg string) {
		rt.Report(t, rt.Failure{Property: "C04", Check: "math-rounding", Op: c.Op, Class: class, Msg: msg, Case: c})
	}
	var op func(ro.Observable[float64]) ro.Observable[float64]
	var pan any
	func() {
		defer func() { pan = recover() }()
		switch c.Op {
		case "Round":
			op = ro.Round()
		case "Abs":
			op = ro.Abs()
		case "Floor":
			op = ro.Floor()
		case "Ceil":
			op = ro.Ceil()
		case "Trunc":
			op = ro.Trunc()
		case "FloorWithPrecision":
			op = ro.FloorWithPrecision(c.Places)
		case "CeilWithPrecision":
			op = ro.CeilWithPrecision(c.Places)
		}
	}()
	if pan != nil {
		fail("panic-escaped", fmt.Sprintf("%s(%d): %v", c.Op, c.Places, pan))
		return
	}
	src := ro.FromSlice(c.Vals)
	if c.End == "E" {
		src = ro.Concat(ro.FromSlice(c.Vals), ro.Throw[float64](rt.Err(1)))
	}
	var got []float64
	var err error
	func() {
		defer func() { pan = recover() }()
		got, err = ro.Collect(op(src))
	}()
	desc := fmt.Sprintf("%s(places=%d) over %v", c.Op, c.Places, c.Vals)
	if pan != nil {
		fail("panic-escaped", fmt.Sprintf("%s: %v", desc, pan))
		return
	}
	if (c.End == "E") != (err != nil) || len(got) != len(c.Vals) {
		fail("wrong-shape", fmt.Sprintf("%s ending %q: delivered %v, error %v", desc, c.End, got, err))
		return
	}
	for i, x := range c.Vals {
		r := got[i]
		switch c.Op {
		case "Round", "Abs", "Floor", "Ceil", "Trunc":
			want := map[string]func(float64) float64{"Round": math.Round, "Abs": math.Abs, "Floor": math.Floor, "Ceil": math.Ceil, "Trunc": math.Trunc}[c.Op](x)
			if !sameFloat(r, want) {
				fail("differs-from-math-package", fmt.Sprintf("%s(%v) delivered %v, math.%s gives %v", c.Op, x, r, c.Op, want))
				return
			}
		case "FloorWithPrecision":
			if why := precisionOK(-1, x, r, c.Places); why != "" {
				fail("not-the-floor-at-that-precision", fmt.Sprintf("FloorWithPrecision(%d) of %v delivered %v: %s", c.Places, x, r, why))
				return
			}
		case "CeilWithPrecision":
			if why := precisionOK(+1, x, r, c.Places); why != "" {
				fail("not-the-ceiling-at-that-precision", fmt.Sprintf("CeilWithPrecision(%d) of %v delivered %v: %s", c.Places, x, r, why))
				return
			}
		}
	}
}

func TestC04_MathRounding(t *testing.T) { rapid.Check(t, propC04MathRounding) }

func propC04MathRounding(t *rapid.T) {
	op := rapid.SampledFrom([]string{"Round", "Abs", "Floor", "Ceil", "Trunc", "FloorWithPrecision", "FloorWithPrecision", "CeilWithPrecision", "CeilWithPrecision"}).Draw(t, "op")
	places := 0
	if op == "FloorWithPrecision" || op == "CeilWithPrecision" {
		places = rapid.OneOf(rapid.IntRange(-4, 6), rapid.IntRange(-25, 25), rapid.SampledFrom([]int{-330, -309, -308, -307, 307, 308, 309, 323, 324, 330, 400, -400, 1000, -1000})).Draw(t, "places")
	}
	val := rapid.OneOf(
		rapid.SampledFrom([]float64{0, math.Copysign(0, -1), 1, -1, 0.5, -0.5, 1.5, 2.5, -2.5, 0.1, 0.29, 0.57, 1.005, 4.35, 123.45, -123.45, 1e15, 1e16, -1e16, 9007199254740993, 1e300, -1e300, math.MaxFloat64, -math.MaxFloat64,
			math.SmallestNonzeroFloat64, -math.SmallestNonzeroFloat64, 1e-300, math.Inf(1), math.Inf(-1), math.NaN()}),
		rapid.Float64Range(-1000, 1000),
		rapid.Float64(),
		rapid.Custom(func(t *rapid.T) float64 {
			// decimal-looking values: k / 10^d
			return float64(rapid.IntRange(-100000, 100000).Draw(t, "k")) / math.Pow10(rapid.IntRange(0, 6).Draw(t, "d"))
		}),
	)
	c := c04Round{Op: op, Places: places, Vals: rapid.SliceOfN(val, 0, 5).Draw(t, "values"), End: rapid.SampledFrom([]string{"C", "C", "E"}).Draw(t, "end")}
	c04RoundRun(t, c)
	rt.Case(caseKey("rounding", op, places, fmt.Sprint(c.Vals), c.End), len(c.Vals) > 0, "rounding:"+op, func() any { return c })
}
