package checks

import (
	"encoding/json"
	"fmt"
	"testing"
	"verifharness/model"

	"verifharness/cat"
	"verifharness/rt"
)

// C04 — each operator computes its documented function of the input sequence.

type c04Case struct {
	Op      string  `json:"op"`
	Variant string  `json:"variant"`
	P       []int   `json:"params"`
	Script  []rt.Ev `json:"script"`
	Ctor    rt.Ctor `json:"ctor"`
}

func init() {
	replayers["model"] = func(t *testing.T, raw json.RawMessage) {
		var c c04Case
		if err := json.Unmarshal(raw, &c); err != nil {
			t.Fatal(err)
		}
		c04Run(t, c)
	}
}

// c04Run checks one (row, variant, params, script): model agreement, index
// sequence, no post-delivery mutation, no escaping panic.
func c04Run(t rt.TB, c c04Case) {
	// the single-row check judges Max by its documentation (see model.PinnedMaxEmptyZero)
	defer func(v bool) { model.PinnedMaxEmptyZero = v }(model.PinnedMaxEmptyZero)
	model.PinnedMaxEmptyZero = false
	row := cat.ByName(c.Op)
	want, blocked := modelRow(row, c.P, c.Script, nil)
	if blocked {
		return // the definition says Subscribe does not return for this input; not run
	}
	res := runRow(row, c.Variant, c.P, c.Script, c.Ctor, nil)
	fail := func(class, msg string) {
		rt.Report(t, rt.Failure{Property: "C04", Check: "model", Op: c.Op, Class: class, Msg: msg, Case: c})
	}
	if res.panic != nil {
		fail("panic-escaped", fmt.Sprintf("Subscribe panicked: %v", res.panic))
		return
	}
	got := cat.TraceOf(res.rec.Trace())
	if !cat.SameTrace(got, want) {
		fail(c04Class(c, got.String(), want.String()), fmt.Sprintf("%s%s%v over [%s]: got %s, model says %s", c.Op, c.Variant, c.P, rt.ScriptString(c.Script), got, want))
	}
	if g := res.rec.Grammar(); g != "" {
		fail("grammar", g)
	}
	if m := res.rec.Mutated(); m != "" {
		fail("mutated-after-delivery", m)
	}
	for pos, idx := range res.env.Idx {
		for i, x := range idx {
			if x != int64(i) {
				fail("index-sequence", fmt.Sprintf("%s saw indices %v", pos, idx))
				break
			}
		}
	}
}

// c04Class names the failure class from the shape of the disagreement.
func c04Class(c c04Case, got, want string) string {
	end := scriptEnd(c.Script)
	switch end {
	case 'E':
		return "trace-mismatch-on-error-ending"
	case 'C':
		if scriptValues(c.Script) == 0 {
			return "trace-mismatch-on-empty-source"
		}
		return "trace-mismatch-on-complete-ending"
	}
	return "trace-mismatch-on-open-ending"
}

func TestC04_ModelEnumerated(t *testing.T) {
	maxLen := 4
	if rt.Thorough() {
		maxLen = 5
	}
	scripts := legalScripts([]int{1, 2, 3}, maxLen, []byte{'C', 'E', 0})
	idx := 0
	for _, row := range cat.Rows {
		for _, p := range row.Params {
			for _, s := range scripts {
				if row.Waits && scriptEnd(s) == 0 {
					continue
				}
				if row.Diverges != nil && row.Diverges(p, scriptValues(s), scriptEnd(s)) {
					continue
				}
				idx++
				if !rt.Mine(idx) {
					continue
				}
				for _, v := range row.Variants {
					c := c04Case{Op: row.Name, Variant: v, P: p, Script: s, Ctor: rt.CtorUnsafeCtx}
					c04Run(t, c)
					nt := scriptValues(s) >= 1
					rt.Case(caseKey("model", row.Name, v, p, s), nt, "row:"+row.Name, func() any { return c })
				}
			}
		}
	}
	rt.Note("enumerated_scope", fmt.Sprintf("every catalogue row x boundary params x every value sequence of length <= %d over {1,2,3} x endings {complete,error,open} x every variant", maxLen))
}
