package checks

import (
	"encoding/json"
	"fmt"
	"strings"
	"testing"
	"testing/synctest"

	"github.com/samber/ro"
	"pgregory.net/rapid"
	"verifharness/cat"
	"verifharness/model"
	"verifharness/rt"
)

// C12 (and the release half of C03) for multi-source operators: TWO overlapping
// subscriptions to ONE observable value over hot, controllable sources. Each
// subscription must behave as a subscription of its own: its output is the
// definition's output for the notifications that arrived while it was
// subscribed, ending one subscription releases that subscription's hold on the
// sources and nothing of the other's.

type c12MultiCase struct {
	Op       string    `json:"op"`
	K        int       `json:"k"`
	Arrivals []arrival `json:"arrivals"`
	Sub2At   int       `json:"sub2_at"`   // the second subscription is made before arrival #Sub2At
	Unsub1At int       `json:"unsub1_at"` // the first one is unsubscribed before arrival #Unsub1At (>= Sub2At; len = never)
}

func init() {
	replayers["overlapping-subscriptions"] = func(t *testing.T, raw json.RawMessage) {
		var c c12MultiCase
		if err := json.Unmarshal(raw, &c); err != nil {
			t.Fatal(err)
		}
		c12MultiRun(t, t, c)
	}
}

var c12MultiRows = []string{"Merge", "MergeAll", "MergeWith", "MergeWithN", "CombineLatestN", "CombineLatestWithN", "CombineLatestAll", "Race", "Amb", "RaceWith", "ZipN", "ZipWithN", "Zip", "ZipAll",
	"TakeUntil", "SkipUntil", "BufferWhen", "SampleWhen", "ThrottleWhen"}

func c12MultiRun(tb rt.TB, t *testing.T, c c12MultiCase) {
	row := mrowByName(c.Op)
	var failure *rt.Failure
	fail := func(class, msg string) {
		if failure == nil {
			failure = &rt.Failure{Property: "C12", Check: "overlapping-subscriptions", Op: c.Op, Class: class, Msg: msg, Case: c}
		}
	}
	problem := bubble(t, func() {
		rt.NewSink()
		srcs := make([]*rt.ManualSrc, c.K)
		obss := make([]ro.Observable[int], c.K)
		for i := range srcs {
			srcs[i] = rt.NewManual(fmt.Sprintf("S%d", i), rt.CtorUnsafeCtx)
			obss[i] = srcs[i].Observable()
		}
		shared := row.Build(obss) // ONE observable value
		type party struct {
			m     *model.Multi
			rec   *rt.Recorder[any]
			sub   ro.Subscription
			alive bool // subscribed and not unsubscribed by us
		}
		ps := []*party{{}, {}}
		subscribe := func(p *party) {
			p.m = row.Model(c.K)
			p.rec = rt.NewRecorder[any]()
			p.sub = shared.Subscribe(p.rec)
			p.alive = true
			synctest.Wait()
		}
		check := func(where string) bool {
			for j, p := range ps {
				if p.m == nil {
					continue
				}
				got := cat.TraceOf(p.rec.Trace())
				if !cat.SameTrace(got, p.m.Out) {
					fail("subscriptions-influence-each-other", fmt.Sprintf("%s: subscription %d delivered %s; on its own it would have delivered %s", where, j+1, got, p.m.Out))
					return false
				}
				if g := p.rec.Grammar(); g != "" {
					fail("grammar", where+": "+g)
					return false
				}
			}
			for i, s := range srcs {
				want, open := 0, false
				for _, p := range ps {
					if p.m == nil || !p.alive {
						continue
					}
					if p.m.NoRelCheck {
						open = true
					}
					if p.m.Sub[i] && !p.m.Rel[i] {
						want++
					}
				}
				if open {
					continue
				}
				if got := s.LiveDests(); got != want {
					class := "source-held-by-the-wrong-number-of-subscriptions"
					if got > want {
						class = "source-not-released"
					} else {
						class = "source-released-for-the-other-subscription"
					}
					fail(class, fmt.Sprintf("%s: source %d has %d live subscriptions, the two subscriptions together should hold %d", where, i, got, want))
					return false
				}
			}
			return true
		}
		subscribe(ps[0])
		ok := check("after the first subscription")
		for step := 0; step <= len(c.Arrivals) && ok; step++ {
			if step == c.Sub2At {
				subscribe(ps[1])
				ok = check(fmt.Sprintf("%s(k=%d) [%s]: second subscription made before arrival #%d", c.Op, c.K, arrivalsString(c.Arrivals), step))
			}
			if ok && step == c.Unsub1At && ps[0].alive {
				ps[0].sub.Unsubscribe()
				ps[0].alive = false
				synctest.Wait()
				ok = check(fmt.Sprintf("%s(k=%d) [%s]: first subscription unsubscribed before arrival #%d", c.Op, c.K, arrivalsString(c.Arrivals), step))
			}
			if !ok || step == len(c.Arrivals) {
				break
			}
			a := c.Arrivals[step]
			srcs[a.Src].Emit(a.Ev)
			for _, p := range ps {
				if p.m != nil && p.alive {
					p.m.On(a.Src, cat.ModelIn([]rt.Ev{a.Ev})[0])
				}
			}
			synctest.Wait()
			ok = check(fmt.Sprintf("%s(k=%d) after [%s] of [%s] (second subscription before #%d, first unsubscribed before #%d)", c.Op, c.K, arrivalsString(c.Arrivals[:step+1]), arrivalsString(c.Arrivals), c.Sub2At, c.Unsub1At))
		}
		for _, p := range ps {
			if p.sub != nil {
				p.sub.Unsubscribe()
				p.alive = false
			}
		}
		synctest.Wait()
		if ok {
			for i, s := range srcs {
				if s.LiveDests() != 0 {
					fail("source-not-released", fmt.Sprintf("%s(k=%d) [%s]: both subscriptions unsubscribed, source %d still has %d live subscriptions", c.Op, c.K, arrivalsString(c.Arrivals), i, s.LiveDests()))
				}
			}
		}
	})
	if problem != "" && failure == nil {
		class := "panic-in-bubble"
		if strings.Contains(problem, "deadlock") {
			class = "goroutine-left-blocked"
		}
		fail(class, fmt.Sprintf("%s(k=%d) [%s]: %s", c.Op, c.K, arrivalsString(c.Arrivals), problem))
	}
	if failure != nil {
		rt.Report(tb, *failure)
	}
}

func TestC12_MultiSourceOverlapping(t *testing.T) {
	currentT = t
	rapid.Check(t, func(rt_ *rapid.T) {
		op := rapid.SampledFrom(c12MultiRows).Draw(rt_, "op")
		row := mrowByName(op)
		k := row.K[len(row.K)-1]
		if k > 3 {
			k = 3
		}
		if k > 2 && rapid.Bool().Draw(rt_, "two") {
			for _, kk := range row.K {
				if kk == 2 {
					k = 2
				}
			}
		}
		scripts := make([][]rt.Ev, k)
		for i := range scripts {
			n := rapid.IntRange(0, 3).Draw(rt_, "values")
			for j := 1; j <= n; j++ {
				scripts[i] = append(scripts[i], rt.N(10*i+j))
			}
			switch rapid.IntRange(0, 3).Draw(rt_, "end") {
			case 0, 1:
				scripts[i] = append(scripts[i], rt.C())
			case 2:
				if !((op == "TakeUntil" || op == "SkipUntil") && i == 1) { // listed finding: notifier error
					scripts[i] = append(scripts[i], rt.E(i+1))
				}
			}
		}
		// one interleaving, drawn
		pos := make([]int, k)
		var as []arrival
		for {
			var open []int
			for i := range scripts {
				if pos[i] < len(scripts[i]) {
					open = append(open, i)
				}
			}
			if len(open) == 0 {
				break
			}
			i := rapid.SampledFrom(open).Draw(rt_, "next")
			as = append(as, arrival{Src: i, Ev: scripts[i][pos[i]]})
			pos[i]++
		}
		c := c12MultiCase{Op: op, K: k, Arrivals: as}
		c.Sub2At = rapid.IntRange(0, len(as)).Draw(rt_, "sub2")
		c.Unsub1At = rapid.IntRange(c.Sub2At, len(as)+1).Draw(rt_, "unsub1")
		c12MultiRun(rt_, t, c)
		rt.Case(caseKey("overlapsubs", op, k, arrivalsString(as), c.Sub2At, c.Unsub1At), len(as) >= 2 && c.Sub2At < len(as), "overlap:"+row.Family, func() any { return c })
	})
}
