package checks

import (
	"encoding/json"
	"fmt"
	"reflect"
	"strings"
	"testing"
	"testing/synctest"

	"github.com/samber/ro"
	"verifharness/cat"
	"verifharness/model"
	"verifharness/rt"
)

// Rows whose outputs are observables (windows, groups) or that subscribe inner
// observables chosen by the values of an outer one (MergeMap).

type c05Inner struct {
	Op       string    `json:"op"` // WindowWhen | GroupBy | MergeMap
	Variant  string    `json:"variant,omitempty"`
	Arrivals []arrival `json:"arrivals"`
	Late     bool      `json:"late_consumer,omitempty"` // inner observables are subscribed one arrival after they were emitted
}

func init() {
	replayers["arrival-inner"] = func(t *testing.T, raw json.RawMessage) {
		var c c05Inner
		if err := json.Unmarshal(raw, &c); err != nil {
			t.Fatal(err)
		}
		c05RunInner(t, c)
	}
}

// innerModel: outer trace (ids of inner observables, or values) + inner traces.
type innerModel struct {
	out    model.Trace
	inners []*model.Trace
	closed map[int]bool
}

func (m *innerModel) open() int {
	id := len(m.inners)
	m.inners = append(m.inners, &model.Trace{})
	m.out.Vals = append(m.out.Vals, id)
	return id
}

func (m *innerModel) end(id int, k byte, e string) {
	if m.inners[id].End == 0 {
		m.inners[id].End, m.inners[id].Err = k, e
	}
}

func c05RunInner(t *testing.T, c c05Inner) {
	var failure *rt.Failure
	fail := func(class, msg string) {
		if failure == nil {
			failure = &rt.Failure{Property: "C05", Check: "arrival-inner", Op: c.Op, Class: class, Msg: msg, Case: c}
		}
	}
	problem := bubble(t, func() {
		rt.NewSink()
		k := 2
		if c.Op == "MergeMap" {
			k = 3 // outer + two inner sources
		}
		srcs := make([]*rt.ManualSrc, k)
		for i := range srcs {
			srcs[i] = rt.NewManual(fmt.Sprintf("S%d", i), rt.CtorUnsafeCtx)
		}
		m := &innerModel{closed: map[int]bool{}}
		outerRec := rt.NewRecorder[any]()
		outerRec.NoSnap = true
		var innerRecs []*rt.Recorder[int]
		var pendingAttach []func()
		var obs ro.Observable[any]
		// model state
		cur := -1                // WindowWhen: current window
		groups := map[int]int{}  // GroupBy: key -> inner id
		subscribedInner := map[int]bool{}
		innerDone := map[int]bool{}
		outerDone := false
		var step func(a arrival)
		switch c.Op {
		case "WindowWhen":
			obs = anyObs(ro.WindowWhen[int, int](srcs[1].Observable())(srcs[0].Observable()))
			outerRec.Hook = func(kd byte, _ ctxT, v any, err error) {
				if kd == 'N' {
					r := rt.NewRecorder[int]()
					innerRecs = append(innerRecs, r)
					if c.Late {
						pendingAttach = append(pendingAttach, func() { v.(ro.Observable[int]).Subscribe(r) })
					} else {
						v.(ro.Observable[int]).Subscribe(r) // eager consumer
					}
				}
			}
			cur = m.open()
			step = func(a arrival) {
				if m.out.End != 0 {
					return
				}
				switch {
				case a.Src == 0 && a.Ev.K == 'N':
					m.inners[cur].Vals = append(m.inners[cur].Vals, a.Ev.V)
				case a.Src == 1 && a.Ev.K == 'N':
					m.end(cur, 'C', "")
					cur = m.open()
				case a.Ev.K == 'C':
					m.end(cur, 'C', "")
					m.out.End = 'C'
				case a.Ev.K == 'E':
					m.end(cur, '?', "") // closed; whether the window sees C or E is left open
					m.out.End, m.out.Err = 'E', fmt.Sprintf("e%d", a.Ev.V)
				}
			}
		case "GroupBy":
			key := func(x int) int { return x % 2 }
			var op func(ro.Observable[int]) ro.Observable[ro.Observable[int]]
			switch c.Variant {
			case "":
				op = ro.GroupBy(key)
			case "WithContext":
				op = ro.GroupByWithContext(func(cx ctxT, x int) (ctxT, int) { return cx, key(x) })
			case "I":
				op = ro.GroupByI(func(x int, i int64) int { return key(x) })
			default:
				op = ro.GroupByIWithContext(func(cx ctxT, x int, i int64) (ctxT, int) { return cx, key(x) })
			}
			obs = anyObs(op(srcs[0].Observable()))
			outerRec.Hook = func(kd byte, _ ctxT, v any, err error) {
				if kd == 'N' {
					r := rt.NewRecorder[int]()
					innerRecs = append(innerRecs, r)
					v.(ro.Observable[int]).Subscribe(r)
				}
			}
			step = func(a arrival) {
				if a.Src != 0 || m.out.End != 0 {
					return
				}
				switch a.Ev.K {
				case 'N':
					kx := key(a.Ev.V)
					id, ok := groups[kx]
					if !ok {
						id = m.open()
						groups[kx] = id
					}
					m.inners[id].Vals = append(m.inners[id].Vals, a.Ev.V)
				case 'C':
					m.out.End = 'C'
					for _, id := range groups {
						m.end(id, 'C', "")
					}
				case 'E':
					m.out.End, m.out.Err = 'E', fmt.Sprintf("e%d", a.Ev.V)
					for _, id := range groups {
						// the documentation does not say whether a group sees the error or a
						// completion when the source fails: closed either way
						m.end(id, '?', "")
					}
				}
			}
		case "MergeMap":
			// outer S0 emits 1 or 2: inner source S1 / S2
			pr := func(x int) ro.Observable[int] { return srcs[x].Observable() }
			var op func(ro.Observable[int]) ro.Observable[int]
			switch c.Variant {
			case "":
				op = ro.MergeMap(pr)
			case "WithContext":
				op = ro.MergeMapWithContext(func(cx ctxT, x int) ro.Observable[int] { return pr(x) })
			case "I":
				op = ro.MergeMapI(func(x int, i int64) ro.Observable[int] { return pr(x) })
			default:
				op = ro.MergeMapIWithContext(func(cx ctxT, x int, i int64) (ctxT, ro.Observable[int]) { return cx, pr(x) })
			}
			obs = anyObs(op(srcs[0].Observable()))
			check := func() {
				if !outerDone {
					return
				}
				for id := range subscribedInner {
					if !innerDone[id] {
						return
					}
				}
				m.out.End = 'C'
			}
			step = func(a arrival) {
				if m.out.End != 0 {
					return
				}
				switch {
				case a.Src == 0 && a.Ev.K == 'N':
					if !outerDone && !subscribedInner[a.Ev.V] {
						subscribedInner[a.Ev.V] = true
					}
				case a.Src == 0 && a.Ev.K == 'C':
					outerDone = true
					check()
				case a.Ev.K == 'E':
					if a.Src == 0 && outerDone {
						return
					}
					if a.Src != 0 && (!subscribedInner[a.Src] || innerDone[a.Src]) {
						return
					}
					m.out.End, m.out.Err = 'E', fmt.Sprintf("e%d", a.Ev.V)
				case a.Src != 0 && a.Ev.K == 'N':
					if subscribedInner[a.Src] && !innerDone[a.Src] {
						m.out.Vals = append(m.out.Vals, a.Ev.V)
					}
				case a.Src != 0 && a.Ev.K == 'C':
					if subscribedInner[a.Src] && !innerDone[a.Src] {
						innerDone[a.Src] = true
						check()
					}
				}
			}
		}
		var sub ro.Subscription
		func() {
			defer func() {
				if r := recover(); r != nil {
					fail("panic-escaped", fmt.Sprint(r))
				}
			}()
			sub = obs.Subscribe(outerRec)
		}()
		synctest.Wait()
		check := func(stepNo int) bool {
			where := fmt.Sprintf("%s%s after [%s] (step %d of [%s])", c.Op, c.Variant, arrivalsString(c.Arrivals[:stepNo+1]), stepNo, arrivalsString(c.Arrivals))
			tr := outerRec.Trace()
			if c.Op == "MergeMap" {
				got := cat.TraceOf(tr)
				if !cat.SameTrace(got, m.out) {
					fail(c05Class(nil, c05Case{Arrivals: c.Arrivals}, stepNo, got, m.out), fmt.Sprintf("%s: output %s, the definition assigns %s", where, got, m.out))
					return false
				}
				return true
			}
			// outer: number of inner observables and terminal
			ek := ""
			if tr.End == 'E' {
				ek = cat.ErrKey(tr.Err)
			}
			if len(tr.Vals) != len(m.out.Vals) || tr.End != m.out.End || ek != m.out.Err {
				fail("outer-stream-differs", fmt.Sprintf("%s: outer stream has %d inner observables and ending %q(%s), the definition says %d and %q(%s)", where, len(tr.Vals), tr.End, ek, len(m.out.Vals), m.out.End, m.out.Err))
				return false
			}
			for id, want := range m.inners {
				if id >= len(innerRecs) {
					fail("inner-observable-missing", where)
					return false
				}
				got := cat.TraceOf(innerRecs[id].Trace())
				if !(len(got.Vals) == 0 && len(want.Vals) == 0) && !reflect.DeepEqual(got.Vals, want.Vals) {
					fail("inner-values-differ", fmt.Sprintf("%s: inner observable #%d delivered %v, the definition says %v", where, id, got.Vals, want.Vals))
					return false
				}
				switch want.End {
				case '?':
					if got.End == 0 {
						fail("inner-not-closed", fmt.Sprintf("%s: inner observable #%d is still open", where, id))
						return false
					}
				default:
					if got.End != want.End || got.Err != want.Err {
						fail("inner-terminal-differs", fmt.Sprintf("%s: inner observable #%d ended %q(%s), the definition says %q(%s)", where, id, got.End, got.Err, want.End, want.Err))
						return false
					}
				}
				if g := innerRecs[id].Grammar(); g != "" {
					fail("grammar", where+": inner: "+g)
					return false
				}
			}
			return true
		}
		ok := true
		lateTerminated := false
		if !c.Late {
			ok = check(-1)
		}
		for i, a := range c.Arrivals {
			if !ok {
				break
			}
			attach := pendingAttach
			pendingAttach = nil
			srcs[a.Src].Emit(a.Ev)
			step(a)
			synctest.Wait()
			if c.Late {
				// a consumer that subscribes to a window one arrival late must still get
				// what was pushed into it meanwhile (windows are unicast: backlog first).
				// A window that has already terminated by then falls under the listed
				// unicast finding (C10): not judged here.
				for id, w := range m.inners {
					if w.End != 0 && id >= len(innerRecs)-len(attach)-len(pendingAttach) && len(attach) > 0 {
						lateTerminated = true
					}
				}
				for _, f := range attach {
					f()
				}
				synctest.Wait()
				if lateTerminated {
					rt.Excluded(1)
					break
				}
			}
			ok = check(i)
		}
		if sub != nil {
			sub.Unsubscribe()
		}
		for _, s := range srcs {
			if ok && s.LiveDests() != 0 {
				fail("source-not-released", fmt.Sprintf("%s [%s]: %s still subscribed after Unsubscribe", c.Op, arrivalsString(c.Arrivals), s.Name))
			}
		}
	})
	if problem != "" && failure == nil {
		class := "panic-in-bubble"
		if strings.Contains(problem, "deadlock") {
			class = "goroutine-left-blocked"
		}
		fail(class, fmt.Sprintf("%s [%s]: %s", c.Op, arrivalsString(c.Arrivals), problem))
	}
	if failure != nil {
		rt.Report(t, *failure)
	}
}

func TestC05_InnerObservablesEnumerated(t *testing.T) {
	idx := 0
	run := func(c c05Inner) {
		idx++
		if !rt.Mine(idx) {
			return
		}
		c05RunInner(t, c)
		rt.Case(caseKey("inner", c.Op, c.Variant, c.Late, arrivalsString(c.Arrivals)), c05NonTrivial(c.Arrivals, 2) || c.Op == "GroupBy", "inner:"+c.Op, func() any { return c })
	}
	maxVals := 2
	if rt.Thorough() {
		maxVals = 3
	}
	// WindowWhen: source x boundary
	for _, s0 := range sourceScripts(0, maxVals, false) {
		for _, s1 := range sourceScripts(1, maxVals, false) {
			interleavings([][]rt.Ev{s0, s1}, func(as []arrival) {
				run(c05Inner{Op: "WindowWhen", Arrivals: as})
				if len(as) > 0 {
					run(c05Inner{Op: "WindowWhen", Arrivals: as, Late: true})
				}
			})
		}
	}
	// GroupBy: every script of length <= 4 over {1,2,3} and endings
	for _, s := range legalScripts([]int{1, 2, 3}, maxVals+2, []byte{'C', 'E', 0}) {
		as := make([]arrival, len(s))
		for i, e := range s {
			as[i] = arrival{Src: 0, Ev: e}
		}
		for vi, v := range []string{"", "WithContext", "I", "IWithContext"} {
			if vi == 0 || len(s)%4 == vi {
				run(c05Inner{Op: "GroupBy", Variant: v, Arrivals: as})
			}
		}
	}
	// MergeMap: outer emits 1 and/or 2, inner sources 1 and 2
	outers := [][]rt.Ev{{rt.N(1), rt.C()}, {rt.N(1), rt.N(2), rt.C()}, {rt.N(2), rt.N(1)}, {rt.N(1), rt.E(9)}, {rt.N(1), rt.N(2), rt.E(9)}, {rt.C()}}
	for _, o := range outers {
		for _, s1 := range sourceScripts(1, 1, false) {
			for _, s2 := range sourceScripts(2, 1, false) {
				interleavings([][]rt.Ev{o, s1, s2}, func(as []arrival) {
					run(c05Inner{Op: "MergeMap", Variant: []string{"", "WithContext", "I", "IWithContext"}[len(as)%4], Arrivals: as})
				})
			}
		}
	}
}
