package checks

import (
	"fmt"

	"github.com/samber/ro"
)

// subjectKind describes one subject constructor instance.
type subjectKind struct {
	Kind string `json:"kind"` // publish, behavior, replay, async, unicast
	Size int    `json:"size"` // buffer size for replay / unicast (-1 unlimited)
}

func (k subjectKind) String() string {
	switch k.Kind {
	case "replay", "unicast":
		return fmt.Sprintf("%s(%d)", k.Kind, k.Size)
	}
	return k.Kind
}

const behaviorInitial = 100

func (k subjectKind) New() ro.Subject[int] {
	switch k.Kind {
	case "publish":
		return ro.NewPublishSubject[int]()
	case "behavior":
		return ro.NewBehaviorSubject[int](behaviorInitial)
	case "replay":
		return ro.NewReplaySubject[int](k.Size)
	case "async":
		return ro.NewAsyncSubject[int]()
	case "unicast":
		return ro.NewUnicastSubject[int](k.Size)
	}
	panic("kind " + k.Kind)
}

var subjectKinds = []subjectKind{
	{"publish", 0}, {"behavior", 0}, {"async", 0},
	{"replay", 0}, {"replay", 1}, {"replay", 2}, {"replay", 3}, {"replay", -1},
	{"unicast", 0}, {"unicast", 1}, {"unicast", 2}, {"unicast", 3}, {"unicast", -1},
}
