package checks

import (
	"context"
	"encoding/json"
	"fmt"
	"strings"
	"sync"
	"testing"
	"testing/synctest"
	"time"

	"github.com/samber/ro"
	"pgregory.net/rapid"
	"verifharness/cat"
	"verifharness/rt"
)

// C16 — time-driven operators never act early, never reorder, and stop when told.
// Virtual time (testing/synctest): stamps are exact and independent of load.

type c16Case struct {
	Op    string `json:"op"`
	D     int    `json:"d_ms"`              // main duration (delay / period / timeout / window)
	P2    int    `json:"p2_ms,omitempty"`   // second duration (initial delay, ...)
	N     int    `json:"n,omitempty"`       // count parameter
	Gaps  []int  `json:"gaps_ms,omitempty"` // inter-arrival gaps of the source timeline
	End   byte   `json:"end,omitempty"`     // 'C', 'E' or 0
	CutAt int    `json:"cut_at_ms"`         // -1 = no cut
	Cut   string `json:"cut_kind,omitempty"` // unsubscribe | cancel
}

func init() {
	replayers["time"] = func(t *testing.T, raw json.RawMessage) {
		var c c16Case
		if err := json.Unmarshal(raw, &c); err != nil {
			t.Fatal(err)
		}
		c16Run(t, t, c)
	}
}

type timedRec struct {
	K   byte
	V   any
	Err error
	At  time.Duration
}

var c16Creation = map[string]bool{"Timer": true, "Interval": true, "IntervalWithInitial": true, "RangeWithInterval": true, "RangeWithStepAndInterval": true, "RepeatWithInterval": true}

func ms(n int) time.Duration { return time.Duration(n) * time.Millisecond }

func c16Run(tb rt.TB, t *testing.T, c c16Case) {
	var failure *rt.Failure
	fail := func(class, msg string) {
		if failure == nil {
			failure = &rt.Failure{Property: "C16", Check: "time", Op: c.Op, Class: class, Msg: msg, Case: c}
		}
	}
	problem := bubble(t, func() {
		rt.NewSink()
		start := time.Now()
		ctx, cancel := context.WithCancel(context.Background())
		defer cancel()
		var mu sync.Mutex
		var recs []timedRec
		var emitted []time.Duration // emission time of source value k (value k = k+1)
		rec := rt.NewRecorder[any]()
		rec.Hook = func(k byte, _ context.Context, v any, err error) {
			mu.Lock()
			recs = append(recs, timedRec{K: k, V: v, Err: err, At: time.Since(start)})
			mu.Unlock()
		}
		man := rt.NewManual("src", rt.CtorUnsafeCtx)
		src := man.Observable()
		var obs ro.Observable[any]
		d := ms(c.D)
		switch c.Op {
		case "Timer":
			obs = anyObs(ro.Timer(d))
		case "Interval":
			obs = anyObs(ro.Interval(d))
		case "IntervalWithInitial":
			obs = anyObs(ro.IntervalWithInitial(ms(c.P2), d))
		case "RangeWithInterval":
			obs = anyObs(ro.RangeWithInterval(3, int64(3+c.N), d))
		case "RangeWithStepAndInterval":
			obs = anyObs(ro.RangeWithStepAndInterval(1, 1+float64(c.N)*0.5, 0.5, d))
		case "RepeatWithInterval":
			obs = anyObs(ro.RepeatWithInterval(7, int64(c.N), d))
		case "Delay":
			obs = anyObs(ro.Delay[int](d)(src))
		case "DelayEach":
			obs = anyObs(ro.DelayEach[int](d)(src))
		case "Timeout":
			obs = anyObs(ro.Timeout[int](d)(src))
		case "SampleTime":
			obs = anyObs(ro.SampleTime[int](d)(src))
		case "ThrottleWhen":
			obs = anyObs(ro.ThrottleWhen[int, int64](ro.Interval(d))(src))
		case "BufferWithTime":
			obs = anyObs(ro.BufferWithTime[int](d)(src))
		case "BufferWithTimeOrCount":
			obs = anyObs(ro.BufferWithTimeOrCount[int](c.N, d)(src))
		case "WindowWhen":
			obs = anyObs(ro.Pipe2(src, ro.WindowWhen[int, int64](ro.Interval(d)), ro.MergeMap(func(w ro.Observable[int]) ro.Observable[[]int] { return ro.ToSlice[int]()(w) })))
		}
		returned := make(chan struct{})
		var sub ro.Subscription
		go func() {
			defer close(returned)
			defer func() {
				if r := recover(); r != nil {
					fail("panic-escaped", fmt.Sprint(r))
				}
			}()
			sub = obs.SubscribeWithContext(ctx, rec)
		}()
		synctest.Wait()
		var cutTime time.Duration = -1
		doCut := func() {
			switch c.Cut {
			case "cancel", "cancel-deaf-producer":
				cancel()
			default:
				select {
				case <-returned:
					if sub != nil {
						sub.Unsubscribe()
					}
				default:
					cancel() // Subscribe still blocked (Timer): the context is the only handle
				}
			}
			cutTime = time.Since(start)
		}
		// producer timeline
		var total time.Duration
		for _, g := range c.Gaps {
			total += ms(g)
		}
		producerDone := make(chan struct{})
		go func() {
			defer close(producerDone)
			for i, g := range c.Gaps {
				time.Sleep(ms(g))
				if ctx.Err() != nil && c.Cut != "cancel-deaf-producer" {
					return // a context-aware producer: it stops at cancellation
				}
				mu.Lock()
				emitted = append(emitted, time.Since(start))
				mu.Unlock()
				man.Emit(rt.N(i + 1))
			}
			if ctx.Err() != nil && c.Cut != "cancel-deaf-producer" {
				return
			}
			switch c.End {
			case 'C':
				man.Emit(rt.C())
			case 'E':
				man.Emit(rt.E(1))
			}
		}()
		horizon := total + ms(3*c.D+3*c.P2+10)
		if c16Creation[c.Op] {
			horizon = ms(c.P2 + c.D*(c.N+4) + 10)
		}
		if c.CutAt >= 0 {
			time.Sleep(ms(c.CutAt))
			synctest.Wait()
			doCut()
		}
		time.Sleep(horizon)
		synctest.Wait()
		<-producerDone
		mu.Lock()
		got := append([]timedRec(nil), recs...)
		em := append([]time.Duration(nil), emitted...)
		mu.Unlock()
		c16Judge(c, got, em, cutTime, fail)
		// release
		cancel()
		man.Emit(rt.C())
		synctest.Wait()
		select {
		case <-returned:
			if sub != nil {
				sub.Unsubscribe()
			}
		default:
		}
		time.Sleep(ms(5*c.D + 20))
		synctest.Wait()
	})
	if problem != "" && failure == nil {
		class := "panic-in-bubble"
		if strings.Contains(problem, "deadlock") {
			class = "goroutine-left-blocked"
		}
		if strings.HasPrefix(problem, "stalled") {
			class = "stalled"
		}
		fail(class, fmt.Sprintf("%s: %s", c.Op, problem))
	}
	if failure != nil {
		rt.Report(tb, *failure)
	}
}

// c16Judge applies only what the property states: lower bounds on time, order
// and count relations, silence after the cut.
func c16Judge(c c16Case, got []timedRec, emitted []time.Duration, cut time.Duration, fail func(class, msg string)) {
	d := ms(c.D)
	desc := fmt.Sprintf("%s(d=%dms p2=%dms n=%d) gaps=%v end=%q cut=%d(%s)", c.Op, c.D, c.P2, c.N, c.Gaps, c.End, c.CutAt, c.Cut)
	show := func() string {
		s := ""
		for _, r := range got {
			s += fmt.Sprintf(" %c(%v)@%v", r.K, cat.Norm(r.V), r.At)
		}
		return s
	}
	// silence after the cut (a callback already in progress at the cut is not possible here: the cut happens at quiescence)
	if cut >= 0 && c.Cut != "cancel-deaf-producer" {
		for _, r := range got {
			if r.At > cut && !(c.Cut == "cancel" && r.K != 'N') {
				fail("activity-after-cut", fmt.Sprintf("%s: %c delivered at %v, after the %s at %v;%s", desc, r.K, r.At, c.Cut, cut, show()))
				return
			}
		}
	}
	var vals []timedRec
	var term *timedRec
	for i, r := range got {
		if r.K == 'N' {
			vals = append(vals, r)
		} else if term == nil {
			term = &got[i]
		}
	}
	intOf := func(v any) int {
		switch x := cat.Norm(v).(type) {
		case int:
			return x
		case float64:
			return int(x * 2)
		}
		return -1
	}
	switch c.Op {
	case "Timer":
		if len(vals) > 1 {
			fail("count", desc+": more than one value;"+show())
		}
		for _, v := range vals {
			if v.At < d {
				fail("acts-early", fmt.Sprintf("%s: fired at %v, before %v", desc, v.At, d))
			}
		}
	case "Interval", "IntervalWithInitial", "RangeWithInterval", "RangeWithStepAndInterval", "RepeatWithInterval":
		for k, v := range vals {
			min := time.Duration(k+1) * d
			if c.Op == "IntervalWithInitial" {
				min = ms(c.P2) + time.Duration(k)*d
			}
			if v.At < min {
				fail("acts-early", fmt.Sprintf("%s: value #%d delivered at %v, not before %v is allowed;%s", desc, k, v.At, min, show()))
				return
			}
			want := k
			switch c.Op {
			case "RangeWithInterval":
				want = 3 + k
			case "RangeWithStepAndInterval":
				want = 2 + k // (1 + 0.5k) * 2
			case "RepeatWithInterval":
				want = 7
			}
			if intOf(v.V) != want {
				fail("wrong-sequence", fmt.Sprintf("%s: value #%d is %v;%s", desc, k, cat.Norm(v.V), show()))
				return
			}
		}
		if term != nil && term.K == 'E' && cut < 0 {
			fail("unexpected-error", fmt.Sprintf("%s: ended with error %v;%s", desc, term.Err, show()))
			return
		}
		if cut < 0 {
			switch c.Op {
			case "RangeWithInterval", "RangeWithStepAndInterval", "RepeatWithInterval":
				if len(vals) != c.N || (c.N > 0 && (term == nil || term.K != 'C')) {
					fail("wrong-sequence", fmt.Sprintf("%s: expected %d values then completion;%s", desc, c.N, show()))
				}
			case "Interval", "IntervalWithInitial":
				if len(vals) < 2 {
					fail("periodic-source-silent", fmt.Sprintf("%s: fewer than 2 values within the horizon;%s", desc, show()))
				}
			}
		}
	case "Delay", "DelayEach":
		for k, v := range vals {
			if intOf(v.V) != k+1 {
				fail("reordered-or-lost", fmt.Sprintf("%s: output #%d is %v;%s", desc, k, cat.Norm(v.V), show()))
				return
			}
			if k < len(emitted) && v.At-emitted[k] < d {
				fail("acts-early", fmt.Sprintf("%s: value %d emitted at %v delivered at %v, less than %v later", desc, k+1, emitted[k], v.At, d))
				return
			}
		}
		if cut < 0 && len(vals) != len(c.Gaps) {
			fail("reordered-or-lost", fmt.Sprintf("%s: %d of %d values delivered;%s", desc, len(vals), len(c.Gaps), show()))
			return
		}
		if cut < 0 && c.End != 0 && (term == nil || term.K != c.End) {
			fail("terminal-lost", fmt.Sprintf("%s: terminal %q expected;%s", desc, c.End, show()))
			return
		}
		if c.Op == "Delay" && term != nil && len(emitted) == len(c.Gaps) && len(emitted) > 0 && term.At-emitted[len(emitted)-1] < d && c.End != 0 {
			fail("acts-early", fmt.Sprintf("%s: the terminal emitted at %v was delivered at %v, less than %v later", desc, emitted[len(emitted)-1], term.At, d))
		}
	case "Timeout":
		for k, v := range vals {
			if intOf(v.V) != k+1 {
				fail("reordered-or-lost", desc+show())
				return
			}
		}
		if term != nil && term.K == 'E' && cat.ErrKey(term.Err) != "timeout" && !(c.End == 'E' && cat.ErrKey(term.Err) == "e1") {
			fail("unexpected-error", fmt.Sprintf("%s: ended with %v, which is neither the source's error nor a timeout;%s", desc, term.Err, show()))
			return
		}
		if term != nil && term.K == 'E' && cat.ErrKey(term.Err) == "timeout" {
			// only after a full quiet period: no value (and no subscription) within the preceding d
			last := time.Duration(0)
			for _, e := range emitted {
				// events at the very instant of the timeout are not ordered with it
				if e < term.At {
					last = e
				}
			}
			if term.At-last < d {
				fail("timeout-without-a-full-quiet-period", fmt.Sprintf("%s: timeout raised at %v, the last activity was at %v (quiet for %v < %v);%s", desc, term.At, last, term.At-last, d, show()))
				return
			}
			// never once the source has terminated
			if c.End != 0 && len(emitted) == len(c.Gaps) && len(emitted) > 0 {
				srcEnd := emitted[len(emitted)-1]
				if term.At > srcEnd {
					fail("timeout-after-source-terminated", fmt.Sprintf("%s: timeout raised at %v, the source had terminated at %v", desc, term.At, srcEnd))
				}
			}
		}
	case "SampleTime", "ThrottleWhen":
		prev := 0
		for _, v := range vals {
			x := intOf(v.V)
			if x <= prev || x > len(c.Gaps) {
				fail("not-a-subsequence-of-the-source", fmt.Sprintf("%s:%s", desc, show()))
				return
			}
			prev = x
		}
		// at most one value per period: in any span L at most floor(L/p)+1... checked pairwise: two outputs are at least one tick apart is NOT claimed; count bound over the whole run:
		if len(vals) > 0 {
			span := vals[len(vals)-1].At
			if max := int(span/d) + 1; len(vals) > max {
				fail("more-than-one-value-per-period", fmt.Sprintf("%s: %d values within %v (period %v);%s", desc, len(vals), span, d, show()))
			}
		}
	case "BufferWithTime", "BufferWithTimeOrCount", "WindowWhen":
		next := 1
		for _, v := range vals {
			buf, _ := cat.Norm(v.V).([]any)
			if c.Op == "BufferWithTimeOrCount" && len(buf) > c.N {
				fail("buffer-larger-than-count", fmt.Sprintf("%s: buffer %v;%s", desc, buf, show()))
				return
			}
			for _, x := range buf {
				if c.Op == "WindowWhen" {
					// A value issued at the very instant of a tick can be pushed into the window
					// that tick is closing and be dropped: a loss (listed under C05), not a
					// reordering and not an invented value, which is what this property states.
					if x.(int) < next || x.(int) > len(c.Gaps) {
						fail("not-a-subsequence-of-the-source", fmt.Sprintf("%s: windows are not an in-order selection of the source;%s", desc, show()))
						return
					}
					next = x.(int) + 1
					continue
				}
				if x.(int) != next {
					fail("not-a-prefix-of-the-source", fmt.Sprintf("%s: buffers do not concatenate to the source prefix;%s", desc, show()))
					return
				}
				next++
			}
		}
		// (loss is not part of this property's statement: only 'never a value the
		// source did not emit, never out of source order')
	}
}

var c16Ops = []string{"Timer", "Interval", "IntervalWithInitial", "RangeWithInterval", "RangeWithStepAndInterval", "RepeatWithInterval", "Delay", "DelayEach", "Timeout", "SampleTime", "ThrottleWhen", "BufferWithTime", "BufferWithTimeOrCount", "WindowWhen"}

func c16Gen(t *rapid.T) c16Case {
	op := rapid.SampledFrom(c16Ops).Draw(t, "op")
	d := rapid.IntRange(1, 50).Draw(t, "d")
	// a duration of zero is legal for the timer-based forms (the ticker-based ones
	// reject it: time.NewTicker panics, BufferWithTime* say so themselves)
	if (op == "Timer" || op == "Delay" || op == "DelayEach" || op == "Timeout") && rapid.IntRange(0, 5).Draw(t, "zero") == 0 {
		d = 0
	}
	c := c16Case{Op: op, D: d, CutAt: -1}
	if c16Creation[op] {
		c.N = rapid.IntRange(0, 5).Draw(t, "n")
		c.P2 = rapid.SampledFrom([]int{0, 1, d, d / 2, d * 2}).Draw(t, "initial")
	} else {
		n := rapid.IntRange(0, 8).Draw(t, "values")
		for i := 0; i < n; i++ {
			// bursts (0), gaps just below / equal / just above the configured duration, and arbitrary ones
			g := rapid.SampledFrom([]int{0, 0, 1, d - 1, d, d + 1, d / 2, 2 * d, rapid.IntRange(0, 60).Draw(t, "g")}).Draw(t, "gap")
			if g < 0 {
				g = 0
			}
			c.Gaps = append(c.Gaps, g)
		}
		c.End = rapid.SampledFrom([]byte{'C', 'E', 0}).Draw(t, "end")
		c.N = rapid.IntRange(1, 3).Draw(t, "count")
	}
	if rapid.IntRange(0, 2).Draw(t, "cut") == 0 {
		c.CutAt = rapid.IntRange(0, 4*d+20).Draw(t, "cutAt")
		c.Cut = "unsubscribe"
		// cancellation is only specified for the stages that watch the context themselves
		// (the periodic sources and the stages clocked by Interval)
		if op != "Delay" && op != "DelayEach" && op != "Timeout" && rapid.Bool().Draw(t, "cancel") {
			c.Cut = "cancel"
		}
		// the delays do not watch the context: with a producer that does not either
		// (most synchronous sources), cancelling must not make anything arrive early
		if (op == "Delay" || op == "DelayEach") && rapid.Bool().Draw(t, "cancelDeaf") {
			c.Cut = "cancel-deaf-producer"
		}
	}
	return c
}

func c16NonTrivial(c c16Case) bool {
	if c.CutAt >= 0 {
		return true
	}
	near := 0
	for _, g := range c.Gaps {
		if g >= c.D-1 && g <= c.D+1 {
			near++
		}
	}
	return len(c.Gaps) >= 2 && near >= 1 || c16Creation[c.Op]
}

func TestC16_VirtualTimeEnumerated(t *testing.T) {
	idx := 0
	run := func(c c16Case) {
		idx++
		if !rt.Mine(idx) {
			return
		}
		if c.Op == "IntervalWithInitial" && c.P2 == 0 && rt.KnownFor("C16", "time", "IntervalWithInitial", "unexpected-error") != nil && idx%5 != 0 {
			rt.Excluded(1)
			return
		}
		c16Run(t, t, c)
		rt.Case(caseKey("time", fmt.Sprint(c)), c16NonTrivial(c), "op:"+c.Op, func() any { return c })
	}
	for _, d := range []int{1, 7, 20} {
		for _, n := range []int{0, 1, 3} {
			for _, op := range []string{"Timer", "Interval", "RangeWithInterval", "RangeWithStepAndInterval", "RepeatWithInterval"} {
				for _, cut := range []int{-1, d / 2, d, 2*d + 1} {
					run(c16Case{Op: op, D: d, N: n, CutAt: cut, Cut: []string{"unsubscribe", "cancel"}[(d+n)%2]})
				}
			}
			for _, initial := range []int{0, 1, d / 2, d, 2 * d} {
				run(c16Case{Op: "IntervalWithInitial", D: d, P2: initial, N: n, CutAt: -1})
				run(c16Case{Op: "IntervalWithInitial", D: d, P2: initial, N: n, CutAt: initial + d, Cut: "unsubscribe"})
			}
		}
		timelines := [][]int{{}, {0}, {0, 0, 0}, {d, d, d}, {d - 1, d + 1, d}, {1, 2 * d, 0, d - 1}, {d + 1, d + 1, d + 1, 3 * d}}
		for _, tl := range timelines {
			for i := range tl {
				if tl[i] < 0 {
					tl[i] = 0
				}
			}
			for _, op := range []string{"Delay", "DelayEach", "Timeout", "SampleTime", "ThrottleWhen", "BufferWithTime", "BufferWithTimeOrCount", "WindowWhen"} {
				for _, end := range []byte{'C', 'E', 0} {
					run(c16Case{Op: op, D: d, N: 2, Gaps: tl, End: end, CutAt: -1})
				}
				run(c16Case{Op: op, D: d, N: 2, Gaps: tl, End: 'C', CutAt: d + 1, Cut: "unsubscribe"})
			}
		}
		// bursts: many values whose timers are due at the same instant (which of the
		// timer goroutines runs first is up to the scheduler: repeated)
		burst := []int{1, 0, 0, 0, 0, 0, 0, 0}
		for rep := 0; rep < 25; rep++ {
			for _, op := range []string{"Delay", "DelayEach"} {
				run(c16Case{Op: op, D: d, Gaps: burst, End: []byte{'C', 'E'}[rep%2], CutAt: -1})
			}
		}
	}
}

func TestC16_VirtualTimeRandom(t *testing.T) {
	currentT = t
	rapid.Check(t, func(rt2 *rapid.T) {
		c := c16Gen(rt2)
		if c.Op == "IntervalWithInitial" && c.P2 == 0 && rt.KnownFor("C16", "time", "IntervalWithInitial", "unexpected-error") != nil {
			rt.Excluded(1)
			return
		}
		c16Run(rt2, currentT, c)
		rt.Case(caseKey("timerand", fmt.Sprint(c)), c16NonTrivial(c), "random:"+c.Op, func() any { return c })
	})
}
