package checks

import (
	"encoding/json"
	"fmt"
	"pgregory.net/rapid"
	"reflect"
	"strings"
	"testing"
	"testing/synctest"

	"github.com/samber/lo"
	"github.com/samber/ro"
	"verifharness/cat"
	"verifharness/model"
	"verifharness/rt"
)

// C05 — multi-source operators honour every arrival order of their inputs.

type mrow struct {
	Name   string
	Family string
	K      []int
	Build  func(srcs []ro.Observable[int]) ro.Observable[any]
	Model  func(k int) *model.Multi
	Same   bool // all sources emit the same values (SequenceEqual)
}

func anyObs[T any](o ro.Observable[T]) ro.Observable[any] {
	return ro.NewUnsafeObservableWithContext(func(ctx ctxT, d ro.Observer[any]) ro.Teardown {
		sub := o.SubscribeWithContext(ctx, ro.NewObserverWithContext(
			func(c ctxT, v T) { d.NextWithContext(c, v) }, d.ErrorWithContext, d.CompleteWithContext))
		return sub.Unsubscribe
	})
}

func t2(o ro.Observable[lo.Tuple2[int, int]]) ro.Observable[any] { return anyObs(o) }

var mrows = []mrow{
	{Name: "Merge", Family: "merge", K: []int{0, 1, 2, 3}, Model: model.Merge,
		Build: func(s []ro.Observable[int]) ro.Observable[any] { return anyObs(ro.Merge(s...)) }},
	{Name: "MergeAll", Family: "merge", K: []int{2, 3}, Model: model.Merge,
		Build: func(s []ro.Observable[int]) ro.Observable[any] { return anyObs(ro.MergeAll[int]()(ro.Just(s...))) }},
	{Name: "MergeWith", Family: "merge", K: []int{1, 2, 3}, Model: model.Merge,
		Build: func(s []ro.Observable[int]) ro.Observable[any] { return anyObs(ro.MergeWith(s[1:]...)(s[0])) }},
	{Name: "MergeWithN", Family: "merge", K: []int{2, 3}, Model: model.Merge,
		Build: func(s []ro.Observable[int]) ro.Observable[any] {
			if len(s) == 2 {
				return anyObs(ro.MergeWith1(s[1])(s[0]))
			}
			return anyObs(ro.MergeWith2(s[1], s[2])(s[0]))
		}},
	{Name: "CombineLatestN", Family: "combinelatest", K: []int{2, 3}, Model: model.CombineLatest,
		Build: func(s []ro.Observable[int]) ro.Observable[any] {
			if len(s) == 2 {
				return anyObs(ro.CombineLatest2(s[0], s[1]))
			}
			return anyObs(ro.CombineLatest3(s[0], s[1], s[2]))
		}},
	{Name: "CombineLatestWithN", Family: "combinelatest", K: []int{2, 3}, Model: model.CombineLatest,
		Build: func(s []ro.Observable[int]) ro.Observable[any] {
			if len(s) == 2 {
				return anyObs(ro.CombineLatestWith[int, int](s[1])(s[0]))
			}
			return anyObs(ro.CombineLatestWith2[int, int, int](s[1], s[2])(s[0]))
		}},
	{Name: "CombineLatestAll", Family: "combinelatest", K: []int{2, 3}, Model: model.CombineLatest,
		Build: func(s []ro.Observable[int]) ro.Observable[any] {
			return anyObs(ro.CombineLatestAll[int]()(ro.Just(s...)))
		}},
	{Name: "Concat", Family: "concat", K: []int{0, 1, 2, 3}, Model: model.Concat,
		Build: func(s []ro.Observable[int]) ro.Observable[any] { return anyObs(ro.Concat(s...)) }},
	{Name: "ConcatWith", Family: "concat", K: []int{1, 2, 3}, Model: model.Concat,
		Build: func(s []ro.Observable[int]) ro.Observable[any] { return anyObs(ro.ConcatWith(s[1:]...)(s[0])) }},
	{Name: "ConcatAll", Family: "concat", K: []int{2, 3}, Model: model.Concat,
		Build: func(s []ro.Observable[int]) ro.Observable[any] { return anyObs(ro.ConcatAll[int]()(ro.Just(s...))) }},
	{Name: "Race", Family: "race", K: []int{0, 1, 2, 3}, Model: model.Race,
		Build: func(s []ro.Observable[int]) ro.Observable[any] { return anyObs(ro.Race(s...)) }},
	{Name: "Amb", Family: "race", K: []int{2}, Model: model.Race,
		Build: func(s []ro.Observable[int]) ro.Observable[any] { return anyObs(ro.Amb(s...)) }},
	{Name: "RaceWith", Family: "race", K: []int{1, 2, 3}, Model: model.Race,
		Build: func(s []ro.Observable[int]) ro.Observable[any] { return anyObs(ro.RaceWith(s[1:]...)(s[0])) }},
	{Name: "ZipN", Family: "zip", K: []int{2, 3}, Model: model.Zip,
		Build: func(s []ro.Observable[int]) ro.Observable[any] {
			if len(s) == 2 {
				return anyObs(ro.Zip2(s[0], s[1]))
			}
			return anyObs(ro.Zip3(s[0], s[1], s[2]))
		}},
	{Name: "ZipWithN", Family: "zip", K: []int{2, 3}, Model: model.Zip,
		Build: func(s []ro.Observable[int]) ro.Observable[any] {
			if len(s) == 2 {
				return anyObs(ro.ZipWith[int, int](s[1])(s[0]))
			}
			return anyObs(ro.ZipWith2[int, int, int](s[1], s[2])(s[0]))
		}},
	{Name: "Zip", Family: "zip", K: []int{2, 3}, Model: model.Zip,
		Build: func(s []ro.Observable[int]) ro.Observable[any] { return anyObs(ro.Zip(s...)) }},
	{Name: "ZipAll", Family: "zip", K: []int{2}, Model: model.Zip,
		Build: func(s []ro.Observable[int]) ro.Observable[any] { return anyObs(ro.ZipAll[int]()(ro.Just(s...))) }},
	{Name: "TakeUntil", Family: "until", K: []int{2}, Model: func(int) *model.Multi { return model.TakeUntil() },
		Build: func(s []ro.Observable[int]) ro.Observable[any] { return anyObs(ro.TakeUntil[int, int](s[1])(s[0])) }},
	{Name: "SkipUntil", Family: "until", K: []int{2}, Model: func(int) *model.Multi { return model.SkipUntil() },
		Build: func(s []ro.Observable[int]) ro.Observable[any] { return anyObs(ro.SkipUntil[int, int](s[1])(s[0])) }},
	{Name: "BufferWhen", Family: "boundary", K: []int{2}, Model: func(int) *model.Multi { return model.BufferWhen() },
		Build: func(s []ro.Observable[int]) ro.Observable[any] { return anyObs(ro.BufferWhen[int, int](s[1])(s[0])) }},
	{Name: "SampleWhen", Family: "boundary", K: []int{2}, Model: func(int) *model.Multi { return model.SampleWhen() },
		Build: func(s []ro.Observable[int]) ro.Observable[any] { return anyObs(ro.SampleWhen[int, int](s[1])(s[0])) }},
	{Name: "ThrottleWhen", Family: "boundary", K: []int{2}, Model: func(int) *model.Multi { return model.ThrottleWhen(false) },
		Build: func(s []ro.Observable[int]) ro.Observable[any] { return anyObs(ro.ThrottleWhen[int, int](s[1])(s[0])) }},
	{Name: "SequenceEqual", Family: "sequenceequal", K: []int{2}, Same: true, Model: func(int) *model.Multi { return model.SequenceEqual() },
		Build: func(s []ro.Observable[int]) ro.Observable[any] { return anyObs(ro.SequenceEqual(s[1])(s[0])) }},
}

func mrowByName(n string) *mrow {
	for i := range mrows {
		if mrows[i].Name == n {
			return &mrows[i]
		}
	}
	for i := range mrowsWide {
		if mrowsWide[i].Name == n {
			return &mrowsWide[i]
		}
	}
	for i := range mrowsDressed {
		if mrowsDressed[i].Name == n {
			return &mrowsDressed[i]
		}
	}
	return nil
}

// arrival is one step of an interleaving.
type arrival struct {
	Src int   `json:"src"`
	Ev  rt.Ev `json:"ev"`
}

type c05Case struct {
	Op       string    `json:"op"`
	K        int       `json:"k"`
	Arrivals []arrival `json:"arrivals"`
	// ItemCtxOver: every value travels with a context that is already cancelled; only
	// the subscription context tells an operator to stop, so nothing changes.
	ItemCtxOver bool `json:"item_contexts_already_cancelled,omitempty"`
}

func init() {
	replayers["arrival"] = func(t *testing.T, raw json.RawMessage) {
		var c c05Case
		if err := json.Unmarshal(raw, &c); err != nil {
			t.Fatal(err)
		}
		c05Run(t, c)
	}
}

func arrivalsString(as []arrival) string {
	s := ""
	for i, a := range as {
		if i > 0 {
			s += " "
		}
		s += fmt.Sprintf("S%d:%s", a.Src, a.Ev)
	}
	return s
}

// c05Class names the situation an arrival order puts the operator in.
func c05Situation(c c05Case, step int) string {
	// a source ended while another still had the last word
	return ""
}

func c05Run(t *testing.T, c c05Case) {
	row := mrowByName(c.Op)
	var failure *rt.Failure
	fail := func(class, msg string) {
		if failure == nil {
			failure = &rt.Failure{Property: "C05", Check: "arrival", Op: c.Op, Class: class, Msg: msg, Case: c}
		}
	}
	problem := bubble(t, func() {
		rt.NewSink()
		srcs := make([]*rt.ManualSrc, c.K)
		obss := make([]ro.Observable[int], c.K)
		for i := range srcs {
			srcs[i] = rt.NewManual(fmt.Sprintf("S%d", i), rt.CtorUnsafeCtx)
			srcs[i].ItemCtxOver = c.ItemCtxOver
			obss[i] = srcs[i].Observable()
		}
		m := row.Model(c.K)
		rec := rt.NewRecorder[any]()
		returned := make(chan struct{})
		var sub ro.Subscription
		go func() {
			defer close(returned)
			defer func() {
				if r := recover(); r != nil {
					fail("panic-escaped", fmt.Sprint(r))
				}
			}()
			sub = row.Build(obss).Subscribe(rec)
		}()
		synctest.Wait()
		check := func(step int) bool {
			where := fmt.Sprintf("%s(k=%d) after [%s] (step %d of [%s])", c.Op, c.K, arrivalsString(c.Arrivals[:step+1]), step, arrivalsString(c.Arrivals))
			got := cat.TraceOf(rec.Trace())
			if !cat.SameTrace(got, m.Out) {
				fail(c05Class(row, c, step, got, m.Out), fmt.Sprintf("%s: output %s, the definition assigns %s to this arrival order", where, got, m.Out))
				return false
			}
			if g := rec.Grammar(); g != "" {
				fail("grammar", where+": "+g)
				return false
			}
			for i, s := range srcs {
				if m.Sub[i] && s.Subs != 1 {
					fail("source-not-subscribed-when-due", fmt.Sprintf("%s: source %d has been subscribed %d times, the definition says it is subscribed by now", where, i, s.Subs))
					return false
				}
				if !m.Sub[i] && s.Subs != 0 {
					fail("source-subscribed-too-early", fmt.Sprintf("%s: source %d is already subscribed, the definition says not yet (or never)", where, i))
					return false
				}
				if m.Rel[i] && s.LiveDests() != 0 {
					fail("source-not-released", fmt.Sprintf("%s: source %d is still subscribed, the definition says it must have been released", where, i))
					return false
				}
				if m.Sub[i] && !m.Rel[i] && s.LiveDests() != 1 {
					fail("source-released-too-early", fmt.Sprintf("%s: source %d has been released, the definition says it must still be connected", where, i))
					return false
				}
			}
			return true
		}
		ok := check(-1)
		for step, a := range c.Arrivals {
			if !ok {
				break
			}
			srcs[a.Src].Emit(a.Ev)
			m.On(a.Src, cat.ModelIn([]rt.Ev{a.Ev})[0])
			synctest.Wait()
			ok = check(step)
		}
		// external Unsubscribe at this point must release every source still connected
		select {
		case <-returned:
			if sub != nil && ok {
				sub.Unsubscribe()
				synctest.Wait()
				for i, s := range srcs {
					if s.LiveDests() != 0 {
						fail("source-not-released-after-unsubscribe", fmt.Sprintf("%s(k=%d) after [%s] then Unsubscribe: source %d is still subscribed", c.Op, c.K, arrivalsString(c.Arrivals), i))
						ok = false
					}
				}
			}
		default:
		}
		// unwind: end every source, then drop the subscription
		for round := 0; round <= c.K; round++ {
			for _, s := range srcs {
				s.Emit(rt.C())
				synctest.Wait()
			}
		}
		select {
		case <-returned:
			if sub != nil {
				sub.Unsubscribe()
			}
		default:
			if ok {
				fail("subscribe-still-blocked-after-all-sources-ended", fmt.Sprintf("%s(k=%d) [%s]: every source has completed, Subscribe is still blocked", c.Op, c.K, arrivalsString(c.Arrivals)))
			}
		}
	})
	if problem != "" && failure == nil {
		class := "panic-in-bubble"
		if strings.Contains(problem, "deadlock") {
			class = "goroutine-left-blocked"
		}
		fail(class, fmt.Sprintf("%s(k=%d) [%s]: %s", c.Op, c.K, arrivalsString(c.Arrivals), problem))
	}
	if failure != nil {
		rt.Report(t, *failure)
	}
}

// c05Class derives the failure class from the situation.
func c05Class(row *mrow, c c05Case, step int, got, want model.Trace) string {
	if step < 0 {
		return "wrong-output-at-subscription"
	}
	a := c.Arrivals[step]
	kind := map[byte]string{'N': "value", 'E': "error", 'C': "completion"}[a.Ev.K]
	// did a source complete while it still had queued/unpaired values, or others were live?
	if want.End == 0 && got.End != 0 {
		return "terminated-early-on-" + kind
	}
	if want.End != 0 && got.End == 0 {
		return "terminal-missing-on-" + kind
	}
	if want.End != got.End || want.Err != got.Err {
		return "wrong-terminal-on-" + kind
	}
	if len(got.Vals) < len(want.Vals) {
		return "value-lost-on-" + kind
	}
	if len(got.Vals) > len(want.Vals) {
		return "value-invented-on-" + kind
	}
	return "wrong-value-on-" + kind
}

// sourceScripts: up to maxVals values then an ending, for source i.
func sourceScripts(i, maxVals int, same bool) [][]rt.Ev {
	var out [][]rt.Ev
	for n := 0; n <= maxVals; n++ {
		for _, end := range []byte{'C', 'E', 0} {
			var s []rt.Ev
			for j := 1; j <= n; j++ {
				v := 10*i + j
				if same {
					v = j
				}
				s = append(s, rt.N(v))
			}
			switch end {
			case 'C':
				s = append(s, rt.C())
			case 'E':
				s = append(s, rt.E(i+1))
			}
			out = append(out, s)
		}
	}
	return out
}

// interleavings enumerates every merge of the scripts that keeps each script's order.
func interleavings(scripts [][]rt.Ev, visit func([]arrival)) {
	pos := make([]int, len(scripts))
	var cur []arrival
	var rec func()
	rec = func() {
		done := true
		for i, s := range scripts {
			if pos[i] < len(s) {
				done = false
				cur = append(cur, arrival{Src: i, Ev: s[pos[i]]})
				pos[i]++
				rec()
				pos[i]--
				cur = cur[:len(cur)-1]
			}
		}
		if done {
			visit(append([]arrival(nil), cur...))
		}
	}
	rec()
}

func c05NonTrivial(as []arrival, k int) bool {
	// >= 2 sources with >= 1 notification each, and not "source after source"
	seen := map[int]bool{}
	switches := 0
	for i, a := range as {
		seen[a.Src] = true
		if i > 0 && as[i-1].Src != a.Src {
			switches++
		}
	}
	return len(seen) >= 2 && switches >= len(seen)
}

func TestC05_ArrivalOrdersEnumerated(t *testing.T) {
	idx := 0
	for ri := range mrows {
		row := &mrows[ri]
		for _, k := range row.K {
			maxVals := 2
			if k >= 3 {
				maxVals = 1
				if row.Family == "zip" {
					maxVals = 2 // queues: a source that runs ahead by two while the others catch up
				}
			}
			if rt.Thorough() && !(k >= 3 && row.Family == "zip") {
				maxVals++
			}
			if k == 0 {
				c := c05Case{Op: row.Name, K: 0}
				c05Run(t, c)
				rt.Case(caseKey("arr", row.Name, 0), false, "family:"+row.Family, func() any { return c })
				continue
			}
			per := make([][][]rt.Ev, k)
			for i := range per {
				per[i] = sourceScripts(i, maxVals, row.Same)
			}
			choice := make([]int, k)
			var pick func(i int)
			pick = func(i int) {
				if i == k {
					scripts := make([][]rt.Ev, k)
					for j := range scripts {
						scripts[j] = per[j][choice[j]]
					}
					interleavings(scripts, func(as []arrival) {
						idx++
						if !rt.Mine(idx) {
							return
						}
						c := c05Case{Op: row.Name, K: k, Arrivals: as}
						c05Run(t, c)
						rt.Case(caseKey("arr", row.Name, k, arrivalsString(as)), c05NonTrivial(as, k), "family:"+row.Family, func() any { return c })
					})
					return
				}
				for choice[i] = range per[i] {
					pick(i + 1)
				}
			}
			pick(0)
		}
	}
	rt.Note("enumerated_scope", "every multi-source row (merge, combine-latest, concat, race, zip, take/skip-until, buffer/sample/throttle-when, sequence-equal families; creation, With, WithN and All forms) x k in {2,3} x every tuple of source scripts (<= 2 values for k=2, <= 1 for k=3; +1 in thorough; endings complete/error/open) x every interleaving, one notification to bubble quiescence at a time")
	_ = reflect.DeepEqual
}

// TestC05_ArrivalOrdersRandom: longer scripts than the exhaustive enumeration can
// afford (up to 3 values per source, three sources included), one drawn
// interleaving per case, same step oracle.
func TestC05_ArrivalOrdersRandom(t *testing.T) {
	currentT = t
	rapid.Check(t, func(rt_ *rapid.T) {
		all := len(mrows) + len(mrowsWide) + len(mrowsDressed)
		ri := rapid.IntRange(0, all-1).Draw(rt_, "row")
		var row *mrow
		if ri < len(mrows) {
			row = &mrows[ri]
		} else if ri < len(mrows)+len(mrowsWide) {
			row = &mrowsWide[ri-len(mrows)]
		} else {
			row = &mrowsDressed[ri-len(mrows)-len(mrowsWide)]
		}
		k := rapid.SampledFrom(row.K).Draw(rt_, "k")
		if k == 0 {
			k = row.K[len(row.K)-1]
		}
		per := make([][][]rt.Ev, k)
		scripts := make([][]rt.Ev, k)
		for i := range per {
			maxVals := 3
			if k >= 4 {
				maxVals = 2
			}
			per[i] = sourceScripts(i, maxVals, row.Same)
			scripts[i] = per[i][rapid.IntRange(0, len(per[i])-1).Draw(rt_, "script")]
		}
		pos := make([]int, k)
		var as []arrival
		for {
			var open []int
			for i := range scripts {
				if pos[i] < len(scripts[i]) {
					open = append(open, i)
				}
			}
			if len(open) == 0 {
				break
			}
			i := rapid.SampledFrom(open).Draw(rt_, "next")
			as = append(as, arrival{Src: i, Ev: scripts[i][pos[i]]})
			pos[i]++
		}
		c := c05Case{Op: row.Name, K: k, Arrivals: as, ItemCtxOver: rapid.IntRange(0, 3).Draw(rt_, "itemCtxOver") == 0}
		c05Run(t, c)
		class := "random:" + row.Family
		if c.ItemCtxOver {
			class += ", item contexts already cancelled"
		}
		rt.Case(caseKey("arr", row.Name, k, arrivalsString(as), c.ItemCtxOver), c05NonTrivial(as, k), class, func() any { return c })
	})
}

// mrowsWide: the higher-arity forms (every typed arity the library spells out by
// hand is separate code). Used by the random arrival orders and the concurrent
// membership check; the exhaustive enumeration stops at three sources.
var mrowsWide = []mrow{
	{Name: "MergeWith3-4", Family: "merge", K: []int{4, 5}, Model: model.Merge,
		Build: func(s []ro.Observable[int]) ro.Observable[any] {
			if len(s) == 4 {
				return anyObs(ro.MergeWith3(s[1], s[2], s[3])(s[0]))
			}
			return anyObs(ro.MergeWith4(s[1], s[2], s[3], s[4])(s[0]))
		}},
	{Name: "CombineLatest4-5", Family: "combinelatest", K: []int{4, 5}, Model: model.CombineLatest,
		Build: func(s []ro.Observable[int]) ro.Observable[any] {
			if len(s) == 4 {
				return anyObs(ro.CombineLatest4(s[0], s[1], s[2], s[3]))
			}
			return anyObs(ro.CombineLatest5(s[0], s[1], s[2], s[3], s[4]))
		}},
	{Name: "CombineLatestWith3-4", Family: "combinelatest", K: []int{4, 5}, Model: model.CombineLatest,
		Build: func(s []ro.Observable[int]) ro.Observable[any] {
			if len(s) == 4 {
				return anyObs(ro.CombineLatestWith3[int, int, int, int](s[1], s[2], s[3])(s[0]))
			}
			return anyObs(ro.CombineLatestWith4[int, int, int, int, int](s[1], s[2], s[3], s[4])(s[0]))
		}},
	{Name: "Zip4-6", Family: "zip", K: []int{4, 5, 6}, Model: model.Zip,
		Build: func(s []ro.Observable[int]) ro.Observable[any] {
			switch len(s) {
			case 4:
				return anyObs(ro.Zip4(s[0], s[1], s[2], s[3]))
			case 5:
				return anyObs(ro.Zip5(s[0], s[1], s[2], s[3], s[4]))
			}
			return anyObs(ro.Zip6(s[0], s[1], s[2], s[3], s[4], s[5]))
		}},
	{Name: "ZipWith3-5", Family: "zip", K: []int{4, 5, 6}, Model: model.Zip,
		Build: func(s []ro.Observable[int]) ro.Observable[any] {
			switch len(s) {
			case 4:
				return anyObs(ro.ZipWith3[int, int, int, int](s[1], s[2], s[3])(s[0]))
			case 5:
				return anyObs(ro.ZipWith4[int, int, int, int, int](s[1], s[2], s[3], s[4])(s[0]))
			}
			return anyObs(ro.ZipWith5[int, int, int, int, int, int](s[1], s[2], s[3], s[4], s[5])(s[0]))
		}},
	{Name: "ZipAll3-4", Family: "zip", K: []int{3, 4}, Model: model.Zip,
		Build: func(s []ro.Observable[int]) ro.Observable[any] { return anyObs(ro.ZipAll[int]()(ro.Just(s...))) }},
	{Name: "CombineLatestAll4", Family: "combinelatest", K: []int{4}, Model: model.CombineLatest,
		Build: func(s []ro.Observable[int]) ro.Observable[any] { return anyObs(ro.CombineLatestAll[int]()(ro.Just(s...))) }},
	{Name: "CombineLatestAny", Family: "combinelatest", K: []int{2, 3}, Model: model.CombineLatest,
		Build: func(s []ro.Observable[int]) ro.Observable[any] {
			as := make([]ro.Observable[any], len(s))
			for i := range s {
				as[i] = anyObs(s[i])
			}
			return anyObs(ro.CombineLatestAny(as...))
		}},
}
