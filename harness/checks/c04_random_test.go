package checks

import (
	"encoding/json"
	"fmt"
	"reflect"
	"testing"

	"github.com/samber/ro"
	"pgregory.net/rapid"
	"verifharness/cat"
	"verifharness/model"
	"verifharness/rt"
)

// ---- generators shared by several checks ----------------------------------------------

// genScript draws a legal script: up to maxLen values in [lo,hi] and an ending.
func genScript(t *rapid.T, maxLen, lo, hi int, ends []byte) []rt.Ev {
	n := rapid.IntRange(0, maxLen).Draw(t, "len")
	s := make([]rt.Ev, 0, n+1)
	for i := 0; i < n; i++ {
		s = append(s, rt.N(rapid.IntRange(lo, hi).Draw(t, "v")))
	}
	switch rapid.SampledFrom(ends).Draw(t, "end") {
	case 'C':
		s = append(s, rt.C())
	case 'E':
		s = append(s, rt.E(rapid.IntRange(1, 3).Draw(t, "err")))
	}
	return s
}

func genLink(t *rapid.T, allowWaits bool) cat.Link {
	for {
		row := cat.Rows[rapid.IntRange(0, len(cat.Rows)-1).Draw(t, "row")]
		if row.Waits && !allowWaits {
			continue
		}
		v := row.Variants[rapid.IntRange(0, len(row.Variants)-1).Draw(t, "variant")]
		p := row.Params[rapid.IntRange(0, len(row.Params)-1).Draw(t, "params")]
		return cat.Link{Op: row.Name, Variant: v, P: p}
	}
}

// buildChain composes links into a real int->int pipeline and its model.
func buildChain(links []cat.Link, env *cat.Env, menv *cat.MEnv) (func(ro.Observable[int]) ro.Observable[int], model.Operator) {
	stages := make([]opII, len(links))
	mops := make([]model.Operator, len(links))
	for i, l := range links {
		row := cat.ByName(l.Op)
		stages[i] = opII(cat.ChainStage(row.Build(l.Variant, l.P, env)))
		mops[i] = cat.ChainModel(row.Model(l.P, menv))
	}
	real := func(src ro.Observable[int]) ro.Observable[int] {
		for _, s := range stages {
			src = s(src)
		}
		return src
	}
	mod := func(s model.Obs) model.Obs { return model.Compose(s, mops...) }
	return real, mod
}

func chainName(links []cat.Link) string {
	s := ""
	for i, l := range links {
		if i > 0 {
			s += ">"
		}
		s += l.Op
	}
	return s
}

// chainDiverges reports whether some link's definition never terminates on a
// stream that has values and ends with an error (conservative).
func chainDiverges(links []cat.Link) bool {
	for _, l := range links {
		if r := cat.ByName(l.Op); r.Diverges != nil && r.Diverges(l.P, 1, 'E') {
			return true
		}
	}
	return false
}

// ---- C04 chain check -------------------------------------------------------------------

type c04Chain struct {
	Links  []cat.Link `json:"chain"`
	Script []rt.Ev    `json:"script"`
}

func init() {
	replayers["chain"] = func(t *testing.T, raw json.RawMessage) {
		var c c04Chain
		if err := json.Unmarshal(raw, &c); err != nil {
			t.Fatal(err)
		}
		c04RunChain(t, c)
	}
}

func runModelObs(o model.Obs) (tr model.Trace, blocked bool) {
	defer func() {
		if r := recover(); r != nil {
			if _, ok := r.(model.Blocked); ok {
				blocked = true
				return
			}
			panic(r)
		}
	}()
	return model.Observe(o), false
}

func c04RunChain(t rt.TB, c c04Chain) {
	env, menv := cat.NewEnv(), cat.NewMEnv(nil)
	real, mod := buildChain(c.Links, env, menv)
	want, blocked := runModelObs(mod(model.Cold(cat.ModelIn(c.Script))))
	if blocked {
		return
	}
	src := rt.NewScript("src", rt.CtorUnsafeCtx, c.Script)
	rec := rt.NewRecorder[int]()
	var pan any
	func() {
		defer func() { pan = recover() }()
		real(src.Observable()).Subscribe(rec)
	}()
	name := chainName(c.Links)
	fail := func(class, msg string) {
		rt.Report(t, rt.Failure{Property: "C04", Check: "chain", Op: name, Class: class, Msg: msg, Case: c})
	}
	if pan != nil {
		fail("panic-escaped", fmt.Sprintf("Subscribe panicked: %v", pan))
		return
	}
	got := cat.TraceOf(rec.Trace())
	if !cat.SameTrace(got, want) {
		// a chain that contains a listed single-row finding is attributed to that row
		for _, l := range c.Links {
			if rt.KnownFor("C04", "chain", l.Op, c04ChainClass(c)) != nil {
				rt.Report(t, rt.Failure{Property: "C04", Check: "chain", Op: l.Op, Class: c04ChainClass(c), Msg: "chain containing a listed finding", Case: c})
				return
			}
		}
		fail("chain-is-not-composition", fmt.Sprintf("%s over [%s]: got %s, composition of the models says %s", name, rt.ScriptString(c.Script), got, want))
	}
	if g := rec.Grammar(); g != "" {
		fail("grammar", g)
	}
}

func c04ChainClass(c c04Chain) string { return "trace-mismatch-on-empty-source" }

func TestC04_ChainsRandom(t *testing.T) { rapid.Check(t, propC04ChainsRandom) }

func propC04ChainsRandom(t *rapid.T) {
	n := rapid.IntRange(2, 5).Draw(t, "chainLen")
	links := make([]cat.Link, n)
	for i := range links {
		links[i] = genLink(t, true)
	}
	ends := []byte{'C', 'E'}
	script := genScript(t, 8, 1, 4, ends)
	if chainDiverges(links) {
		return
	}
	c := c04Chain{Links: links, Script: script}
	c04RunChain(t, c)
	rt.Case(caseKey("chain", chainName(links), fmt.Sprint(links), script), true, fmt.Sprintf("chain-len:%d", n), func() any { return c })
}

// TestC04_LongScripts: single rows over longer scripts and wider values.
func TestC04_LongScripts(t *testing.T) { rapid.Check(t, propC04LongScripts) }

func propC04LongScripts(t *rapid.T) {
	l := genLink(t, true)
	row := cat.ByName(l.Op)
	ends := []byte{'C', 'E', 0}
	if row.Waits {
		ends = []byte{'C', 'E'}
	}
	script := genScript(t, 40, -3, 6, ends)
	if row.Diverges != nil && row.Diverges(l.P, scriptValues(script), scriptEnd(script)) {
		return
	}
	c := c04Case{Op: l.Op, Variant: l.Variant, P: l.P, Script: script, Ctor: rt.CtorUnsafeCtx}
	c04Run(t, c)
	rt.Case(caseKey("model", l.Op, l.Variant, l.P, script), scriptValues(script) >= 1, "long:"+l.Op, func() any { return c })
}

// ---- Pipe / PipeN / PipeOp / PipeOpN / manual nesting ---------------------------------------

type c04Pipe struct {
	N      int     `json:"arity"`
	Coef   [][2]int `json:"affine"` // operator i maps x -> a*x + b (non-commuting)
	Script []rt.Ev `json:"script"`
}

func init() {
	replayers["pipe"] = func(t *testing.T, raw json.RawMessage) {
		var c c04Pipe
		if err := json.Unmarshal(raw, &c); err != nil {
			t.Fatal(err)
		}
		c04RunPipe(t, c)
	}
}

func c04RunPipe(t rt.TB, c c04Pipe) {
	ops := make([]opII, c.N)
	anyOps := make([]any, c.N)
	for i := range ops {
		a, b := c.Coef[i][0], c.Coef[i][1]
		ops[i] = ro.Map(func(x int) int { return a*x + b })
		anyOps[i] = ops[i]
	}
	// expected by direct computation
	var want []any
	for _, e := range c.Script {
		if e.K != 'N' {
			break
		}
		x := e.V
		for i := 0; i < c.N; i++ {
			x = c.Coef[i][0]*x + c.Coef[i][1]
		}
		want = append(want, x)
	}
	forms := map[string]func(src ro.Observable[int]) ro.Observable[int]{
		"PipeN":   func(src ro.Observable[int]) ro.Observable[int] { return pipeN(src, ops) },
		"Pipe":    func(src ro.Observable[int]) ro.Observable[int] { return ro.Pipe[int, int](src, anyOps...) },
		"PipeOpN": func(src ro.Observable[int]) ro.Observable[int] { return pipeOpN(ops)(src) },
		"PipeOp":  func(src ro.Observable[int]) ro.Observable[int] { return ro.PipeOp[int, int](anyOps...)(src) },
		"nested": func(src ro.Observable[int]) ro.Observable[int] {
			for _, o := range ops {
				src = o(src)
			}
			return src
		},
	}
	for name, f := range forms {
		src := rt.NewScript("src", rt.CtorUnsafeCtx, c.Script)
		rec := rt.NewRecorder[int]()
		var pan any
		func() {
			defer func() { pan = recover() }()
			f(src.Observable()).Subscribe(rec)
		}()
		op := fmt.Sprintf("%s%d", name, c.N)
		if pan != nil {
			rt.Report(t, rt.Failure{Property: "C04", Check: "pipe", Op: op, Class: "panic-escaped", Msg: fmt.Sprint(pan), Case: c})
			continue
		}
		tr := rec.Trace()
		if !(len(tr.Vals) == 0 && len(want) == 0) && !reflect.DeepEqual(tr.Vals, want) || tr.End != scriptEnd(c.Script) {
			rt.Report(t, rt.Failure{Property: "C04", Check: "pipe", Op: op, Class: "composition-order", Msg: fmt.Sprintf("%s with affine maps %v over [%s]: got %s want %v end %q", op, c.Coef, rt.ScriptString(c.Script), tr, want, scriptEnd(c.Script)), Case: c})
		}
	}
}

func TestC04_PipeArities(t *testing.T) {
	// every arity with a fixed family of pairwise non-commuting affine maps (exhaustive over N)
	for n := 1; n <= 25; n++ {
		coef := make([][2]int, n)
		for i := range coef {
			coef[i] = [2]int{2 + i%2, i + 1}
		}
		// keep values small: at most 12 doubling/tripling steps overflow nothing in 64 bits for 25 ops (3^25*2 < 2^63)
		c := c04Pipe{N: n, Coef: coef, Script: []rt.Ev{rt.N(1), rt.N(2), rt.C()}}
		c04RunPipe(t, c)
		rt.Case(caseKey("pipe", n, coef), true, "pipe-arity", func() any { return c })
	}
	rapid.Check(t, func(t *rapid.T) {
		n := rapid.IntRange(1, 25).Draw(t, "arity")
		coef := make([][2]int, n)
		for i := range coef {
			coef[i] = [2]int{rapid.IntRange(1, 3).Draw(t, "a"), rapid.IntRange(-5, 5).Draw(t, "b")}
		}
		c := c04Pipe{N: n, Coef: coef, Script: genScript(t, 4, -2, 3, []byte{'C', 'E', 0})}
		c04RunPipe(t, c)
		rt.Case(caseKey("pipe", n, coef, c.Script), n >= 2, "pipe-arity", func() any { return c })
	})
}
