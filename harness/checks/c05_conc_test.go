package checks

import (
	"encoding/json"
	"fmt"
	"reflect"
	"sort"
	"strings"
	"sync"
	"testing"
	"time"

	"github.com/samber/ro"
	"pgregory.net/rapid"
	"verifharness/cat"
	"verifharness/model"
	"verifharness/rt"
)

// C05, sources driven by free-running goroutines: the observed output must be the
// definition's output for SOME arrival order compatible with each source's own
// order. The set of admissible outputs is computed by running the step model
// over every interleaving of the scripts.

type c05Conc struct {
	Op      string    `json:"op"`
	Scripts [][]rt.Ev `json:"scripts"`
	Reps    int       `json:"reps"`
	DwellUs int       `json:"dwell_us"`
}

func init() {
	replayers["concurrent-arrival"] = func(t *testing.T, raw json.RawMessage) {
		var c c05Conc
		if err := json.Unmarshal(raw, &c); err != nil {
			t.Fatal(err)
		}
		c.Reps *= 20
		c05RunConc(t, c)
	}
}

func traceKey(tr model.Trace) string {
	return fmt.Sprintf("%v|%c|%s", tr.Vals, tr.End, tr.Err)
}

func admissible(row *mrow, scripts [][]rt.Ev) (map[string]bool, []model.Trace) {
	out := map[string]bool{}
	var all []model.Trace
	interleavings(scripts, func(as []arrival) {
		m := row.Model(len(scripts))
		for _, a := range as {
			m.On(a.Src, cat.ModelIn([]rt.Ev{a.Ev})[0])
		}
		tr := m.Out
		norm := model.Trace{End: tr.End, Err: tr.Err}
		for _, v := range tr.Vals {
			norm.Vals = append(norm.Vals, cat.Norm(v))
		}
		if !out[traceKey(norm)] {
			all = append(all, norm)
		}
		out[traceKey(norm)] = true
	})
	return out, all
}

// c05OneMissing: got equals some admissible output with exactly one emission removed.
func c05OneMissing(got model.Trace, adm []model.Trace) bool {
	for _, a := range adm {
		if a.End != got.End || a.Err != got.Err || len(a.Vals) != len(got.Vals)+1 {
			continue
		}
		for i := range a.Vals {
			less := model.Trace{End: a.End, Err: a.Err}
			less.Vals = append(append([]any{}, a.Vals[:i]...), a.Vals[i+1:]...)
			if traceKey(less) == traceKey(got) {
				return true
			}
		}
	}
	return false
}

func c05RunConc(t rt.TB, c c05Conc) {
	row := mrowByName(c.Op)
	k := len(c.Scripts)
	adm, admTraces := admissible(row, c.Scripts)
	for rep := 0; rep < c.Reps; rep++ {
		rt.NewSink()
		srcs := make([]*rt.ManualSrc, k)
		obss := make([]ro.Observable[int], k)
		for i := range srcs {
			srcs[i] = rt.NewManual(fmt.Sprintf("S%d", i), rt.CtorUnsafeCtx)
			obss[i] = srcs[i].Observable()
		}
		rec := rt.NewRecorder[any]()
		if c.DwellUs > 0 {
			rec.Hook = func(kd byte, _ ctxT, v any, err error) { time.Sleep(time.Duration(c.DwellUs) * time.Microsecond) }
		}
		sub := row.Build(obss).Subscribe(rec)
		var wg sync.WaitGroup
		start := make(chan struct{})
		bar := rt.NewBarrier(len(srcs))
		for i := range srcs {
			wg.Add(1)
			go func(i int) {
				defer wg.Done()
				<-start
				bar.Wait()
				for _, e := range c.Scripts[i] {
					srcs[i].Emit(e)
				}
			}(i)
		}
		close(start)
		wg.Wait()
		got := cat.TraceOf(rec.Trace())
		sub.Unsubscribe()
		if !adm[traceKey(got)] {
			keys := make([]string, 0, len(adm))
			for kx := range adm {
				keys = append(keys, kx)
			}
			sort.Strings(keys)
			if len(keys) > 6 {
				keys = append(keys[:6], fmt.Sprintf("... (%d admissible outputs)", len(adm)))
			}
			class := "output-matches-no-arrival-order"
			// One emission missing, the rest being an admissible output with the same
			// ending: a value was taken out of the operator's state under its lock and
			// the terminal notification (or a later emission followed by it) overtook it
			// before it was emitted. Tested first: when both readings fit, this is the one
			// that explains a lost value.
			if c05OneMissing(got, admTraces) {
				class = "one-emission-overtaken-by-the-terminal"
			}
			// One emission too many, the rest being an admissible output with the same
			// ending: an emission slipped in between a final flush and the completion
			// that the definition issues together with it.
			for i := range got.Vals {
				if class != "output-matches-no-arrival-order" {
					break
				}
				less := model.Trace{End: got.End, Err: got.Err}
				less.Vals = append(append([]any{}, got.Vals[:i]...), got.Vals[i+1:]...)
				if adm[traceKey(less)] {
					class = "one-emission-between-final-flush-and-completion"
					break
				}
			}
			// The emissions are those of an admissible output, in another order: two
			// values were taken out of the operator's state in order, each under the lock,
			// and emitted after unlocking by two goroutines that crossed.
			if class == "output-matches-no-arrival-order" && c05Permuted(got, admTraces) {
				class = "emissions-cross-each-other"
			}
			// BufferWhen: the same loss when the overtaken buffer was the one taken by the
			// boundary's own completion (no admissible output has it as an extra emission):
			// the delivered values are the source's values minus one contiguous run.
			if class == "output-matches-no-arrival-order" && c.Op == "BufferWhen" && got.End != 0 {
				var flat, src []int
				for _, b := range got.Vals {
					if xs, ok := b.([]any); ok {
						for _, x := range xs {
							if n, ok := x.(int); ok {
								flat = append(flat, n)
							}
						}
					}
				}
				for _, e := range c.Scripts[0] {
					if e.K == 'N' {
						src = append(src, e.V)
					}
				}
				if len(flat) < len(src) && isContiguousGap(flat, src) {
					class = "one-emission-overtaken-by-the-terminal"
				}
			}
			rt.Report(t, rt.Failure{Property: "C05", Check: "concurrent-arrival", Op: c.Op, Class: class, Msg: fmt.Sprintf("%s with sources %v driven concurrently (repetition %d): output %s is not the definition's output for any interleaving; admissible: %v", c.Op, wordsString(c.Scripts), rep, got, keys), Case: c})
			return
		}
		if g := rec.Grammar(); g != "" {
			rt.Report(t, rt.Failure{Property: "C05", Check: "concurrent-arrival", Op: c.Op, Class: "grammar", Msg: g, Case: c})
			return
		}
		for i, s := range srcs {
			if s.LiveDests() != 0 {
				rt.Report(t, rt.Failure{Property: "C05", Check: "concurrent-arrival", Op: c.Op, Class: "source-not-released-after-unsubscribe", Msg: fmt.Sprintf("%s: source %d still subscribed after Unsubscribe", c.Op, i), Case: c})
				return
			}
		}
	}
}

var c05ConcRows = []string{"Merge", "MergeAll", "MergeWith", "CombineLatestN", "CombineLatestWithN", "CombineLatestAll", "Race", "RaceWith", "ZipN", "ZipWithN", "Zip", "ZipAll", "MergeWithN", "Amb", "MergeWith3-4", "CombineLatest4-5", "CombineLatestWith3-4", "Zip4-6", "ZipWith3-5", "ZipAll3-4", "CombineLatestAny", "TakeUntil", "SkipUntil", "BufferWhen", "SampleWhen", "ThrottleWhen"}

func TestC05_ConcurrentMembership(t *testing.T) {
	reps := 25
	if rt.Thorough() {
		reps = 400
	}
	rapid.Check(t, func(t *rapid.T) {
		op := rapid.SampledFrom(c05ConcRows).Draw(t, "op")
		row := mrowByName(op)
		k := rapid.SampledFrom(row.K).Draw(t, "k")
		if k < 2 {
			k = row.K[len(row.K)-1]
		}
		if k > 4 {
			k = row.K[0] // the set of admissible outputs is enumerated: at most four sources
		}
		scripts := make([][]rt.Ev, k)
		for i := range scripts {
			n := rapid.IntRange(0, 3).Draw(t, "values")
			if k == 3 && n > 2 {
				n = 2
			}
			if k >= 4 && n > 1 {
				n = 1
			}
			for j := 1; j <= n; j++ {
				scripts[i] = append(scripts[i], rt.N(10*i+j))
			}
			switch rapid.IntRange(0, 3).Draw(t, "end") {
			case 0:
				scripts[i] = append(scripts[i], rt.C())
			case 1:
				if !((op == "TakeUntil" || op == "SkipUntil") && i == 1) {
					scripts[i] = append(scripts[i], rt.E(i+1))
				}
			}
		}
		c := c05Conc{Op: op, Scripts: scripts, Reps: reps, DwellUs: rapid.SampledFrom([]int{0, 0, 15}).Draw(t, "dwell")}
		c05RunConc(t, c)
		busy := 0
		for _, s := range scripts {
			if len(s) > 0 {
				busy++
			}
		}
		rt.Case(caseKey("concarr", op, wordsString(scripts)), busy >= 2, "concurrent:"+row.Family, func() any { return c })
	})
}

// WindowWhen with source and boundary on different goroutines, every window
// subscribed the moment it is emitted. The boundary only emits values, so the
// definition leaves one degree of freedom - where the windows are cut - and the
// validity predicate is: the windows, concatenated in order, are exactly the
// source's values; every window is closed once the source has ended.

type c05Win struct {
	N       int  `json:"n"`
	Ticks   int  `json:"ticks"`
	End     byte `json:"end"`
	DwellUs int  `json:"dwell_us"`
	Reps    int  `json:"reps"`
	Reentry bool `json:"reentrant_producer,omitempty"` // the source's next value is issued from a window's completion callback
	// EndRacing: the source goroutine issues the terminal itself, racing with the
	// boundary ticks (otherwise the terminal comes after both goroutines are done)
	EndRacing bool `json:"end_racing_with_ticks,omitempty"`
}

func init() {
	replayers["concurrent-windows"] = func(t *testing.T, raw json.RawMessage) {
		var c c05Win
		if err := json.Unmarshal(raw, &c); err != nil {
			t.Fatal(err)
		}
		c.Reps *= 20
		c05RunWin(t, c)
	}
}

func c05RunWin(t rt.TB, c c05Win) {
	for rep := 0; rep < c.Reps; rep++ {
		rt.NewSink()
		src := rt.NewManual("S0", rt.CtorUnsafeCtx)
		bnd := rt.NewManual("S1", rt.CtorUnsafeCtx)
		var mu sync.Mutex
		var wins []*rt.Recorder[int]
		next := 1
		emitNext := func() {
			mu.Lock()
			v := next
			next++
			mu.Unlock()
			if v <= c.N {
				src.Emit(rt.N(v))
			}
		}
		outer := rt.NewRecorder[ro.Observable[int]]()
		outer.Hook = func(k byte, _ ctxT, v any, err error) {
			if k != 'N' {
				return
			}
			r := rt.NewRecorder[int]()
			if c.DwellUs > 0 || c.Reentry {
				r.Hook = func(k byte, _ ctxT, v any, err error) {
					if c.DwellUs > 0 {
						time.Sleep(time.Duration(c.DwellUs) * time.Microsecond)
					}
					if c.Reentry && k == 'C' {
						emitNext() // a producer driven by the closing of a window
					}
				}
			}
			mu.Lock()
			wins = append(wins, r)
			mu.Unlock()
			v.(ro.Observable[int]).Subscribe(r)
		}
		sub := ro.WindowWhen[int, int](bnd.Observable())(src.Observable()).Subscribe(outer)
		if c.Reentry {
			// one goroutine: each tick closes a window, whose completion callback
			// issues the source's next value - it belongs to the window just opened
			for i := 0; i < c.Ticks; i++ {
				emitNext()
				bnd.Emit(rt.N(100 + i))
			}
			for {
				mu.Lock()
				done := next > c.N
				mu.Unlock()
				if done {
					break
				}
				emitNext()
			}
		} else {
			var wg sync.WaitGroup
			start := make(chan struct{})
			wg.Add(2)
			go func() {
				defer wg.Done()
				<-start
				for i := 1; i <= c.N; i++ {
					emitNext()
				}
				if c.EndRacing {
					switch c.End {
					case 'C':
						src.Emit(rt.C())
					case 'E':
						src.Emit(rt.E(1))
					}
				}
			}()
			go func() {
				defer wg.Done()
				<-start
				for i := 0; i < c.Ticks; i++ {
					bnd.Emit(rt.N(100 + i))
				}
			}()
			close(start)
			wg.Wait()
		}
		if !c.EndRacing || c.Reentry {
			switch c.End {
			case 'C':
				src.Emit(rt.C())
			case 'E':
				src.Emit(rt.E(1))
			}
		}
		mu.Lock()
		ws := append([]*rt.Recorder[int](nil), wins...)
		mu.Unlock()
		var flat []int
		desc := ""
		for _, w := range ws {
			tr := w.Trace()
			desc += fmt.Sprint(tr.Vals)
			for _, v := range tr.Vals {
				flat = append(flat, v.(int))
			}
		}
		want := seqInts(c.N + 1)[1:]
		where := fmt.Sprintf("WindowWhen, source 1..%d then %c and boundary (%d ticks) (repetition %d; producer driven by window completions on one goroutine: %v, otherwise two goroutines): windows %s", c.N, c.End, c.Ticks, rep, c.Reentry, desc)
		if !reflect.DeepEqual(append([]int{}, flat...), append([]int{}, want...)) {
			class := "values-reordered-or-duplicated-across-windows"
			if isSubsequence(flat, want) {
				class = "value-lost-at-a-window-switch"
			}
			if c.Reentry {
				class = "value-issued-from-a-window-completion-lost"
			}
			rt.Report(t, rt.Failure{Property: "C05", Check: "concurrent-windows", Op: "WindowWhen", Class: class, Msg: where + ": concatenated they are not the source's values", Case: c})
			sub.Unsubscribe()
			return
		}
		if c.End != 0 {
			if outer.Trace().End == 0 {
				rt.Report(t, rt.Failure{Property: "C05", Check: "concurrent-windows", Op: "WindowWhen", Class: "terminal-not-propagated", Msg: where + ": the source ended, the stream of windows did not", Case: c})
				sub.Unsubscribe()
				return
			}
			for i, w := range ws {
				if w.Trace().End == 0 {
					rt.Report(t, rt.Failure{Property: "C05", Check: "concurrent-windows", Op: "WindowWhen", Class: "window-left-open", Msg: fmt.Sprintf("%s: window #%d is still open after the source ended", where, i), Case: c})
					sub.Unsubscribe()
					return
				}
			}
		}
		for i, w := range ws {
			if g := w.Grammar(); g != "" {
				rt.Report(t, rt.Failure{Property: "C05", Check: "concurrent-windows", Op: "WindowWhen", Class: "grammar", Msg: fmt.Sprintf("%s: window #%d: %s", where, i, g), Case: c})
				sub.Unsubscribe()
				return
			}
		}
		sub.Unsubscribe()
	}
}

func TestC05_ConcurrentWindows(t *testing.T) {
	reps := 20
	if rt.Thorough() {
		reps = 300
	}
	rapid.Check(t, func(t *rapid.T) {
		c := c05Win{N: rapid.IntRange(1, 6).Draw(t, "n"), Ticks: rapid.IntRange(1, 4).Draw(t, "ticks"), End: rapid.SampledFrom([]byte{'C', 'E', 0}).Draw(t, "end"),
			DwellUs: rapid.SampledFrom([]int{0, 0, 20}).Draw(t, "dwell"), Reentry: rapid.IntRange(0, 3).Draw(t, "reentry") == 0, Reps: reps}
		c.EndRacing = !c.Reentry && c.End != 0 && rapid.Bool().Draw(t, "endRacing")
		c05RunWin(t, c)
		rt.Case(caseKey("concwin", c.N, c.Ticks, c.End, c.DwellUs, c.Reentry, c.EndRacing), c.N >= 2, "concurrent:windows", func() any { return c })
	})
}

func isSubsequence(sub, full []int) bool {
	j := 0
	for _, v := range full {
		if j < len(sub) && sub[j] == v {
			j++
		}
	}
	return j == len(sub)
}

// isContiguousGap: sub is full with exactly one contiguous, non-empty run removed.
func isContiguousGap(sub, full []int) bool {
	i := 0
	for i < len(sub) && sub[i] == full[i] {
		i++
	}
	gap := len(full) - len(sub)
	for j := i; j < len(sub); j++ {
		if sub[j] != full[j+gap] {
			return false
		}
	}
	return gap > 0
}

// c05Permuted: got has the ending and, as a multiset, the emissions of an admissible output.
func c05Permuted(got model.Trace, adm []model.Trace) bool {
	key := func(vs []any) string {
		ks := make([]string, len(vs))
		for i, v := range vs {
			ks[i] = fmt.Sprint(v)
		}
		sort.Strings(ks)
		return strings.Join(ks, "|")
	}
	g := key(got.Vals)
	for _, a := range adm {
		if a.End == got.End && a.Err == got.Err && len(a.Vals) == len(got.Vals) && key(a.Vals) == g {
			return true
		}
	}
	return false
}
