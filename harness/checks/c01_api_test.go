package checks

import (
	"encoding/json"
	"fmt"
	"testing"

	"github.com/samber/ro"
	"verifharness/rt"
)

// C01 for the remaining ways the API hands out something that receives
// notifications: the subscriber constructors used directly (every word, illegal
// suffixes included, pushed into the subscriber), the partial observers (OnNext /
// OnError / OnComplete and their WithContext forms), and subjects reached through
// AsObserver / AsObservable / NewSubject.

type c01API struct {
	Kind string  `json:"kind"`
	Word []rt.Ev `json:"word"`
}

func init() {
	replayers["grammar-api"] = func(t *testing.T, raw json.RawMessage) {
		var c c01API
		if err := json.Unmarshal(raw, &c); err != nil {
			t.Fatal(err)
		}
		c01APIRun(t, c)
	}
}

var c01APIKinds = []string{"NewSubscriber", "NewSafeSubscriber", "NewUnsafeSubscriber", "NewEventuallySafeSubscriber", "OnNext", "OnNextWithContext", "OnError", "OnErrorWithContext", "OnComplete", "OnCompleteWithContext",
	"NewSubject", "PublishSubject.AsObserver/AsObservable", "ReplaySubject.AsObserver/AsObservable", "BehaviorSubject.AsObserver/AsObservable", "AsyncSubject.AsObserver/AsObservable", "UnicastSubject.AsObserver/AsObservable"}

func push(o ro.Observer[int], w []rt.Ev) {
	for _, e := range w {
		switch e.K {
		case 'N':
			o.Next(e.V)
		case 'E':
			o.Error(rt.Err(e.V))
		case 'C':
			o.Complete()
		}
	}
}

func c01APIRun(t rt.TB, c c01API) {
	fail := func(class, msg string) {
		rt.Report(t, rt.Failure{Property: "C01", Check: "grammar-api", Op: c.Kind, Class: class, Msg: msg, Case: c})
	}
	rt.NewSink()
	rec := rt.NewRecorder[int]()
	var pan any
	// what a well-formed receiver shows for this word: everything up to and including the first terminal
	var want []string
	for _, e := range c.Word {
		want = append(want, e.String())
		if e.K != 'N' {
			break
		}
	}
	seen := func() []string {
		var out []string
		for _, r := range rec.Recs() {
			switch r.K {
			case 'N':
				out = append(out, fmt.Sprintf("N%v", r.V))
			case 'E':
				out = append(out, fmt.Sprintf("E%d", rt.ErrID(r.Err)))
			default:
				out = append(out, "C")
			}
		}
		return out
	}
	filter := func(keep byte) []string {
		var out []string
		for _, s := range want {
			if s[0] == keep {
				out = append(out, s)
			}
		}
		return out
	}
	expect := want
	func() {
		defer func() { pan = recover() }()
		switch c.Kind {
		case "NewSubscriber":
			push(ro.NewSubscriber[int](rec), c.Word)
		case "NewSafeSubscriber":
			push(ro.NewSafeSubscriber[int](rec), c.Word)
		case "NewUnsafeSubscriber":
			push(ro.NewUnsafeSubscriber[int](rec), c.Word)
		case "NewEventuallySafeSubscriber":
			push(ro.NewEventuallySafeSubscriber[int](rec), c.Word)
		case "OnNext":
			push(ro.OnNext(func(v int) { rec.Next(v) }), c.Word)
			expect = filter('N')
		case "OnNextWithContext":
			push(ro.OnNextWithContext(func(cx ctxT, v int) { rec.NextWithContext(cx, v) }), c.Word)
			expect = filter('N')
		case "OnError":
			push(ro.OnError[int](func(err error) { rec.Error(err) }), c.Word)
			expect = filter('E')
		case "OnErrorWithContext":
			push(ro.OnErrorWithContext[int](func(cx ctxT, err error) { rec.ErrorWithContext(cx, err) }), c.Word)
			expect = filter('E')
		case "OnComplete":
			push(ro.OnComplete[int](func() { rec.Complete() }), c.Word)
			expect = filter('C')
		case "OnCompleteWithContext":
			push(ro.OnCompleteWithContext[int](func(cx ctxT) { rec.CompleteWithContext(cx) }), c.Word)
			expect = filter('C')
		default:
			var s ro.Subject[int]
			switch c.Kind {
			case "NewSubject":
				s = ro.NewSubject[int]()
			case "PublishSubject.AsObserver/AsObservable":
				s = ro.NewPublishSubject[int]()
			case "ReplaySubject.AsObserver/AsObservable":
				s = ro.NewReplaySubject[int](2)
			case "BehaviorSubject.AsObserver/AsObservable":
				s = ro.NewBehaviorSubject[int](behaviorInitial)
				expect = append([]string{fmt.Sprintf("N%d", behaviorInitial)}, want...)
			case "AsyncSubject.AsObserver/AsObservable":
				s = ro.NewAsyncSubject[int]()
				expect = nil
				last, has := 0, false
				for _, x := range want {
					switch x[0] {
					case 'N':
						fmt.Sscanf(x[1:], "%d", &last)
						has = true
					case 'C':
						if has {
							expect = append(expect, fmt.Sprintf("N%d", last))
						}
						expect = append(expect, "C")
					default:
						expect = append(expect, x)
					}
				}
			case "UnicastSubject.AsObserver/AsObservable":
				s = ro.NewUnicastSubject[int](-1)
			}
			s.AsObservable().Subscribe(rec)
			push(s.AsObserver(), c.Word)
		}
	}()
	desc := fmt.Sprintf("%s fed [%s]", c.Kind, rt.ScriptString(c.Word))
	if pan != nil {
		fail("panic-escaped", fmt.Sprintf("%s: %v", desc, pan))
		return
	}
	if g := rec.Grammar(); g != "" && c.Kind[:2] != "On" {
		fail("delivery-after-terminal", desc+": "+g)
		return
	}
	if got := seen(); fmt.Sprint(got) != fmt.Sprint(expect) {
		fail("wrong-deliveries", fmt.Sprintf("%s: the callbacks saw %v, want %v", desc, got, expect))
	}
}

func TestC01_RemainingAPI(t *testing.T) {
	maxLen := 4
	if rt.Thorough() {
		maxLen = 5
	}
	idx := 0
	for _, kind := range c01APIKinds {
		for _, w := range allWords(maxLen) {
			idx++
			if !rt.Mine(idx) {
				continue
			}
			c := c01API{Kind: kind, Word: w}
			c01APIRun(t, c)
			rt.Case(caseKey("api", kind, w), lateCount(w) > 0, "api:"+kind, func() any { return c })
		}
	}
}
