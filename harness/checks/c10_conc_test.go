package checks

import (
	"encoding/json"
	"fmt"
	"reflect"
	"sort"
	"strings"
	"sync"
	"testing"
	"time"

	"github.com/anishathalye/porcupine"
	"github.com/samber/ro"
	"pgregory.net/rapid"
	"verifharness/model"
	"verifharness/rt"
)

// Concurrent histories of subject operations, checked for linearizability
// against the sequential definition (porcupine is the history oracle).

type c10Conc struct {
	Subject subjectKind `json:"subject"`
	Threads [][]sop     `json:"threads"`
	Pre     []sop       `json:"prefix"`           // executed sequentially before the threads start
	Post    []sop       `json:"suffix,omitempty"` // executed sequentially after every thread has finished (late subscribers)
	Reps    int         `json:"reps"`
	DwellUs int         `json:"dwell_us"`
}

func init() {
	replayers["subject-concurrent"] = func(t *testing.T, raw json.RawMessage) {
		var c c10Conc
		if err := json.Unmarshal(raw, &c); err != nil {
			t.Fatal(err)
		}
		c.Reps *= 20
		c10RunConc(t, c)
	}
}

type linIn struct {
	Op   sop
	Read bool
}

func applySop(m *model.Subject, o sop) {
	switch o.K {
	case 'N':
		m.Next(o.V)
	case 'E':
		m.Error("e1")
	case 'C':
		m.Complete()
	case 'S':
		m.Subscribe(o.Id)
	case 'U':
		m.Unsubscribe(o.Id)
	}
}

// linState: the sequential subject plus what is needed to judge a subscriber
// that unsubscribed. Unsubscribe acts on its own subscriber at the granularity of
// notifications (C06: no notification whose emission began after it is delivered):
// when one call delivers several notifications to a subscriber (async's Complete =
// last value + completion, a replayed buffer, replay + terminal for a late
// subscriber), an Unsubscribe of that subscriber may cut that delivery short.
type linState struct {
	S     *model.Subject
	Unsub map[int]bool
	Burst map[int]int // index in the subscriber's log where the last call's deliveries start
	k     string
}

func (l *linState) clone() *linState {
	n := &linState{S: l.S.Clone(), Unsub: map[int]bool{}, Burst: map[int]int{}}
	for k, v := range l.Unsub {
		n.Unsub[k] = v
	}
	for k, v := range l.Burst {
		n.Burst[k] = v
	}
	return n
}

// key: the subject's own key plus, per subscriber, whether it unsubscribed and the
// size of its last delivery when that was more than one notification (the only
// case in which Burst says something the log does not). Computed once per state.
func (l *linState) key() string {
	if l.k != "" {
		return l.k
	}
	ids := make([]int, 0, len(l.S.Logs))
	for id := range l.S.Logs {
		ids = append(ids, id)
	}
	sort.Ints(ids)
	var b strings.Builder
	b.WriteString(l.S.Key())
	for _, id := range ids {
		if l.Unsub[id] {
			fmt.Fprintf(&b, "|u%d", id)
		}
		if n := len(l.S.Logs[id]) - l.Burst[id]; n > 1 {
			fmt.Fprintf(&b, "|b%d:%d", id, n)
		}
	}
	l.k = b.String()
	return l.k
}

func c10Model(k subjectKind) porcupine.Model {
	return porcupine.Model{
		Init: func() interface{} {
			m := model.NewSubject(k.Kind, k.Size, behaviorInitial)
			// the late-subscriber rule of unicast is judged by the sequential check
			// (listed finding); here the subject is taken as it is on that point
			m.LegacyUnicastLate = true
			return &linState{S: m, Unsub: map[int]bool{}, Burst: map[int]int{}}
		},
		Step: func(state, input, output interface{}) (bool, interface{}) {
			st := state.(*linState).clone()
			in := input.(linIn)
			if in.Read {
				got := output.([]model.Notif)
				want := st.S.Logs[in.Op.Id]
				if len(got) == 0 && len(want) == 0 {
					return true, st
				}
				if reflect.DeepEqual(got, want) {
					return true, st
				}
				// a subscriber that unsubscribed: its last multi-notification delivery may be cut
				if st.Unsub[in.Op.Id] && len(got) < len(want) && len(got) >= st.Burst[in.Op.Id] && (len(got) == 0 || reflect.DeepEqual(got, want[:len(got)])) {
					return true, st
				}
				return false, st
			}
			before := map[int]int{}
			for id, l := range st.S.Logs {
				before[id] = len(l)
			}
			applySop(st.S, in.Op)
			for id, l := range st.S.Logs {
				if len(l) > before[id] {
					st.Burst[id] = before[id]
				}
			}
			if in.Op.K == 'U' {
				st.Unsub[in.Op.Id] = true
			}
			return true, st
		},
		Equal: func(a, b interface{}) bool { return a.(*linState).key() == b.(*linState).key() },
		DescribeOperation: func(input, output interface{}) string {
			in := input.(linIn)
			if in.Read {
				return fmt.Sprintf("log(%d)=%v", in.Op.Id, output)
			}
			return in.Op.String()
		},
	}
}

func c10RunConc(t rt.TB, c c10Conc) {
	name := c.Subject.String()
	pm := c10Model(c.Subject)
	for rep := 0; rep < c.Reps; rep++ {
		rt.NewSink()
		s := c.Subject.New()
		var mu sync.Mutex
		recs := map[int]*rt.Recorder[int]{}
		subs := map[int]ro.Subscription{}
		var history []porcupine.Operation
		do := func(client int, o sop) {
			var rec *rt.Recorder[int]
			if o.K == 'S' {
				rec = rt.NewRecorder[int]()
				if c.DwellUs > 0 {
					rec.Hook = func(k byte, _ ctxT, v any, err error) {
						if k == 'N' {
							time.Sleep(time.Duration(c.DwellUs) * time.Microsecond)
						}
					}
				}
				mu.Lock()
				recs[o.Id] = rec
				mu.Unlock()
			}
			call := rt.Tick()
			func() {
				defer func() { recover() }()
				switch o.K {
				case 'N':
					s.Next(o.V)
				case 'E':
					s.Error(rt.Err(1))
				case 'C':
					s.Complete()
				case 'S':
					sub := s.Subscribe(rec)
					mu.Lock()
					subs[o.Id] = sub
					mu.Unlock()
				case 'U':
					mu.Lock()
					sub := subs[o.Id]
					mu.Unlock()
					if sub != nil {
						sub.Unsubscribe()
					}
				}
			}()
			ret := rt.Tick()
			mu.Lock()
			history = append(history, porcupine.Operation{ClientId: client, Input: linIn{Op: o}, Call: call, Output: nil, Return: ret})
			mu.Unlock()
		}
		for _, o := range c.Pre {
			do(0, o)
		}
		var wg sync.WaitGroup
		bar := rt.NewBarrier(len(c.Threads))
		start := make(chan struct{})
		for ti, th := range c.Threads {
			wg.Add(1)
			go func(ti int, th []sop) {
				defer wg.Done()
				<-start
				// spin barrier: the threads leave within nanoseconds of each other (the
				// windows of interest are a few instructions wide)
				bar.Wait()
				for _, o := range th {
					do(ti+1, o)
				}
			}(ti, th)
		}
		close(start)
		wg.Wait()
		for _, o := range c.Post {
			do(0, o)
		}
		// quiescence: every call has returned; read every subscriber's log
		for id, r := range recs {
			call := rt.Tick()
			log := notifsOf(r)
			history = append(history, porcupine.Operation{ClientId: 100 + id, Input: linIn{Op: sop{K: 'R', Id: id}, Read: true}, Call: call, Output: log, Return: rt.Tick()})
			if g := r.Grammar(); g != "" {
				rt.Report(t, rt.Failure{Property: "C10", Check: "subject-concurrent", Op: name, Class: "grammar", Msg: g, Case: c})
				return
			}
			if o := r.Overlap(); o != "" {
				rt.Report(t, rt.Failure{Property: "C10", Check: "subject-concurrent", Op: name, Class: "overlap", Msg: o, Case: c})
				return
			}
		}
		res := porcupine.CheckOperationsTimeout(pm, history, 5*time.Second)
		if res == porcupine.Illegal {
			logs := map[int][]model.Notif{}
			for id, r := range recs {
				logs[id] = notifsOf(r)
			}
			class := "not-linearizable"
			for _, th := range c.Threads {
				for _, o := range th {
					if o.K == 'U' {
						// an Unsubscribe races with the publications
						class = "not-linearizable-with-concurrent-unsubscribe"
					}
				}
			}
			if class == "not-linearizable-with-concurrent-unsubscribe" && c.Subject.Kind != "unicast" && c10PerSubscriberOK(pm, history, logs) {
				// Every subscriber taken alone has a linearizable history and all of them
				// agree on the order of the values: what fails is only the atomicity of one
				// broadcast ACROSS subscribers - an Unsubscribe took effect on its own
				// subscriber while the subject was half-way through delivering one call.
				class = "broadcast-not-atomic-under-concurrent-unsubscribe"
			}
			rt.Report(t, rt.Failure{Property: "C10", Check: "subject-concurrent", Op: name, Class: class, Msg: fmt.Sprintf("%s: prefix [%s], threads %v (repetition %d): no sequential order of the calls compatible with real time explains the subscribers' logs %v", name, opsString(c.Pre), threadsString(c.Threads), rep, logs), Case: c})
			return
		}
		if res == porcupine.Unknown {
			rt.Class("linearizability-search-timeout", 1)
		}
	}
}

func threadsString(ths [][]sop) []string {
	out := make([]string, len(ths))
	for i, th := range ths {
		out[i] = opsString(th)
	}
	return out
}

func TestC10_ConcurrentLinearizable(t *testing.T) {
	reps := 8
	if rt.Thorough() {
		reps = 60
	}
	rapid.Check(t, func(t *rapid.T) {
		k := subjectKinds[rapid.IntRange(0, len(subjectKinds)-1).Draw(t, "kind")]
		nth := rapid.IntRange(2, 4).Draw(t, "threads")
		nextId := 0
		budget := 14
		// a sequential prefix fills buffers and installs early subscribers
		var pre []sop
		for i := rapid.IntRange(0, 3).Draw(t, "prefix"); i > 0 && budget > 0; i-- {
			if rapid.Bool().Draw(t, "preSub") && k.Kind != "unicast" {
				pre = append(pre, sop{K: 'S', Id: nextId})
				nextId++
			} else {
				pre = append(pre, sop{K: 'N', V: 10 + i})
			}
			budget--
		}
		val := 1
		threads := make([][]sop, nth)
		for ti := range threads {
			n := rapid.IntRange(1, 4).Draw(t, "len")
			var mine []int
			for j := 0; j < n && budget > 0; j++ {
				budget--
				switch rapid.IntRange(0, 9).Draw(t, "op") {
				case 0, 1, 2, 3, 4:
					threads[ti] = append(threads[ti], sop{K: 'N', V: val})
					val++
				case 5:
					if rapid.IntRange(0, 2).Draw(t, "t") == 0 {
						threads[ti] = append(threads[ti], sop{K: 'E'})
					} else {
						threads[ti] = append(threads[ti], sop{K: 'C'})
					}
				case 6, 7, 8:
					if nextId < 5 {
						threads[ti] = append(threads[ti], sop{K: 'S', Id: nextId})
						mine = append(mine, nextId)
						nextId++
					}
				default:
					if len(mine) > 0 {
						threads[ti] = append(threads[ti], sop{K: 'U', Id: mine[0]})
						mine = mine[1:]
					}
				}
			}
		}
		c := c10Conc{Subject: k, Threads: threads, Pre: pre, Reps: reps, DwellUs: rapid.SampledFrom([]int{0, 0, 20}).Draw(t, "dwell")}
		c10RunConc(t, c)
		busy := 0
		for _, th := range threads {
			if len(th) > 0 {
				busy++
			}
		}
		rt.Case(caseKey("conc", k, opsString(pre), threadsString(threads)), busy >= 2, "concurrent:"+k.Kind, func() any { return c })
	})
}

// c10PerSubscriberOK: the history projected on each subscriber (all publications,
// that subscriber's Subscribe / Unsubscribe and its log) is linearizable, and any two
// subscribers saw their common values in the same order.
func c10PerSubscriberOK(pm porcupine.Model, history []porcupine.Operation, logs map[int][]model.Notif) bool {
	for id := range logs {
		var h []porcupine.Operation
		for _, op := range history {
			in := op.Input.(linIn)
			switch {
			case in.Read:
				if in.Op.Id == id {
					h = append(h, op)
				}
			case in.Op.K == 'S' || in.Op.K == 'U':
				if in.Op.Id == id {
					h = append(h, op)
				}
			default:
				h = append(h, op)
			}
		}
		if porcupine.CheckOperationsTimeout(pm, h, 5*time.Second) == porcupine.Illegal {
			return false
		}
	}
	pos := map[int]map[string]int{}
	for id, l := range logs {
		pos[id] = map[string]int{}
		for i, n := range l {
			pos[id][fmt.Sprint(n)] = i
		}
	}
	for a := range logs {
		for b := range logs {
			if a >= b {
				continue
			}
			var common []string
			for _, n := range logs[a] {
				if _, ok := pos[b][fmt.Sprint(n)]; ok {
					common = append(common, fmt.Sprint(n))
				}
			}
			for i := 1; i < len(common); i++ {
				if pos[b][common[i-1]] > pos[b][common[i]] {
					return false
				}
			}
		}
	}
	return true
}

// TestC10_TerminalRaces: the narrowest window of a subject - a publication racing
// with the terminal call - followed by a LATE subscriber, which sees what the
// subject has stored: every subscriber, early or late, must be explained by one
// order of the racing calls.
func TestC10_TerminalRaces(t *testing.T) {
	reps := 1500
	if rt.Thorough() {
		reps = 40000
	}
	reps = reps/rt.ShardCount() + 1
	idx := 0
	for _, k := range subjectKinds {
		for _, threads := range [][][]sop{
			{{{K: 'N', V: 2}}, {{K: 'C'}}},
			{{{K: 'N', V: 2}}, {{K: 'E'}}},
			{{{K: 'N', V: 2}, {K: 'N', V: 3}}, {{K: 'C'}}},
			{{{K: 'N', V: 2}}, {{K: 'C'}}, {{K: 'E'}}},
			{{{K: 'N', V: 2}}, {{K: 'N', V: 3}}, {{K: 'C'}}},
		} {
			idx++
			pre := []sop{{K: 'S', Id: 0}, {K: 'N', V: 1}}
			if k.Kind == "unicast" {
				pre = []sop{{K: 'N', V: 1}}
			}
			c := c10Conc{Subject: k, Pre: pre, Threads: threads, Post: []sop{{K: 'S', Id: 7}, {K: 'S', Id: 8}}, Reps: reps}
			c10RunConc(t, c)
			rt.Case(caseKey("termrace", k, threadsString(threads)), true, "terminal-race:"+k.Kind, func() any { return c })
		}
	}
}
