package checks

import (
	"fmt"
	"runtime"
	"strings"
	"testing"
	"testing/synctest"
	"time"
)

// bubble runs f inside a testing/synctest bubble. It returns a description when
// the bubble ended with goroutines still durably blocked (the runtime's
// "deadlock: main bubble goroutine has exited but blocked goroutines remain"),
// or when f panicked.
func bubble(t *testing.T, f func()) (problem string) {
	res := make(chan string, 1)
	go func() {
		defer func() {
			if r := recover(); r != nil {
				res <- fmt.Sprint(r)
				return
			}
			res <- ""
		}()
		synctest.Test(t, func(st *testing.T) { f() })
	}()
	select {
	case r := <-res:
		return r
	case <-time.After(bubbleWatchdog):
		// The bubble neither finished nor deadlocked durably: some goroutine waits
		// on something synctest does not treat as durably blocking - in practice a
		// sync.Mutex that is never released (a lock-order or re-entrancy deadlock in
		// the code under test). The goroutines of this bubble are abandoned.
		return "stalled: the bubble made no progress for " + bubbleWatchdog.String() + " of real time (mutex deadlock?)\n" + blockedRoStacks()
	}
}

// bubbleWatchdog is generous: a bubble normally finishes within microseconds.
var bubbleWatchdog = 8 * time.Second

// blockedRoStacks returns the ro frames of goroutines currently parked (used to
// describe a leak before the bubble ends).
func blockedRoStacks() string {
	buf := make([]byte, 1<<20)
	n := runtime.Stack(buf, true)
	var out []string
	for _, g := range strings.Split(string(buf[:n]), "\n\n") {
		if strings.Contains(g, "github.com/samber/ro") && !strings.Contains(g, "blockedRoStacks") {
			lines := strings.Split(g, "\n")
			keep := []string{lines[0]}
			for _, l := range lines[1:] {
				if strings.Contains(l, "github.com/samber/ro") && !strings.HasPrefix(l, "\t") {
					keep = append(keep, "  "+strings.TrimSpace(l))
				}
			}
			if len(keep) > 6 {
				keep = keep[:6]
			}
			out = append(out, strings.Join(keep, "\n"))
		}
	}
	return strings.Join(out, "\n")
}

// rapidT lets bubble-based case runners be called from a rapid property: the
// bubble needs the real *testing.T of the enclosing test.
var currentT *testing.T
