package checks

import (
	"fmt"
	"runtime"
	"strings"
	"testing"
	"testing/synctest"
)

// bubble runs f inside a testing/synctest bubble. It returns a description when
// the bubble ended with goroutines still durably blocked (the runtime's
// "deadlock: main bubble goroutine has exited but blocked goroutines remain"),
// or when f panicked.
func bubble(t *testing.T, f func()) (problem string) {
	res := make(chan string, 1)
	go func() {
		defer func() {
			if r := recover(); r != nil {
				res <- fmt.Sprint(r)
				return
			}
			res <- ""
		}()
		synctest.Test(t, func(st *testing.T) { f() })
	}()
	return <-res
}

// blockedRoStacks returns the ro frames of goroutines currently parked (used to
// describe a leak before the bubble ends).
func blockedRoStacks() string {
	buf := make([]byte, 1<<20)
	n := runtime.Stack(buf, true)
	var out []string
	for _, g := range strings.Split(string(buf[:n]), "\n\n") {
		if strings.Contains(g, "github.com/samber/ro") && !strings.Contains(g, "blockedRoStacks") {
			lines := strings.Split(g, "\n")
			keep := []string{lines[0]}
			for _, l := range lines[1:] {
				if strings.Contains(l, "github.com/samber/ro") && !strings.HasPrefix(l, "\t") {
					keep = append(keep, "  "+strings.TrimSpace(l))
				}
			}
			if len(keep) > 6 {
				keep = keep[:6]
			}
			out = append(out, strings.Join(keep, "\n"))
		}
	}
	return strings.Join(out, "\n")
}
