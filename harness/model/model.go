// Package model holds the reference models. It imports nothing from ro.
//
// An observable is modelled denotationally as a function that, when subscribed,
// pushes notifications into a sink (synchronously for cold scripted sources, or
// later when the harness drives a manual source). An operator is a function from
// observables to observables. Most operators are per-subscription step machines
// (Op) lifted with Lift; the re-subscribing ones are written directly.
package model

import "fmt"

// Sink receives notifications.
type Sink interface {
	Emit(v any)
	Error(e string)
	Complete()
	Closed() bool
}

// Obs is a model observable: subscribing = calling it with the destination.
type Obs func(down Sink)

// Operator maps observables to observables.
type Operator func(Obs) Obs

// Op is the per-subscription step machine of a single-input operator.
type Op interface {
	Next(v any, o Sink)
	Error(e string, o Sink)
	Complete(o Sink)
}

// Starter is implemented by step machines that act at subscription time,
// before the source is subscribed (StartWith, TapOnSubscribe...).
type Starter interface{ Start(o Sink) }

// Throw is what a model callback panics with when a fault is injected.
type Throw struct{ Key string }

// SpecFaults selects what a throw inside an operator's error / completion
// callback means. false: what an observer with callbacks does today - the fault
// goes to the unhandled hook and nothing is forwarded. true: what the property
// (C07) states - the failure reaches the subscriber as an Error notification.
var SpecFaults bool

// Unhandled collects faults that the definition routes to the unhandled-error
// hook (set per run by the harness; may be nil).
var Unhandled func(key string)

func unhandled(key string) {
	if Unhandled != nil {
		Unhandled(key)
	}
}

// Trace is a finite observation: values then an ending.
type Trace struct {
	Vals []any
	End  byte   // 0 = open, 'C', 'E'
	Err  string // error key when End == 'E'
}

func (t Trace) String() string {
	switch t.End {
	case 'C':
		return fmt.Sprintf("%v C", t.Vals)
	case 'E':
		return fmt.Sprintf("%v E(%s)", t.Vals, t.Err)
	}
	return fmt.Sprintf("%v open", t.Vals)
}

// Collector is a terminal sink that records a trace.
type Collector struct{ T Trace }

func (c *Collector) Emit(v any) {
	if c.T.End == 0 {
		c.T.Vals = append(c.T.Vals, v)
	}
}
func (c *Collector) Error(e string) {
	if c.T.End == 0 {
		c.T.End, c.T.Err = 'E', e
	}
}
func (c *Collector) Complete() {
	if c.T.End == 0 {
		c.T.End = 'C'
	}
}
func (c *Collector) Closed() bool { return c.T.End != 0 }

// subscriber is the guard every subscription gets: nothing passes after the
// first terminal.
type subscriber struct {
	down   Sink
	status byte
}

func (s *subscriber) Emit(v any) {
	if s.status == 0 {
		s.down.Emit(v)
	}
}
func (s *subscriber) Error(e string) {
	if s.status == 0 {
		s.status = 'E'
		s.down.Error(e)
	}
}
func (s *subscriber) Complete() {
	if s.status == 0 {
		s.status = 'C'
		s.down.Complete()
	}
}
func (s *subscriber) Closed() bool { return s.status != 0 }

// Close marks the subscriber closed without a notification (Unsubscribe).
func (s *subscriber) Close() {
	if s.status == 0 {
		s.status = 'U'
	}
}

// Guard wraps a raw subscribe function into an observable with subscriber
// semantics; a throw inside the subscribe function becomes an Error.
func Guard(f func(down Sink)) Obs {
	return func(down Sink) {
		sub := &subscriber{down: down}
		defer func() {
			if r := recover(); r != nil {
				if th, ok := r.(Throw); ok {
					sub.Error(th.Key)
					return
				}
				panic(r)
			}
		}()
		f(sub)
	}
}

// observer runs an Op's callbacks the way an observer with callbacks does: its
// own status guard, and a throw in the Next callback is handed to the error
// callback without closing the observer; a throw in the error / completion
// callback goes to the unhandled hook.
type observer struct {
	op     Op
	down   Sink
	status byte
}

func (s *observer) Emit(v any) {
	if s.status != 0 {
		return
	}
	defer func() {
		if r := recover(); r != nil {
			if th, ok := r.(Throw); ok {
				s.tryError(th.Key)
				return
			}
			panic(r)
		}
	}()
	s.op.Next(v, s.down)
}

func (s *observer) tryError(e string) {
	defer func() {
		if r := recover(); r != nil {
			if th, ok := r.(Throw); ok {
				if SpecFaults {
					s.down.Error(th.Key)
				} else {
					unhandled(th.Key)
				}
				return
			}
			panic(r)
		}
	}()
	s.op.Error(e, s.down)
}

func (s *observer) Error(e string) {
	if s.status != 0 {
		return
	}
	s.status = 'E'
	s.tryError(e)
}

func (s *observer) Complete() {
	if s.status != 0 {
		return
	}
	s.status = 'C'
	defer func() {
		if r := recover(); r != nil {
			if th, ok := r.(Throw); ok {
				if SpecFaults {
					s.down.Error(th.Key)
				} else {
					unhandled(th.Key)
				}
				return
			}
			panic(r)
		}
	}()
	s.op.Complete(s.down)
}

func (s *observer) Closed() bool { return s.status != 0 }

// Lift turns a per-subscription step machine into an operator.
func Lift(mk func() Op) Operator {
	return func(src Obs) Obs {
		return Guard(func(down Sink) {
			op := mk()
			if st, ok := op.(Starter); ok {
				st.Start(down)
			}
			src(&observer{op: op, down: down})
		})
	}
}

// In is one input notification.
type In struct {
	K byte // 'N','E','C'
	V any
	E string
}

// Cold is the scripted cold source: it plays the whole script on every
// subscription, including whatever follows a terminal.
func Cold(script []In) Obs {
	return Guard(func(down Sink) {
		for _, e := range script {
			switch e.K {
			case 'N':
				down.Emit(e.V)
			case 'E':
				down.Error(e.E)
			case 'C':
				down.Complete()
			}
		}
	})
}

// Manual is a source the caller drives after subscription.
type Manual struct{ sinks []Sink }

func (m *Manual) Obs() Obs {
	return Guard(func(down Sink) { m.sinks = append(m.sinks, down) })
}
func (m *Manual) Push(e In) {
	for _, s := range m.sinks {
		switch e.K {
		case 'N':
			s.Emit(e.V)
		case 'E':
			s.Error(e.E)
		case 'C':
			s.Complete()
		}
	}
}

// Compose applies operators left to right (ops[0] is next to the source).
func Compose(src Obs, ops ...Operator) Obs {
	for _, op := range ops {
		src = op(src)
	}
	return src
}

// Observe subscribes a collector and returns the trace (for cold sources the
// run is over when this returns).
func Observe(o Obs) Trace {
	c := &Collector{}
	o(c)
	return c.T
}
