package model

// Subject is the sequential definition of the five subject kinds.
//
// publish:  subscribers receive what is published while they are subscribed.
// behavior: like publish, preceded by the latest value (initially the seed).
// replay N: like publish, preceded by the last N values; a subscriber arriving
//           after termination still gets the buffer, then the stored terminal.
// async:    only the final value, on completion; a late subscriber gets the
//           final value and the completion (or the stored error).
// unicast:  one subscriber at a time (a concurrent one is refused with an
//           error); values published while nobody is subscribed are queued
//           (bounded: the oldest is discarded) and handed to the next
//           subscriber; a subscriber arriving after termination gets the backlog
//           nobody consumed, then the stored terminal.
type Subject struct {
	Kind string
	Size int // replay / unicast buffer size, -1 = unlimited
	Seed any // behavior

	Status byte // 0 open, 'E', 'C'
	Err    string
	live   []int // subscriber ids, in subscription order
	Logs   map[int][]Notif
	last   any
	buf    []any
	final  any
	hasFin bool
	// LegacyUnicastLate: a subscriber arriving at a terminated unicast subject
	// gets only the terminal (not the backlog). Used to recognise the listed finding.
	LegacyUnicastLate bool
	key               string
}

func NewSubject(kind string, size int, seed any) *Subject {
	return &Subject{Kind: kind, Size: size, Seed: seed, last: seed, Logs: map[int][]Notif{}}
}

func (s *Subject) out(id int, n Notif) {
	old := s.Logs[id]
	nl := make([]Notif, len(old)+1)
	copy(nl, old)
	nl[len(old)] = n
	s.Logs[id] = nl
}

func (s *Subject) isLive(id int) bool {
	for _, x := range s.live {
		if x == id {
			return true
		}
	}
	return false
}

func (s *Subject) drop(id int) {
	for i, x := range s.live {
		if x == id {
			s.live = append(s.live[:i:i], s.live[i+1:]...)
			return
		}
	}
}

func (s *Subject) trim() {
	if s.Size >= 0 && len(s.buf) > s.Size {
		s.buf = s.buf[len(s.buf)-s.Size:]
	}
}

// Backlog returns the number of queued values (replay buffer / unicast backlog).
func (s *Subject) Backlog() int { return len(s.buf) }

// Observers returns the number of registered observers.
func (s *Subject) Observers() int { return len(s.live) }

func (s *Subject) terminal(id int) {
	if s.Status == 'E' {
		s.out(id, Notif{K: 'E', E: s.Err})
	} else {
		s.out(id, Notif{K: 'C'})
	}
}

// Subscribe registers subscriber id (ids are never reused).
func (s *Subject) Subscribe(id int) {
	if _, ok := s.Logs[id]; !ok {
		s.Logs[id] = nil
	}
	switch s.Kind {
	case "publish":
		if s.Status != 0 {
			s.terminal(id)
			return
		}
	case "behavior":
		if s.Status != 0 {
			s.terminal(id)
			return
		}
		s.out(id, Notif{K: 'N', V: s.last})
	case "replay":
		for _, v := range s.buf {
			s.out(id, Notif{K: 'N', V: v})
		}
		if s.Status != 0 {
			s.terminal(id)
			return
		}
	case "async":
		if s.Status == 'E' {
			s.terminal(id)
			return
		}
		if s.Status == 'C' {
			if s.hasFin {
				s.out(id, Notif{K: 'N', V: s.final})
			}
			s.terminal(id)
			return
		}
	case "unicast":
		if s.Status != 0 {
			if !s.LegacyUnicastLate {
				for _, v := range s.buf {
					s.out(id, Notif{K: 'N', V: v})
				}
				s.buf = nil
			}
			s.terminal(id)
			return
		}
		if len(s.live) > 0 {
			s.out(id, Notif{K: 'E', E: ErrUnicastConcurr})
			return
		}
		for _, v := range s.buf {
			s.out(id, Notif{K: 'N', V: v})
		}
		s.buf = nil
	}
	s.live = append(s.live, id)
}

// Unsubscribe removes subscriber id.
func (s *Subject) Unsubscribe(id int) { s.drop(id) }

func (s *Subject) Next(v any) {
	if s.Status != 0 {
		return
	}
	switch s.Kind {
	case "publish":
	case "behavior":
		s.last = v
	case "replay":
		s.buf = append(s.buf, v)
		defer s.trim()
	case "async":
		s.final, s.hasFin = v, true
		return
	case "unicast":
		if len(s.live) == 0 {
			s.buf = append(s.buf, v)
			s.trim()
			return
		}
	}
	for _, id := range append([]int(nil), s.live...) {
		s.out(id, Notif{K: 'N', V: v})
	}
}

func (s *Subject) end(status byte, e string) {
	if s.Status != 0 {
		return
	}
	s.Status, s.Err = status, e
	for _, id := range append([]int(nil), s.live...) {
		if s.Kind == "async" && status == 'C' && s.hasFin {
			s.out(id, Notif{K: 'N', V: s.final})
		}
		s.terminal(id)
	}
	s.live = nil
}

func (s *Subject) Error(e string) { s.end('E', e) }
func (s *Subject) Complete()      { s.end('C', "") }

// Clone returns an independent copy (for the linearizability search).
func (s *Subject) Clone() *Subject {
	c := *s
	c.key = ""
	c.live = append([]int(nil), s.live...)
	c.buf = append([]any(nil), s.buf...)
	c.Logs = make(map[int][]Notif, len(s.Logs))
	for k, v := range s.Logs {
		c.Logs[k] = v // logs are append-only: sharing the prefix is safe as long as appends copy
	}
	return &c
}

// Key renders the state for equality tests.
func (s *Subject) Key() string {
	if s.key == "" {
		s.key = fmtKey(s)
	}
	return s.key
}
