package model

import (
	"fmt"
	"sort"
)

func fmtKey(s *Subject) string {
	ids := make([]int, 0, len(s.Logs))
	for id := range s.Logs {
		ids = append(ids, id)
	}
	sort.Ints(ids)
	out := fmt.Sprintf("%c|%s|%v|%v|%v|%v|%v", s.Status, s.Err, s.live, s.last, s.buf, s.final, s.hasFin)
	for _, id := range ids {
		out += fmt.Sprintf("|%d:%v", id, s.Logs[id])
	}
	return out
}
