package model

// ShareConfig mirrors the documented options of ShareWithConfig.
type ShareConfig struct {
	Kind            string // connector: publish | behavior | replay
	Size            int
	ResetOnError    bool
	ResetOnComplete bool
	ResetOnRefZero  bool
}

type execution struct {
	subject    *Subject
	upstream   bool // upstream subscription live
	terminated bool
}

// Share is the statement-level definition of Share / ShareReplay.
//
// An execution is one subject of the connector's kind plus one upstream
// subscription. A new subscriber joins the current execution if there is one -
// even a terminated one that was kept, in which case it receives what that
// subject kind replays after termination - and otherwise starts a new execution
// (one more upstream subscription). The current execution is discarded on source
// Error if ResetOnError, on source Complete if ResetOnComplete, and when the
// subscriber count returns to zero if ResetOnRefCountZero and the execution has
// not already terminated; discarding a live execution releases upstream.
type Share struct {
	Cfg          ShareConfig
	Seed         any
	cur          *execution
	of           map[int]*execution // subscriber -> execution it joined
	refs         int
	UpstreamSubs int // total upstream subscriptions so far
	all          []*execution
}

func NewShare(cfg ShareConfig, seed any) *Share {
	return &Share{Cfg: cfg, Seed: seed, of: map[int]*execution{}}
}

// LiveUpstream returns the number of live upstream subscriptions.
func (s *Share) LiveUpstream() int {
	n := 0
	for _, e := range s.all {
		if e.upstream {
			n++
		}
	}
	return n
}

// Log returns what subscriber id has received.
func (s *Share) Log(id int) []Notif {
	if e := s.of[id]; e != nil {
		return e.subject.Logs[id]
	}
	return nil
}

// Subscribe returns true when this subscriber started a new execution (the
// caller then plays the source, if it is a cold synchronous one).
func (s *Share) Subscribe(id int) bool {
	s.refs++
	created := false
	if s.cur == nil {
		s.cur = &execution{subject: NewSubject(s.Cfg.Kind, s.Cfg.Size, s.Seed)}
		s.all = append(s.all, s.cur)
		created = true
	}
	e := s.cur
	s.of[id] = e
	e.subject.Subscribe(id)
	if created {
		e.upstream = true
		s.UpstreamSubs++
	}
	// a subscriber that joined a terminated subject is closed at once
	if e.subject.Status != 0 {
		s.left(id)
	}
	return created
}

func (s *Share) left(id int) {
	s.refs--
	if s.refs == 0 && s.Cfg.ResetOnRefZero {
		if e := s.of[id]; e != nil && e == s.cur && !e.terminated {
			s.discard(e)
		}
	}
}

func (s *Share) discard(e *execution) {
	e.upstream = false
	if s.cur == e {
		s.cur = nil
	}
}

func (s *Share) Unsubscribe(id int) {
	e := s.of[id]
	if e == nil || !e.subject.isLive(id) {
		return
	}
	e.subject.Unsubscribe(id)
	s.left(id)
}

func (s *Share) liveExec() *execution {
	for _, e := range s.all {
		if e.upstream {
			return e
		}
	}
	return nil
}

func (s *Share) SourceNext(v any) {
	if e := s.liveExec(); e != nil {
		e.subject.Next(v)
	}
}

func (s *Share) sourceEnd(err bool, key string) {
	e := s.liveExec()
	if e == nil {
		return
	}
	e.upstream = false
	e.terminated = true
	if (err && s.Cfg.ResetOnError) || (!err && s.Cfg.ResetOnComplete) {
		if s.cur == e {
			s.cur = nil
		}
	}
	live := append([]int(nil), e.subject.live...)
	if err {
		e.subject.Error(key)
	} else {
		e.subject.Complete()
	}
	// the terminal closes every subscriber of that execution
	s.refs -= len(live)
}

func (s *Share) SourceError(key string) { s.sourceEnd(true, key) }
func (s *Share) SourceComplete()        { s.sourceEnd(false, "") }

// Connectable is the definition of a connectable observable.
type Connectable struct {
	Kind         string
	Size         int
	Seed         any
	Reset        bool // ResetOnDisconnect
	subject      *Subject
	of           map[int]*Subject
	Connected    bool
	UpstreamSubs int
}

func NewConnectable(kind string, size int, seed any, reset bool) *Connectable {
	return &Connectable{Kind: kind, Size: size, Seed: seed, Reset: reset, subject: NewSubject(kind, size, seed), of: map[int]*Subject{}}
}

func (c *Connectable) Subscribe(id int) {
	c.of[id] = c.subject
	c.subject.Subscribe(id)
}

func (c *Connectable) Unsubscribe(id int) {
	if s := c.of[id]; s != nil {
		s.Unsubscribe(id)
	}
}

func (c *Connectable) Log(id int) []Notif {
	if s := c.of[id]; s != nil {
		return s.Logs[id]
	}
	return nil
}

// Connect returns true when a new upstream subscription was made.
func (c *Connectable) Connect() bool {
	if c.Connected {
		return false
	}
	c.Connected = true
	c.UpstreamSubs++
	return true
}

func (c *Connectable) ended() {
	c.Connected = false
	if c.Reset {
		c.subject = NewSubject(c.Kind, c.Size, c.Seed)
	}
}

func (c *Connectable) Disconnect() {
	if c.Connected {
		c.ended()
	}
}

func (c *Connectable) SourceNext(v any) {
	if c.Connected {
		c.subject.Next(v)
	}
}

func (c *Connectable) SourceError(key string) {
	if c.Connected {
		s := c.subject
		c.ended()
		s.Error(key)
	}
}

func (c *Connectable) SourceComplete() {
	if c.Connected {
		s := c.subject
		c.ended()
		s.Complete()
	}
}
