package model

// Multi is the step model of a multi-source operator: events of k sources are
// fed one at a time in arrival order; Out is the output so far; Sub/Rel say
// which sources must have been subscribed / must be released after the step.
type Multi struct {
	K      int
	Out    Trace
	Sub    []bool // source i is (or has been) subscribed
	Rel    []bool // source i must be released now
	Done   []bool // source i has delivered its terminal
	on     func(m *Multi, src int, e In)
	Inners map[int]*Trace // inner observables (windows, groups) by id
	// NoRelCheck marks points where the definition leaves the release of the
	// other sources open.
	NoRelCheck bool
}

func newMulti(k int, on func(m *Multi, src int, e In)) *Multi {
	return &Multi{K: k, Sub: make([]bool, k), Rel: make([]bool, k), Done: make([]bool, k), on: on, Inners: map[int]*Trace{}}
}

// On feeds one event of source src. Events of sources that are not subscribed,
// already released or already terminated are ignored (nobody listens).
func (m *Multi) On(src int, e In) {
	if !m.Sub[src] || m.Rel[src] || m.Done[src] {
		return
	}
	if e.K != 'N' {
		m.Done[src] = true
		m.Rel[src] = true // a source that ended is released
	}
	if m.Out.End != 0 {
		return
	}
	m.on(m, src, e)
}

func (m *Multi) emit(v any) {
	if m.Out.End == 0 {
		m.Out.Vals = append(m.Out.Vals, v)
	}
}

func (m *Multi) finish(end byte, err string) {
	if m.Out.End != 0 {
		return
	}
	m.Out.End, m.Out.Err = end, err
	for i := range m.Rel {
		if m.Sub[i] {
			m.Rel[i] = true
		}
	}
}

func (m *Multi) subscribeAll() {
	for i := range m.Sub {
		m.Sub[i] = true
	}
}

func allTrue(b []bool) bool {
	for _, x := range b {
		if !x {
			return false
		}
	}
	return true
}

// Merge: values in arrival order; complete after all sources; error at once.
func Merge(k int) *Multi {
	m := newMulti(k, func(m *Multi, src int, e In) {
		switch e.K {
		case 'N':
			m.emit(e.V)
		case 'E':
			m.finish('E', e.E)
		case 'C':
			if allTrue(m.Done) {
				m.finish('C', "")
			}
		}
	})
	m.subscribeAll()
	if k == 0 {
		m.finish('C', "")
	}
	return m
}

// CombineLatest: once every source has a value, every arrival emits the tuple
// of latest values; completes when all sources completed; error at once.
func CombineLatest(k int) *Multi {
	latest := make([]any, k)
	has := make([]bool, k)
	m := newMulti(k, func(m *Multi, src int, e In) {
		switch e.K {
		case 'N':
			latest[src], has[src] = e.V, true
			if allTrue(has) {
				m.emit(append([]any(nil), latest...))
			}
		case 'E':
			m.finish('E', e.E)
		case 'C':
			if allTrue(m.Done) {
				m.finish('C', "")
			}
		}
	})
	m.subscribeAll()
	return m
}

// Concat: source i+1 is subscribed only after source i completed; error at once
// (later sources are never subscribed); complete after the last.
func Concat(k int) *Multi {
	cur := 0
	m := newMulti(k, func(m *Multi, src int, e In) {
		if src != cur {
			return
		}
		switch e.K {
		case 'N':
			m.emit(e.V)
		case 'E':
			m.finish('E', e.E)
		case 'C':
			cur++
			if cur == m.K {
				m.finish('C', "")
			} else {
				m.Sub[cur] = true
			}
		}
	})
	if k == 0 {
		m.finish('C', "")
	} else {
		m.Sub[0] = true
	}
	return m
}

// Race: the first source to notify (value, error or completion) wins and is
// mirrored; the others are released at that moment.
func Race(k int) *Multi {
	winner := -1
	m := newMulti(k, func(m *Multi, src int, e In) {
		if winner == -1 {
			winner = src
			for i := range m.Rel {
				if i != src {
					m.Rel[i] = true
				}
			}
		}
		if src != winner {
			return
		}
		switch e.K {
		case 'N':
			m.emit(e.V)
		case 'E':
			m.finish('E', e.E)
		case 'C':
			m.finish('C', "")
		}
	})
	m.subscribeAll()
	if k == 0 {
		m.finish('C', "")
	}
	return m
}

// Zip: k-th values paired with k-th values; completes once a completed source's
// queue is empty (at its completion or right after the emission that drains it);
// a source completing with values still queued does not release the others;
// error at once.
func Zip(k int) *Multi {
	queues := make([][]any, k)
	var m *Multi
	check := func() {
		for i := 0; i < k; i++ {
			if m.Done[i] && len(queues[i]) == 0 {
				m.finish('C', "")
				return
			}
		}
	}
	m = newMulti(k, func(m *Multi, src int, e In) {
		switch e.K {
		case 'N':
			queues[src] = append(queues[src], e.V)
			for {
				ok := true
				for i := 0; i < k; i++ {
					if len(queues[i]) == 0 {
						ok = false
					}
				}
				if !ok {
					break
				}
				tuple := make([]any, k)
				for i := 0; i < k; i++ {
					tuple[i] = queues[i][0]
					queues[i] = queues[i][1:]
				}
				m.emit(tuple)
				check()
				if m.Out.End != 0 {
					return
				}
			}
		case 'E':
			m.finish('E', e.E)
		case 'C':
			check()
		}
	})
	m.subscribeAll()
	return m
}

// TakeUntil: source 0 mirrored until source 1 (the notifier) emits a value, which
// completes the output; a notifier that completes silently changes nothing; an
// error from either source ends the output.
func TakeUntil() *Multi {
	m := newMulti(2, func(m *Multi, src int, e In) {
		switch {
		case src == 0 && e.K == 'N':
			m.emit(e.V)
		case src == 0 && e.K == 'E', src == 1 && e.K == 'E':
			m.finish('E', e.E)
		case src == 0 && e.K == 'C':
			m.finish('C', "")
		case src == 1 && e.K == 'N':
			m.finish('C', "")
		}
	})
	m.subscribeAll()
	return m
}

// SkipUntil: source values dropped until the notifier's first value.
func SkipUntil() *Multi {
	open := false
	m := newMulti(2, func(m *Multi, src int, e In) {
		switch {
		case src == 0 && e.K == 'N':
			if open {
				m.emit(e.V)
			}
		case src == 0 && e.K == 'E', src == 1 && e.K == 'E':
			m.finish('E', e.E)
		case src == 0 && e.K == 'C':
			m.finish('C', "")
		case src == 1 && e.K == 'N':
			open = true
		}
	})
	m.subscribeAll()
	return m
}

// BufferWhen: source 0 values are buffered; a boundary (source 1) value emits
// the buffer (possibly empty); completion of either source emits the buffer
// (possibly empty) and completes; an error ends the output (the pending buffer is
// dropped - see BufferWithCount for why the doc sentence is not the oracle).
func BufferWhen() *Multi {
	buf := []any{}
	m := newMulti(2, func(m *Multi, src int, e In) {
		switch {
		case src == 0 && e.K == 'N':
			buf = append(buf, e.V)
		case e.K == 'E':
			m.finish('E', e.E)
		case src == 1 && e.K == 'N':
			m.emit(buf)
			buf = []any{}
		case e.K == 'C':
			m.emit(buf)
			buf = []any{}
			m.finish('C', "")
		}
	})
	m.subscribeAll()
	return m
}

// SampleWhen: on a tick (source 1 value) the latest source value not yet sampled
// is emitted; terminals of either source are mirrored at once.
func SampleWhen() *Multi {
	var latest any
	fresh := false
	m := newMulti(2, func(m *Multi, src int, e In) {
		switch {
		case src == 0 && e.K == 'N':
			latest, fresh = e.V, true
		case src == 1 && e.K == 'N':
			if fresh {
				fresh = false
				m.emit(latest)
			}
		case e.K == 'E':
			m.finish('E', e.E)
		case e.K == 'C':
			m.finish('C', "")
		}
	})
	m.subscribeAll()
	return m
}

// ThrottleWhen as implemented and exercised by its tests: closed at start, a
// tick (source 1) opens the gate for exactly one source value. (The doc sentence
// "emits a value, then ignores..." is looser; only C16's bound relies on it.)
// startOpen selects the documented reading.
func ThrottleWhen(startOpen bool) *Multi {
	open := startOpen
	m := newMulti(2, func(m *Multi, src int, e In) {
		switch {
		case src == 0 && e.K == 'N':
			if open {
				open = false
				m.emit(e.V)
			}
		case src == 1 && e.K == 'N':
			open = true
		case e.K == 'E':
			m.finish('E', e.E)
		case e.K == 'C':
			m.finish('C', "")
		}
	})
	m.subscribeAll()
	return m
}

// SequenceEqual (docs page): false at the first unequal pair; when both
// completed: true iff same length.
func SequenceEqual() *Multi {
	q := [2][]any{}
	decided := false
	var m *Multi
	m = newMulti(2, func(m *Multi, src int, e In) {
		if decided {
			return
		}
		switch e.K {
		case 'N':
			q[src] = append(q[src], e.V)
			for len(q[0]) > 0 && len(q[1]) > 0 {
				a, b := q[0][0], q[1][0]
				q[0], q[1] = q[0][1:], q[1][1:]
				if a != b {
					decided = true
					m.emit(false)
					m.finish('C', "")
					return
				}
			}
			// one side finished and the other still produces: lengths differ
			if (m.Done[0] && len(q[0]) == 0 && len(q[1]) > 0) || (m.Done[1] && len(q[1]) == 0 && len(q[0]) > 0) {
				decided = true
				m.emit(false)
				m.finish('C', "")
			}
		case 'E':
			m.finish('E', e.E)
		case 'C':
			other := 1 - src
			if len(q[other]) > 0 {
				decided = true
				m.emit(false)
				m.finish('C', "")
				return
			}
			if m.Done[0] && m.Done[1] {
				decided = true
				m.emit(len(q[0]) == 0 && len(q[1]) == 0)
				m.finish('C', "")
			}
		}
	})
	m.subscribeAll()
	return m
}
