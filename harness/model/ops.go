package model

import "math"

// F is a closure-based step machine.
type F struct {
	N func(v any, o Sink)
	E func(e string, o Sink)
	C func(o Sink)
	S func(o Sink)
}

func (f *F) Next(v any, o Sink) {
	if f.N != nil {
		f.N(v, o)
	} else {
		o.Emit(v)
	}
}
func (f *F) Error(e string, o Sink) {
	if f.E != nil {
		f.E(e, o)
	} else {
		o.Error(e)
	}
}
func (f *F) Complete(o Sink) {
	if f.C != nil {
		f.C(o)
	} else {
		o.Complete()
	}
}

type fs struct{ F }

func (f *fs) Start(o Sink) { f.S(o) }

func lift(mk func() *F) Operator {
	return Lift(func() Op {
		f := mk()
		if f.S != nil {
			return &fs{*f}
		}
		return f
	})
}

// ---- error keys of the library's sentinel errors ------------------------------

const (
	ErrFirstEmpty     = "ErrFirstEmpty"
	ErrLastEmpty      = "ErrLastEmpty"
	ErrHeadEmpty      = "ErrHeadEmpty"
	ErrTailEmpty      = "ErrTailEmpty"
	ErrElementAtNF    = "ErrElementAtNotFound"
	ErrCast           = "cast"
	ErrTimeout        = "timeout"
	ErrThrowIfEmpty   = "thrown-if-empty"
	ErrUnicastConcurr = "ErrUnicastSubjectConcurrent"
)

// ---- transformation -------------------------------------------------------------

func Identity() Operator { return lift(func() *F { return &F{} }) }

// Map: f is called once per value, before the output.
func Map(f func(v any, i int) any) Operator {
	return lift(func() *F {
		i := 0
		return &F{N: func(v any, o Sink) { r := f(v, i); o.Emit(r); i++ }}
	})
}

func MapTo(c any) Operator {
	return lift(func() *F { return &F{N: func(v any, o Sink) { o.Emit(c) }} })
}

// MapErr: the first returned error ends the stream.
func MapErr(f func(v any, i int) (any, string)) Operator {
	return lift(func() *F {
		i := 0
		return &F{N: func(v any, o Sink) {
			r, e := f(v, i)
			i++
			if e != "" {
				o.Error(e)
				return
			}
			o.Emit(r)
		}}
	})
}

func Scan(f func(acc, v any, i int) any, seed any) Operator {
	return lift(func() *F {
		acc, i := seed, 0
		return &F{N: func(v any, o Sink) { acc = f(acc, v, i); i++; o.Emit(acc) }}
	})
}

// Flatten: v is a []any.
func Flatten() Operator {
	return lift(func() *F {
		return &F{N: func(v any, o Sink) {
			for _, x := range v.([]any) {
				o.Emit(x)
			}
		}}
	})
}

// Cast: ok says whether the value converts.
func Cast(conv func(v any) (any, bool)) Operator {
	return lift(func() *F {
		return &F{N: func(v any, o Sink) {
			if r, ok := conv(v); ok {
				o.Emit(r)
			} else {
				o.Error(ErrCast)
			}
		}}
	})
}

func BufferWithCount(n int) Operator {
	return lift(func() *F {
		var buf []any
		return &F{
			N: func(v any, o Sink) {
				buf = append(buf, v)
				if len(buf) >= n {
					o.Emit(buf)
					buf = nil
				}
			},
			C: func(o Sink) {
				if len(buf) > 0 {
					o.Emit(buf)
				}
				o.Complete()
			},
			// The doc comment says "if the source errors, the buffer is emitted and the
			// error is propagated", but the operator's own executable example
			// (ExampleBufferWithCount_error: 1,2,3,Error -> [1 2], Error) pins the
			// opposite; per DESIGN 4.3 a sentence contradicted by the operator's own
			// example is not an oracle: the pending buffer is dropped on error.
		}
	})
}

func Pairwise() Operator {
	return lift(func() *F {
		var last any
		n := 0
		return &F{N: func(v any, o Sink) {
			if n > 0 {
				o.Emit([]any{last, v})
			}
			n++
			last = v
		}}
	})
}

func StartWith(pre ...any) Operator {
	return lift(func() *F {
		return &F{S: func(o Sink) {
			for _, v := range pre {
				o.Emit(v)
			}
		}}
	})
}

func EndWith(suf ...any) Operator {
	return lift(func() *F {
		return &F{C: func(o Sink) {
			for _, v := range suf {
				o.Emit(v)
			}
			o.Complete()
		}}
	})
}

// ---- filtering ------------------------------------------------------------------

func Filter(p func(v any, i int) bool) Operator {
	return lift(func() *F {
		i := 0
		return &F{N: func(v any, o Sink) {
			ok := p(v, i)
			if ok {
				o.Emit(v)
			}
			i++
		}}
	})
}

func DistinctBy(key func(v any) any) Operator {
	return lift(func() *F {
		seen := map[any]bool{}
		return &F{N: func(v any, o Sink) {
			k := key(v)
			if !seen[k] {
				o.Emit(v)
				seen[k] = true
			}
		}}
	})
}

func IgnoreElements() Operator {
	return lift(func() *F { return &F{N: func(v any, o Sink) {}} })
}

func Skip(n int) Operator {
	return lift(func() *F {
		i := 0
		return &F{N: func(v any, o Sink) {
			if i >= n {
				o.Emit(v)
			}
			i++
		}}
	})
}

func SkipWhile(p func(v any, i int) bool) Operator {
	return lift(func() *F {
		skipping, i := true, 0
		return &F{N: func(v any, o Sink) {
			if skipping && !p(v, i) {
				skipping = false
			}
			if !skipping {
				o.Emit(v)
			}
			i++
		}}
	})
}

func SkipLast(n int) Operator {
	return lift(func() *F {
		var q []any
		return &F{N: func(v any, o Sink) {
			q = append(q, v)
			if len(q) > n {
				o.Emit(q[0])
				q = q[1:]
			}
		}}
	})
}

// Take(0) is Empty: completes at once and never subscribes the source.
func Take(n int) Operator {
	if n == 0 {
		return func(src Obs) Obs { return Guard(func(down Sink) { down.Complete() }) }
	}
	return lift(func() *F {
		i := 0
		return &F{N: func(v any, o Sink) {
			o.Emit(v)
			i++
			if i >= n {
				o.Complete()
			}
		}}
	})
}

func TakeWhile(p func(v any, i int) bool) Operator {
	return lift(func() *F {
		done, i := false, 0
		return &F{
			N: func(v any, o Sink) {
				if !done {
					if p(v, i) {
						o.Emit(v)
					} else {
						o.Complete()
						done = true
					}
				}
				i++
			},
			E: func(e string, o Sink) {
				if !done {
					o.Error(e)
				}
			},
			C: func(o Sink) {
				if !done {
					o.Complete()
				}
			},
		}
	})
}

func TakeLast(n int) Operator {
	if n == 0 {
		return func(src Obs) Obs { return Guard(func(down Sink) { down.Complete() }) }
	}
	return lift(func() *F {
		var q []any
		return &F{
			N: func(v any, o Sink) {
				q = append(q, v)
				if len(q) > n {
					q = q[1:]
				}
			},
			C: func(o Sink) {
				for _, v := range q {
					o.Emit(v)
				}
				o.Complete()
			},
		}
	})
}

func Head() Operator {
	return lift(func() *F {
		return &F{
			N: func(v any, o Sink) { o.Emit(v); o.Complete() },
			C: func(o Sink) { o.Error(ErrHeadEmpty) },
		}
	})
}

func Tail() Operator {
	return lift(func() *F {
		var last any
		has := false
		return &F{
			N: func(v any, o Sink) { last, has = v, true },
			C: func(o Sink) {
				if has {
					o.Emit(last)
					o.Complete()
				} else {
					o.Error(ErrTailEmpty)
				}
			},
		}
	})
}

func First(p func(v any, i int) bool) Operator {
	return lift(func() *F {
		i := 0
		return &F{
			N: func(v any, o Sink) {
				if p(v, i) {
					o.Emit(v)
					o.Complete()
				}
				i++
			},
			C: func(o Sink) { o.Error(ErrFirstEmpty) },
		}
	})
}

func Last(p func(v any, i int) bool) Operator {
	return lift(func() *F {
		var last any
		has, i := false, 0
		return &F{
			N: func(v any, o Sink) {
				if p(v, i) {
					last, has = v, true
				}
				i++
			},
			C: func(o Sink) {
				if has {
					o.Emit(last)
					o.Complete()
				} else {
					o.Error(ErrLastEmpty)
				}
			},
		}
	})
}

func ElementAt(n int) Operator {
	return lift(func() *F {
		i := 0
		return &F{
			N: func(v any, o Sink) {
				if i == n {
					o.Emit(v)
					o.Complete()
					return
				}
				i++
			},
			C: func(o Sink) { o.Error(ErrElementAtNF) },
		}
	})
}

func ElementAtOrDefault(n int, def any) Operator {
	return lift(func() *F {
		i := 0
		return &F{
			N: func(v any, o Sink) {
				if i == n {
					o.Emit(v)
					o.Complete()
					return
				}
				i++
			},
			C: func(o Sink) { o.Emit(def); o.Complete() },
		}
	})
}

// ---- conditional ------------------------------------------------------------------

// All: the predicate is only consulted while every earlier value satisfied it.
func All(p func(v any, i int) bool) Operator {
	return lift(func() *F {
		ok, i := true, 0
		return &F{
			N: func(v any, o Sink) {
				if ok {
					ok = p(v, i)
					i++
				}
			},
			C: func(o Sink) { o.Emit(ok); o.Complete() },
		}
	})
}

func Contains(p func(v any, i int) bool) Operator {
	return lift(func() *F {
		i := 0
		return &F{
			N: func(v any, o Sink) {
				if p(v, i) {
					o.Emit(true)
					o.Complete()
				}
				i++
			},
			C: func(o Sink) { o.Emit(false); o.Complete() },
		}
	})
}

func Find(p func(v any, i int) bool) Operator {
	return lift(func() *F {
		i := 0
		return &F{N: func(v any, o Sink) {
			if p(v, i) {
				o.Emit(v)
				o.Complete()
			}
			i++
		}}
	})
}

func DefaultIfEmpty(def any) Operator {
	return lift(func() *F {
		empty := true
		return &F{
			N: func(v any, o Sink) { empty = false; o.Emit(v) },
			C: func(o Sink) {
				if empty {
					o.Emit(def)
				}
				o.Complete()
			},
		}
	})
}

// ---- math / aggregation ---------------------------------------------------------------

func Count() Operator {
	return lift(func() *F {
		n := 0
		return &F{N: func(v any, o Sink) { n++ }, C: func(o Sink) { o.Emit(n); o.Complete() }}
	})
}

func Sum() Operator {
	return lift(func() *F {
		s := 0
		return &F{N: func(v any, o Sink) { s += v.(int) }, C: func(o Sink) { o.Emit(s); o.Complete() }}
	})
}

func Average() Operator {
	return lift(func() *F {
		s, n := 0.0, 0
		return &F{N: func(v any, o Sink) { s += float64(v.(int)); n++ }, C: func(o Sink) {
			if n == 0 {
				o.Emit(math.NaN())
			} else {
				o.Emit(s / float64(n))
			}
			o.Complete()
		}}
	})
}

// PinnedMaxEmptyZero makes the Max model mirror the listed finding
// C04-max-empty-emits-zero (the suite pins Max(empty) = [0]). The single-row C04
// check, which reports that finding, runs with the documented model; every check
// that merely has Max somewhere in a chain uses the pinned one, so that one
// defect is not reported again under other properties.
var PinnedMaxEmptyZero bool

// MinMax: documented "emits no value" on an empty source.
func MinMax(max bool) Operator {
	return lift(func() *F {
		var m int
		has := false
		return &F{N: func(v any, o Sink) {
			x := v.(int)
			if !has || (max && x > m) || (!max && x < m) {
				m, has = x, true
			}
		}, C: func(o Sink) {
			if has || (max && PinnedMaxEmptyZero) {
				o.Emit(m)
			}
			o.Complete()
		}}
	})
}

func Clamp(lo, hi int) Operator {
	return lift(func() *F {
		return &F{N: func(v any, o Sink) {
			x := v.(int)
			if x < lo {
				x = lo
			} else if x > hi {
				x = hi
			}
			o.Emit(x)
		}}
	})
}

func Reduce(f func(acc, v any, i int) any, seed any) Operator {
	return lift(func() *F {
		acc, i := seed, 0
		return &F{N: func(v any, o Sink) { acc = f(acc, v, i); i++ }, C: func(o Sink) { o.Emit(acc); o.Complete() }}
	})
}

// ---- sinks -------------------------------------------------------------------------

func ToSlice() Operator {
	return lift(func() *F {
		s := []any{}
		return &F{N: func(v any, o Sink) { s = append(s, v) }, C: func(o Sink) { o.Emit(s); o.Complete() }}
	})
}

// ToMap: last write wins. Keys and values are ints here.
func ToMap(kv func(v any, i int) (any, any)) Operator {
	return lift(func() *F {
		m := map[any]any{}
		i := 0
		return &F{N: func(v any, o Sink) { k, x := kv(v, i); i++; m[k] = x }, C: func(o Sink) { o.Emit(m); o.Complete() }}
	})
}

// ---- utility ------------------------------------------------------------------------

// Tap: each callback runs before the notification is forwarded.
func Tap(onNext func(v any), onError func(e string), onComplete func()) Operator {
	return lift(func() *F {
		return &F{
			N: func(v any, o Sink) { onNext(v); o.Emit(v) },
			E: func(e string, o Sink) { onError(e); o.Error(e) },
			C: func(o Sink) { onComplete(); o.Complete() },
		}
	})
}

// TapOnSubscribe: the callback runs before the source is subscribed; the stage
// is a pure pass-through (it hands its destination upstream).
func TapOnSubscribe(cb func()) Operator {
	return func(src Obs) Obs {
		return Guard(func(down Sink) {
			cb()
			src(down)
		})
	}
}

// PassThrough is a stage that hands its destination to the source unchanged
// (TapOnFinalize, Serialize, context operators as far as values go).
func PassThrough() Operator {
	return func(src Obs) Obs { return Guard(func(down Sink) { src(down) }) }
}

// Notif is a materialised notification.
type Notif struct {
	K byte
	V any
	E string
}

func Materialize() Operator {
	return lift(func() *F {
		return &F{
			N: func(v any, o Sink) { o.Emit(Notif{K: 'N', V: v}) },
			E: func(e string, o Sink) { o.Emit(Notif{K: 'E', E: e}); o.Complete() },
			C: func(o Sink) { o.Emit(Notif{K: 'C'}); o.Complete() },
		}
	})
}

func Dematerialize() Operator {
	return lift(func() *F {
		return &F{N: func(v any, o Sink) {
			n := v.(Notif)
			switch n.K {
			case 'N':
				o.Emit(n.V)
			case 'E':
				o.Error(n.E)
			case 'C':
				o.Complete()
			}
		}}
	})
}

// ---- error handling ------------------------------------------------------------------

func OnErrorReturn(v any) Operator {
	return lift(func() *F {
		return &F{E: func(e string, o Sink) { o.Emit(v); o.Complete() }}
	})
}

func ThrowIfEmpty(mk func() string) Operator {
	return lift(func() *F {
		n := 0
		return &F{
			N: func(v any, o Sink) { n++; o.Emit(v) },
			C: func(o Sink) {
				if n == 0 {
					o.Error(mk())
				} else {
					o.Complete()
				}
			},
		}
	})
}

// Catch: on error, subscribe the fallback chosen by the callback and mirror it.
func Catch(fallback func(e string) Obs) Operator {
	return func(src Obs) Obs {
		return Guard(func(down Sink) {
			src(&observer{down: down, op: &F{E: func(e string, o Sink) {
				fallback(e)(o)
			}}})
		})
	}
}

// attempt records how one subscription of a re-subscribing operator ended.
type attempt struct {
	down   Sink
	onNext func()
	end    byte
	err    string
}

func (a *attempt) Emit(v any) {
	if a.end == 0 {
		if a.onNext != nil {
			a.onNext()
		}
		a.down.Emit(v)
	}
}
func (a *attempt) Error(e string) {
	if a.end == 0 {
		a.end, a.err = 'E', e
	}
}
func (a *attempt) Complete() {
	if a.end == 0 {
		a.end = 'C'
	}
}
func (a *attempt) Closed() bool { return a.end != 0 }

// Blocked is panicked by the models of the operators that wait inside their
// subscribe function when an attempt never terminates: the real Subscribe call
// does not return either.
type Blocked struct{}

// RepeatWith: the source n times in sequence; stops at the first error.
func RepeatWith(n int) Operator {
	return func(src Obs) Obs {
		if n == 0 {
			return Guard(func(down Sink) { down.Complete() })
		}
		return Guard(func(down Sink) {
			for i := 0; i < n; i++ {
				a := &attempt{down: down}
				a2 := a
				// errors are forwarded at once
				src(&errForward{a2})
				if a.end == 0 {
					panic(Blocked{})
				}
				if down.Closed() {
					break
				}
			}
			down.Complete()
		})
	}
}

type errForward struct{ *attempt }

func (e *errForward) Error(s string) {
	if e.end == 0 {
		e.end, e.err = 'E', s
		e.down.Error(s)
	}
}

// OnErrorResumeNextWith: next source at Error or Complete; ends with the last
// source's terminal.
func OnErrorResumeNextWith(next ...Obs) Operator {
	return func(src Obs) Obs {
		if len(next) == 0 {
			return src
		}
		all := append([]Obs{src}, next...)
		return Guard(func(down Sink) {
			var last *attempt
			for _, s := range all {
				a := &attempt{down: down}
				s(a)
				if a.end == 0 {
					panic(Blocked{})
				}
				last = a
			}
			if last.end == 'E' {
				down.Error(last.err)
			} else {
				down.Complete()
			}
		})
	}
}

// Retry: maxRetries == 0 means unlimited; resetOnSuccess resets the counter at
// every delivered value. cap bounds unlimited retrying in the model (the
// harness source completes past its cap as well).
func Retry(maxRetries int, resetOnSuccess bool) Operator {
	return func(src Obs) Obs {
		return Guard(func(down Sink) {
			retries := 0
			for !down.Closed() {
				a := &attempt{down: down}
				if resetOnSuccess {
					a.onNext = func() { retries = 0 }
				}
				src(a)
				switch a.end {
				case 0:
					panic(Blocked{})
				case 'C':
					down.Complete()
					return
				case 'E':
					retries++
					if maxRetries == 0 || retries <= maxRetries {
						continue
					}
					down.Error(a.err)
					return
				}
			}
		})
	}
}

// DoWhile: the condition is evaluated after each completed round.
func DoWhile(cond func(i int) bool) Operator {
	return func(src Obs) Obs {
		return Guard(func(down Sink) {
			for i := 0; ; i++ {
				a := &attempt{down: down}
				src(&errForward{a})
				if a.end == 0 {
					panic(Blocked{})
				}
				if a.end == 'E' {
					return
				}
				if !cond(i) {
					break
				}
			}
			down.Complete()
		})
	}
}

// While: the condition is evaluated before each round.
func While(cond func(i int) bool) Operator {
	return func(src Obs) Obs {
		return Guard(func(down Sink) {
			for i := 0; cond(i); i++ {
				a := &attempt{down: down}
				src(&errForward{a})
				if a.end == 0 {
					panic(Blocked{})
				}
				if a.end == 'E' {
					return
				}
			}
			down.Complete()
		})
	}
}

// ConcatWith: sources one after another; an error ends everything and later
// sources are not subscribed.
func ConcatWith(next ...Obs) Operator {
	return func(src Obs) Obs {
		all := append([]Obs{src}, next...)
		return Guard(func(down Sink) {
			for _, s := range all {
				a := &attempt{down: down}
				s(&errForward{a})
				if a.end == 0 {
					panic(Blocked{})
				}
				if a.end == 'E' {
					return
				}
			}
			down.Complete()
		})
	}
}

// FlatMap = project each value to an observable and concatenate them.
func FlatMap(project func(v any, i int) Obs) Operator {
	return func(src Obs) Obs {
		return Guard(func(down Sink) {
			i := 0
			src(&observer{down: down, op: &F{N: func(v any, o Sink) {
				inner := project(v, i)
				i++
				a := &attempt{down: o}
				inner(&errForward{a})
				if a.end == 0 {
					panic(Blocked{})
				}
			}}})
		})
	}
}

// MergeMapCold: project each value to an observable and merge. With inners that
// run to their end synchronously inside the subscription this is: every inner's
// values in arrival order; completion once the outer and all inners completed;
// any error ends the output at once.
func MergeMapCold(project func(v any, i int) Obs) Operator {
	return func(src Obs) Obs {
		return Guard(func(down Sink) {
			i := 0
			open := 1
			done := func(o Sink) {
				open--
				if open == 0 {
					o.Complete()
				}
			}
			src(&observer{down: down, op: &F{
				N: func(v any, o Sink) {
					inner := project(v, i)
					i++
					open++
					inner(&observer{down: o, op: &F{C: func(o Sink) { done(o) }}})
				},
				C: func(o Sink) { done(o) },
			}})
		})
	}
}

// MergeWithCold: merge of the source with companions that are subscribed after
// it, in order (each source is subscribed when the outer list reaches it).
// Values in arrival order; completes once every source completed; the first
// error ends the output.
func MergeWithCold(next ...Obs) Operator {
	return func(src Obs) Obs {
		all := append([]Obs{src}, next...)
		return Guard(func(down Sink) {
			open := len(all) + 1
			done := func(o Sink) {
				open--
				if open == 0 {
					o.Complete()
				}
			}
			for _, s := range all {
				s(&observer{down: down, op: &F{C: func(o Sink) { done(o) }}})
			}
			done(down)
		})
	}
}
