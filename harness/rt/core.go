// Package rt is the run-time support of the verification harness: logical clock,
// recording observers, instrumented sources, statistics and findings plumbing.
package rt

import (
	"bytes"
	"context"
	"errors"
	"fmt"
	"runtime"
	"strconv"
	"sync"
	"sync/atomic"
)

// ---- logical clock ---------------------------------------------------------

var clock int64

// Tick draws the next logical stamp (strictly increasing across goroutines).
func Tick() int64 { return atomic.AddInt64(&clock, 1) }

// Gid returns the current goroutine id (parsed from the stack header).
func Gid() int64 {
	var buf [64]byte
	n := runtime.Stack(buf[:], false)
	// "goroutine 123 ["
	b := buf[:n]
	b = bytes.TrimPrefix(b, []byte("goroutine "))
	i := bytes.IndexByte(b, ' ')
	if i < 0 {
		return -1
	}
	id, _ := strconv.ParseInt(string(b[:i]), 10, 64)
	return id
}

// ---- errors ----------------------------------------------------------------

// TErr is the harness' error type: comparable by identity of Id.
type TErr struct{ Id int }

func (e *TErr) Error() string { return fmt.Sprintf("e%d", e.Id) }

var errPool sync.Map

// Err returns the canonical error value with this id.
func Err(id int) error {
	if v, ok := errPool.Load(id); ok {
		return v.(error)
	}
	v, _ := errPool.LoadOrStore(id, &TErr{Id: id})
	return v.(error)
}

// ErrID extracts the id of a harness error found in err's chain (or -1).
func ErrID(err error) int {
	var te *TErr
	if errors.As(err, &te) {
		return te.Id
	}
	return -1
}

// ---- context markers -------------------------------------------------------

type ctxKey string

const (
	SubKey  ctxKey = "verif.sub"  // attached at SubscribeWithContext
	ItemKey ctxKey = "verif.item" // attached per item by the sources
	EndKey  ctxKey = "verif.end"  // attached to terminals by the sources
	MidKey  ctxKey = "verif.mid"  // attached mid-pipeline
	CaseKey ctxKey = "verif.case" // per-case id for global hooks
)

// ---- events ----------------------------------------------------------------

// Ev is one scripted notification: K is 'N', 'E' or 'C'.
type Ev struct {
	K byte `json:"k"`
	V int  `json:"v,omitempty"`
}

func (e Ev) String() string {
	switch e.K {
	case 'N':
		return fmt.Sprintf("N%d", e.V)
	case 'E':
		return fmt.Sprintf("E%d", e.V)
	}
	return "C"
}

// MarshalJSON renders an event as "N2", "E1" or "C".
func (e Ev) MarshalJSON() ([]byte, error) { return []byte(`"` + e.String() + `"`), nil }

// UnmarshalJSON parses the compact form.
func (e *Ev) UnmarshalJSON(b []byte) error {
	s := string(bytes.Trim(b, `"`))
	if s == "" {
		return fmt.Errorf("empty event")
	}
	e.K = s[0]
	e.V = 0
	if len(s) > 1 {
		v, err := strconv.Atoi(s[1:])
		if err != nil {
			return err
		}
		e.V = v
	}
	return nil
}

func N(v int) Ev  { return Ev{'N', v} }
func E(id int) Ev { return Ev{'E', id} }
func C() Ev       { return Ev{K: 'C'} }

// ScriptString renders a script compactly.
func ScriptString(s []Ev) string {
	var b bytes.Buffer
	for i, e := range s {
		if i > 0 {
			b.WriteByte(' ')
		}
		b.WriteString(e.String())
	}
	return b.String()
}

// Rec is one recorded callback.
type Rec struct {
	K      byte
	V      any   // value snapshot (deep-copied for slices/maps)
	Err    error // for 'E'
	Gid    int64
	In     int64 // logical stamp at entry
	Out    int64 // logical stamp at exit
	Ctx    context.Context
	CtxNil bool
}

func (r Rec) String() string {
	switch r.K {
	case 'N':
		return fmt.Sprintf("N(%v)", r.V)
	case 'E':
		return fmt.Sprintf("E(%v)", r.Err)
	}
	return "C"
}

// Barrier is a spin barrier: goroutines released by a channel close leave within
// microseconds of each other, goroutines leaving a spin barrier within
// nanoseconds - the width of the windows the concurrency checks aim at.
type Barrier struct {
	n, ready int32
}

func NewBarrier(n int) *Barrier { return &Barrier{n: int32(n)} }

// Wait returns once n goroutines have arrived (or after a bounded spin, so that a
// goroutine that never arrives cannot wedge the others).
func (b *Barrier) Wait() {
	atomic.AddInt32(&b.ready, 1)
	// bounded: with more runnable goroutines than processors (sharded runs) a
	// partner may not be scheduled at all while this one spins
	for spins := 0; atomic.LoadInt32(&b.ready) < b.n && spins < 60000; spins++ {
		if spins%2000 == 1999 {
			runtime.Gosched()
		}
	}
}
