package rt

import (
	"context"
	"fmt"
	"reflect"
	"strings"
	"sync"
	"sync/atomic"

	"github.com/samber/ro"
)

// Recorder is a raw ro.Observer implementation: it records *everything* it is
// handed, with no status guard of its own, so grammar violations of whatever is
// above it are visible. It is safe for concurrent use (and reports overlap).
type Recorder[T any] struct {
	mu        sync.Mutex
	recs      []Rec
	inside    int32
	MaxInside int32
	status    int32 // 0 open, 1 errored, 2 completed (first terminal seen)
	// Hook is called inside every callback, after recording entry (may dwell,
	// unsubscribe, panic, ...).
	Hook func(k byte, ctx context.Context, v any, err error)
	// Snap deep-copies a value at delivery (default: reflection-based copy).
	NoSnap bool
	// Live holds the originally delivered values (for post-hoc mutation checks).
	live []any
}

func NewRecorder[T any]() *Recorder[T] { return &Recorder[T]{} }

func (r *Recorder[T]) enter(k byte, ctx context.Context, v any, err error) int {
	n := atomic.AddInt32(&r.inside, 1)
	for {
		m := atomic.LoadInt32(&r.MaxInside)
		if n <= m || atomic.CompareAndSwapInt32(&r.MaxInside, m, n) {
			break
		}
	}
	rec := Rec{K: k, Err: err, Gid: Gid(), Ctx: ctx, CtxNil: ctx == nil}
	if k == 'N' {
		if r.NoSnap {
			rec.V = v
		} else {
			rec.V = DeepCopy(v)
		}
	}
	r.mu.Lock()
	rec.In = Tick()
	r.recs = append(r.recs, rec)
	r.live = append(r.live, v)
	idx := len(r.recs) - 1
	r.mu.Unlock()
	return idx
}

func (r *Recorder[T]) exit(idx int) {
	r.mu.Lock()
	r.recs[idx].Out = Tick()
	r.mu.Unlock()
	atomic.AddInt32(&r.inside, -1)
}

func (r *Recorder[T]) Next(v T) { r.NextWithContext(context.Background(), v) }
func (r *Recorder[T]) NextWithContext(ctx context.Context, v T) {
	idx := r.enter('N', ctx, v, nil)
	defer r.exit(idx)
	if r.Hook != nil {
		r.Hook('N', ctx, v, nil)
	}
}
func (r *Recorder[T]) Error(err error) { r.ErrorWithContext(context.Background(), err) }
func (r *Recorder[T]) ErrorWithContext(ctx context.Context, err error) {
	idx := r.enter('E', ctx, nil, err)
	defer r.exit(idx)
	atomic.CompareAndSwapInt32(&r.status, 0, 1)
	if r.Hook != nil {
		r.Hook('E', ctx, nil, err)
	}
}
func (r *Recorder[T]) Complete() { r.CompleteWithContext(context.Background()) }
func (r *Recorder[T]) CompleteWithContext(ctx context.Context) {
	idx := r.enter('C', ctx, nil, nil)
	defer r.exit(idx)
	atomic.CompareAndSwapInt32(&r.status, 0, 2)
	if r.Hook != nil {
		r.Hook('C', ctx, nil, nil)
	}
}
func (r *Recorder[T]) IsClosed() bool    { return atomic.LoadInt32(&r.status) != 0 }
func (r *Recorder[T]) HasThrown() bool   { return atomic.LoadInt32(&r.status) == 1 }
func (r *Recorder[T]) IsCompleted() bool { return atomic.LoadInt32(&r.status) == 2 }

var _ ro.Observer[int] = (*Recorder[int])(nil)

// Recs returns a copy of what has been recorded so far.
func (r *Recorder[T]) Recs() []Rec {
	r.mu.Lock()
	defer r.mu.Unlock()
	return append([]Rec(nil), r.recs...)
}

// Len returns the number of recorded callbacks.
func (r *Recorder[T]) Len() int {
	r.mu.Lock()
	defer r.mu.Unlock()
	return len(r.recs)
}

// Trace summarises the record as values + ending.
type Trace struct {
	Vals []any
	End  byte // 0 open, 'C', 'E'
	Err  error
}

func (t Trace) String() string {
	var b strings.Builder
	b.WriteString(fmt.Sprintf("%v", t.Vals))
	switch t.End {
	case 'C':
		b.WriteString(" C")
	case 'E':
		b.WriteString(fmt.Sprintf(" E(%v)", t.Err))
	default:
		b.WriteString(" open")
	}
	return b.String()
}

// Trace returns the values and the first terminal (grammar is checked separately).
func (r *Recorder[T]) Trace() Trace {
	var t Trace
	for _, rec := range r.Recs() {
		switch rec.K {
		case 'N':
			if t.End == 0 {
				t.Vals = append(t.Vals, rec.V)
			}
		case 'E':
			if t.End == 0 {
				t.End, t.Err = 'E', rec.Err
			}
		case 'C':
			if t.End == 0 {
				t.End = 'C'
			}
		}
	}
	return t
}

// Grammar checks Next* (Error|Complete)? and returns a description of the
// first violation ("" if none).
func (r *Recorder[T]) Grammar() string {
	term := false
	for i, rec := range r.Recs() {
		if term {
			return fmt.Sprintf("callback #%d %s delivered after a terminal", i, rec)
		}
		if rec.K != 'N' {
			term = true
		}
	}
	return ""
}

// Overlap returns a description if two callbacks ever ran at the same time.
func (r *Recorder[T]) Overlap() string {
	if atomic.LoadInt32(&r.MaxInside) > 1 {
		return fmt.Sprintf("callbacks overlapped (max simultaneous = %d)", r.MaxInside)
	}
	recs := r.Recs()
	for i := 1; i < len(recs); i++ {
		if recs[i-1].Out == 0 || recs[i].In < recs[i-1].Out {
			return fmt.Sprintf("callback #%d entered (stamp %d) before #%d exited (stamp %d)", i, recs[i].In, i-1, recs[i-1].Out)
		}
	}
	return ""
}

// Mutated compares each delivered value (as it is now) with its snapshot.
func (r *Recorder[T]) Mutated() string {
	r.mu.Lock()
	defer r.mu.Unlock()
	for i, rec := range r.recs {
		if rec.K != 'N' {
			continue
		}
		if !deepEqualNaN(rec.V, DeepCopy(r.live[i])) {
			return fmt.Sprintf("value #%d was %v at delivery and is %v now", i, rec.V, r.live[i])
		}
	}
	return ""
}

// DeepCopy copies slices and maps recursively (values of other kinds are
// returned as they are); channels, funcs and interfaces holding observables are
// kept by reference.
func DeepCopy(v any) any {
	if v == nil {
		return nil
	}
	rv := reflect.ValueOf(v)
	switch rv.Kind() {
	case reflect.Slice, reflect.Map, reflect.Struct, reflect.Array:
		return deepCopyValue(rv).Interface()
	}
	return v
}

func deepCopyValue(rv reflect.Value) reflect.Value {
	switch rv.Kind() {
	case reflect.Slice:
		if rv.IsNil() {
			return rv
		}
		out := reflect.MakeSlice(rv.Type(), rv.Len(), rv.Len())
		for i := 0; i < rv.Len(); i++ {
			out.Index(i).Set(deepCopyValue(rv.Index(i)))
		}
		return out
	case reflect.Array:
		out := reflect.New(rv.Type()).Elem()
		for i := 0; i < rv.Len(); i++ {
			out.Index(i).Set(deepCopyValue(rv.Index(i)))
		}
		return out
	case reflect.Map:
		if rv.IsNil() {
			return rv
		}
		out := reflect.MakeMapWithSize(rv.Type(), rv.Len())
		it := rv.MapRange()
		for it.Next() {
			out.SetMapIndex(it.Key(), deepCopyValue(it.Value()))
		}
		return out
	case reflect.Struct:
		out := reflect.New(rv.Type()).Elem()
		out.Set(rv)
		for i := 0; i < rv.NumField(); i++ {
			f := out.Field(i)
			if f.CanSet() {
				switch f.Kind() {
				case reflect.Slice, reflect.Map, reflect.Struct, reflect.Array:
					f.Set(deepCopyValue(rv.Field(i)))
				}
			}
		}
		return out
	case reflect.Interface:
		if rv.IsNil() {
			return rv
		}
		inner := deepCopyValue(rv.Elem())
		out := reflect.New(rv.Type()).Elem()
		out.Set(inner)
		return out
	}
	return rv
}

// deepEqualNaN is reflect.DeepEqual except that a float NaN equals itself.
func deepEqualNaN(a, b any) bool {
	if fa, ok := a.(float64); ok {
		if fb, ok := b.(float64); ok {
			return fa == fb || (fa != fa && fb != fb)
		}
	}
	return reflect.DeepEqual(a, b)
}
