package rt

import (
	"context"
	"sync"
	"sync/atomic"
	"time"

	"github.com/samber/ro"
)

// Ctor names a public observable constructor.
type Ctor string

const (
	CtorDefault       Ctor = "NewObservable"
	CtorSafe          Ctor = "NewSafeObservable"
	CtorUnsafe        Ctor = "NewUnsafeObservable"
	CtorEventually    Ctor = "NewEventuallySafeObservable"
	CtorDefaultCtx    Ctor = "NewObservableWithContext"
	CtorSafeCtx       Ctor = "NewSafeObservableWithContext"
	CtorUnsafeCtx     Ctor = "NewUnsafeObservableWithContext"
	CtorEventuallyCtx Ctor = "NewEventuallySafeObservableWithContext"
)

var AllCtors = []Ctor{CtorDefault, CtorSafe, CtorUnsafe, CtorEventually, CtorDefaultCtx, CtorSafeCtx, CtorUnsafeCtx, CtorEventuallyCtx}

// SerialCtors are the constructors that promise serialisation without dropping.
var SerialCtors = []Ctor{CtorDefault, CtorSafe, CtorDefaultCtx, CtorSafeCtx}

// Build makes an observable with the named constructor.
func Build[T any](c Ctor, f func(ctx context.Context, d ro.Observer[T]) ro.Teardown) ro.Observable[T] {
	nf := func(d ro.Observer[T]) ro.Teardown { return f(nil, d) }
	switch c {
	case CtorDefault:
		return ro.NewObservable(nf)
	case CtorSafe:
		return ro.NewSafeObservable(nf)
	case CtorUnsafe:
		return ro.NewUnsafeObservable(nf)
	case CtorEventually:
		return ro.NewEventuallySafeObservable(nf)
	case CtorDefaultCtx:
		return ro.NewObservableWithContext(f)
	case CtorSafeCtx:
		return ro.NewSafeObservableWithContext(f)
	case CtorUnsafeCtx:
		return ro.NewUnsafeObservableWithContext(f)
	case CtorEventuallyCtx:
		return ro.NewEventuallySafeObservableWithContext(f)
	}
	panic("unknown ctor " + string(c))
}

// Src carries the instrumentation shared by all harness sources.
type Src struct {
	Name      string
	Subs      int32 // subscriptions started
	Teardowns int32 // teardowns run
	Live      int32
	MaxLive   int32
	LateEmit  int32 // harness asked to emit after teardown
	mu        sync.Mutex
	SubCtxs   []context.Context
	// per-subscription teardown counts
	tdCount []int32
	// NoTeardown: return a nil teardown (legal for the constructor API).
	NilTeardown bool
	// OnSubscribe runs at the start of each subscription (fault injection).
	OnSubscribe func(n int)
	// OnTeardown runs inside each teardown.
	OnTeardown func(n int)
	// SubscribeCap: once Subs exceeds it (when > 0) the source completes at once
	// and sets CapExceeded (out-of-band cut for unbounded re-subscription).
	SubscribeCap int32
	CapExceeded  int32
}

func (s *Src) begin(ctx context.Context) int {
	s.mu.Lock()
	n := int(atomic.AddInt32(&s.Subs, 1)) - 1
	s.SubCtxs = append(s.SubCtxs, ctx)
	s.tdCount = append(s.tdCount, 0)
	s.mu.Unlock()
	l := atomic.AddInt32(&s.Live, 1)
	for {
		m := atomic.LoadInt32(&s.MaxLive)
		if l <= m || atomic.CompareAndSwapInt32(&s.MaxLive, m, l) {
			break
		}
	}
	return n
}

func (s *Src) teardown(n int) ro.Teardown {
	if s.NilTeardown {
		return nil
	}
	return func() {
		atomic.AddInt32(&s.Teardowns, 1)
		atomic.AddInt32(&s.Live, -1)
		s.mu.Lock()
		if n < len(s.tdCount) {
			s.tdCount[n]++
		}
		s.mu.Unlock()
		if s.OnTeardown != nil {
			s.OnTeardown(n)
		}
	}
}

// TeardownCounts returns, per subscription, how often its teardown ran.
func (s *Src) TeardownCounts() []int32 {
	s.mu.Lock()
	defer s.mu.Unlock()
	return append([]int32(nil), s.tdCount...)
}

// Released reports whether every started subscription has been torn down
// exactly once; otherwise a description.
func (s *Src) Released() string {
	if s.NilTeardown {
		return ""
	}
	for i, c := range s.TeardownCounts() {
		if c != 1 {
			return s.Name + ": subscription #" + itoa(i) + " teardown ran " + itoa(int(c)) + " times"
		}
	}
	return ""
}

func itoa(i int) string {
	if i == 0 {
		return "0"
	}
	neg := i < 0
	if neg {
		i = -i
	}
	var b [20]byte
	p := len(b)
	for i > 0 {
		p--
		b[p] = byte('0' + i%10)
		i /= 10
	}
	if neg {
		p--
		b[p] = '-'
	}
	return string(b[p:])
}

func itemCtx(ctx context.Context, i int) context.Context {
	if ctx == nil {
		return nil
	}
	return context.WithValue(ctx, ItemKey, i)
}

// NilErrV as the value of an 'E' event makes the source end with Error(nil).
const NilErrV = -424242

func emit(ctx context.Context, d ro.Observer[int], i int, e Ev) {
	switch e.K {
	case 'N':
		if ctx == nil {
			d.Next(e.V)
		} else {
			d.NextWithContext(context.WithValue(ctx, ItemKey, i), e.V)
		}
	case 'E':
		var err error
		if e.V != NilErrV {
			err = Err(e.V)
		}
		if ctx == nil {
			d.Error(err)
		} else {
			d.ErrorWithContext(context.WithValue(ctx, EndKey, i), err)
		}
	case 'C':
		if ctx == nil {
			d.Complete()
		} else {
			d.CompleteWithContext(context.WithValue(ctx, EndKey, i))
		}
	}
}

// ScriptSrc is a cold source that plays a fixed script synchronously inside its
// subscribe function, *including* anything that follows a terminal.
type ScriptSrc struct {
	Src
	Script []Ev
	Ctor   Ctor
	// Polite: stop playing once the destination reports closed (a well-behaved
	// producer); default false = plays everything.
	Polite bool
	// PanicAtEnd: the subscribe function panics after having played the script
	// (a producer that fails after - possibly - having terminated the stream).
	PanicAtEnd bool
}

func NewScript(name string, c Ctor, script []Ev) *ScriptSrc {
	return &ScriptSrc{Src: Src{Name: name}, Script: script, Ctor: c}
}

func (s *ScriptSrc) Observable() ro.Observable[int] {
	return Build(s.Ctor, func(ctx context.Context, d ro.Observer[int]) ro.Teardown {
		n := s.begin(ctx)
		if s.OnSubscribe != nil {
			s.OnSubscribe(n)
		}
		if s.SubscribeCap > 0 && int32(n) >= s.SubscribeCap {
			atomic.StoreInt32(&s.CapExceeded, 1)
			d.Complete()
			return s.teardown(n)
		}
		for i, e := range s.Script {
			if s.Polite && d.IsClosed() {
				break
			}
			emit(ctx, d, i, e)
		}
		if s.PanicAtEnd {
			panic(Err(99))
		}
		return s.teardown(n)
	})
}

// ManualSrc is a source whose notifications are pushed by the harness, one
// call at a time, from whatever goroutine the harness chooses. It never ends
// unless told to.
type ManualSrc struct {
	Src
	Ctor  Ctor
	dmu   sync.Mutex
	dests []*manualDest
	seq   int32
	// ItemCtxOver: values travel with a context that is already cancelled (derived
	// from the subscription context, the item marker still attached).
	ItemCtxOver bool
}

func overCtx(ctx context.Context) context.Context {
	if ctx == nil {
		return nil
	}
	c, cancel := context.WithCancel(ctx)
	cancel()
	return c
}

type manualDest struct {
	d    ro.Observer[int]
	ctx  context.Context
	dead int32
}

func NewManual(name string, c Ctor) *ManualSrc {
	return &ManualSrc{Src: Src{Name: name}, Ctor: c}
}

func (m *ManualSrc) Observable() ro.Observable[int] {
	return Build(m.Ctor, func(ctx context.Context, d ro.Observer[int]) ro.Teardown {
		n := m.begin(ctx)
		if m.OnSubscribe != nil {
			m.OnSubscribe(n)
		}
		md := &manualDest{d: d, ctx: ctx}
		m.dmu.Lock()
		m.dests = append(m.dests, md)
		m.dmu.Unlock()
		td := m.teardown(n)
		return func() {
			atomic.StoreInt32(&md.dead, 1)
			if td != nil {
				td()
			}
		}
	})
}

// Emit pushes one notification to every destination that has not been torn
// down (subscription order). It returns how many destinations were addressed.
func (m *ManualSrc) Emit(e Ev) int {
	m.dmu.Lock()
	ds := append([]*manualDest(nil), m.dests...)
	m.dmu.Unlock()
	i := int(atomic.AddInt32(&m.seq, 1)) - 1
	n := 0
	for _, md := range ds {
		if atomic.LoadInt32(&md.dead) == 1 {
			continue
		}
		n++
		if m.ItemCtxOver && e.K == 'N' {
			emit(overCtx(md.ctx), md.d, i, e)
			continue
		}
		emit(md.ctx, md.d, i, e)
	}
	if n == 0 {
		atomic.AddInt32(&m.LateEmit, 1)
	}
	return n
}

// EmitAll pushes to every destination ever registered, dead or not (an
// ill-behaved hot producer).
func (m *ManualSrc) EmitAll(e Ev) {
	m.dmu.Lock()
	ds := append([]*manualDest(nil), m.dests...)
	m.dmu.Unlock()
	i := int(atomic.AddInt32(&m.seq, 1)) - 1
	for _, md := range ds {
		emit(md.ctx, md.d, i, e)
	}
}

// LiveDests returns the number of destinations not torn down.
func (m *ManualSrc) LiveDests() int {
	m.dmu.Lock()
	defer m.dmu.Unlock()
	n := 0
	for _, md := range m.dests {
		if atomic.LoadInt32(&md.dead) == 0 {
			n++
		}
	}
	return n
}

// OutcomesSrc is a cold source whose n-th subscription plays the n-th script
// (the last one repeats).
type OutcomesSrc struct {
	Src
	Ctor    Ctor
	Scripts [][]Ev
	// Async: each attempt plays its script from a goroutine of its own.
	Async bool
	// StartDelay: an asynchronous attempt waits this long before its first notification.
	StartDelay time.Duration
	// Order records, per subscription start, whether the previous attempt's
	// teardown had already run (C15).
	mu2          sync.Mutex
	PrevReleased []bool
	PrevEnded    []bool
	ended        []bool
}

func NewOutcomes(name string, c Ctor, scripts [][]Ev) *OutcomesSrc {
	return &OutcomesSrc{Src: Src{Name: name}, Ctor: c, Scripts: scripts}
}

func (o *OutcomesSrc) Observable() ro.Observable[int] {
	return Build(o.Ctor, func(ctx context.Context, d ro.Observer[int]) ro.Teardown {
		n := o.begin(ctx)
		o.mu2.Lock()
		if n > 0 {
			tc := o.TeardownCounts()
			o.PrevReleased = append(o.PrevReleased, tc[n-1] == 1)
			o.PrevEnded = append(o.PrevEnded, o.ended[n-1])
		}
		o.ended = append(o.ended, false)
		o.mu2.Unlock()
		if o.OnSubscribe != nil {
			o.OnSubscribe(n)
		}
		if o.SubscribeCap > 0 && int32(n) >= o.SubscribeCap {
			atomic.StoreInt32(&o.CapExceeded, 1)
			d.Complete()
			return o.teardown(n)
		}
		var script []Ev
		if len(o.Scripts) > 0 {
			if n < len(o.Scripts) {
				script = o.Scripts[n]
			} else {
				script = o.Scripts[len(o.Scripts)-1]
			}
		}
		play := func() {
			if o.Async && o.StartDelay > 0 {
				time.Sleep(o.StartDelay)
			}
			for i, e := range script {
				if e.K != 'N' {
					o.mu2.Lock()
					o.ended[n] = true
					o.mu2.Unlock()
				}
				emit(ctx, d, i, e)
			}
		}
		if o.Async {
			go play()
		} else {
			play()
		}
		return o.teardown(n)
	})
}
