package rt

import (
	"context"
	"fmt"
	"sync"
	"sync/atomic"

	"github.com/samber/ro"
)

// Sink collects what the library surfaces through its two global hooks while
// it is the current sink.
type Sink struct {
	mu        sync.Mutex
	Dropped   []string
	Unhandled []error
	NilCtx    int // hook calls that received a nil context
}

var (
	curSink     atomic.Pointer[Sink]
	installOnce sync.Once
)

// InstallHooks routes ro.OnDroppedNotification / ro.OnUnhandledError to the
// current Sink (once per process; tests in this binary never run in parallel).
func InstallHooks() {
	installOnce.Do(func() {
		ro.OnDroppedNotification = func(ctx context.Context, n fmt.Stringer) {
			if s := curSink.Load(); s != nil {
				s.mu.Lock()
				s.Dropped = append(s.Dropped, n.String())
				if ctx == nil {
					s.NilCtx++
				}
				s.mu.Unlock()
			}
		}
		ro.OnUnhandledError = func(ctx context.Context, err error) {
			if s := curSink.Load(); s != nil {
				s.mu.Lock()
				s.Unhandled = append(s.Unhandled, err)
				if ctx == nil {
					s.NilCtx++
				}
				s.mu.Unlock()
			}
		}
	})
}

// NewSink installs a fresh sink as the current one.
func NewSink() *Sink {
	InstallHooks()
	s := &Sink{}
	curSink.Store(s)
	return s
}

func (s *Sink) DroppedCount() int {
	s.mu.Lock()
	defer s.mu.Unlock()
	return len(s.Dropped)
}

func (s *Sink) UnhandledErrs() []error {
	s.mu.Lock()
	defer s.mu.Unlock()
	return append([]error(nil), s.Unhandled...)
}

// DroppedList returns the dropped notifications seen so far (their String form).
func (s *Sink) DroppedList() []string {
	s.mu.Lock()
	defer s.mu.Unlock()
	return append([]string(nil), s.Dropped...)
}
