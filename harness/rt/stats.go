package rt

import (
	"encoding/binary"
	"encoding/json"
	"fmt"
	"hash/fnv"
	"os"
	"path/filepath"
	"regexp"
	"sort"
	"strconv"
	"strings"
	"sync"
)

// TB is the part of testing.TB / rapid.T the harness needs.
type TB interface {
	Fatalf(format string, args ...any)
	Helper()
}

// ---- environment -------------------------------------------------------------

func envInt(name string, def int64) int64 {
	if v := os.Getenv(name); v != "" {
		if n, err := strconv.ParseInt(v, 10, 64); err == nil {
			return n
		}
	}
	return def
}

// Seed is VERIF_SEED (default 1).
func Seed() int64 { return envInt("VERIF_SEED", 1) }

// Thorough reports whether VERIF_TIER=thorough.
func Thorough() bool { return os.Getenv("VERIF_TIER") == "thorough" }

// Root is the /verif directory.
func Root() string {
	if v := os.Getenv("VERIF_ROOT"); v != "" {
		return v
	}
	return "/verif"
}

var shardI, shardN = func() (int, int) {
	v := os.Getenv("VERIF_SHARD") // "i/n"
	if v == "" {
		return 0, 1
	}
	p := strings.SplitN(v, "/", 2)
	i, _ := strconv.Atoi(p[0])
	n, _ := strconv.Atoi(p[1])
	if n <= 0 {
		return 0, 1
	}
	return i, n
}()

// Mine reports whether enumeration index idx belongs to this shard.
func Mine(idx int) bool { return idx%shardN == shardI }

// ShardIndex / ShardCount expose the shard of this process.
func ShardIndex() int { return shardI }
func ShardCount() int { return shardN }

// ---- statistics --------------------------------------------------------------

type sample struct {
	h uint64
	v any
}

type stats struct {
	mu         sync.Mutex
	evals      int64
	nontrivial map[uint64]struct{}
	classes    map[string]int64
	first      []any
	res        []sample // 3 smallest hashes (deterministic reservoir)
	known      map[string]*knownHit
	notes      map[string]any
	violations []map[string]any
	excluded   int64
}

type knownHit struct {
	Count int    `json:"count"`
	What  string `json:"what"`
	First string `json:"first_message"`
}

var st = &stats{nontrivial: map[uint64]struct{}{}, classes: map[string]int64{}, known: map[string]*knownHit{}, notes: map[string]any{}}

func hash64(s string) uint64 {
	h := fnv.New64a()
	h.Write([]byte(s))
	return h.Sum64()
}

// Case counts one explored case. key is the canonical descriptor of the case
// ("" when the case is trivial by the property's rule; non-trivial cases are
// counted distinct by key). class feeds the generator-health histogram.
// mk builds the written-out sample lazily (only called when kept).
func Case(key string, nontrivial bool, class string, mk func() any) {
	h := hash64(key)
	st.mu.Lock()
	st.evals++
	if nontrivial {
		st.nontrivial[h] = struct{}{}
	}
	if class != "" {
		st.classes[class]++
	}
	keep := false
	if len(st.first) < 3 {
		keep = true
	} else if nontrivial && (len(st.res) < 3 || h < st.res[len(st.res)-1].h) {
		keep = true
	}
	st.mu.Unlock()
	if !keep || mk == nil {
		return
	}
	v := mk()
	st.mu.Lock()
	if len(st.first) < 3 {
		st.first = append(st.first, v)
	} else {
		dup := false
		for _, s := range st.res {
			if s.h == h {
				dup = true
			}
		}
		if !dup {
			st.res = append(st.res, sample{h, v})
			sort.Slice(st.res, func(i, j int) bool { return st.res[i].h < st.res[j].h })
			if len(st.res) > 3 {
				st.res = st.res[:3]
			}
		}
	}
	st.mu.Unlock()
}

// Class bumps a histogram class without counting a case.
func Class(class string, n int64) {
	st.mu.Lock()
	st.classes[class] += n
	st.mu.Unlock()
}

// Note records an extra evidence key.
func Note(k string, v any) {
	st.mu.Lock()
	st.notes[k] = v
	st.mu.Unlock()
}

// NoteAdd adds to an integer evidence key.
func NoteAdd(k string, n int64) {
	st.mu.Lock()
	cur, _ := st.notes[k].(int64)
	st.notes[k] = cur + n
	st.mu.Unlock()
}

// Excluded counts cases skipped by construction because of a listed finding.
func Excluded(n int64) {
	st.mu.Lock()
	st.excluded += n
	st.mu.Unlock()
}

// Flush writes the statistics of this process to $VERIF_STATS (JSON) and the
// non-trivial hashes to $VERIF_STATS.hashes (for exact merging across shards).
func Flush() {
	path := os.Getenv("VERIF_STATS")
	if path == "" {
		return
	}
	st.mu.Lock()
	defer st.mu.Unlock()
	samples := append([]any{}, st.first...)
	for _, s := range st.res {
		samples = append(samples, s.v)
	}
	out := map[string]any{
		"evaluations":         st.evals,
		"distinct_nontrivial": len(st.nontrivial),
		"classes":             st.classes,
		"samples":             samples,
		"known":               st.known,
		"notes":               st.notes,
		"violations":          st.violations,
		"excluded_known":      st.excluded,
	}
	b, _ := json.MarshalIndent(out, "", " ")
	_ = os.WriteFile(path, b, 0o644)
	hb := make([]byte, 0, 8*len(st.nontrivial))
	var tmp [8]byte
	for h := range st.nontrivial {
		binary.LittleEndian.PutUint64(tmp[:], h)
		hb = append(hb, tmp[:]...)
	}
	_ = os.WriteFile(path+".hashes", hb, 0o644)
}

// ---- findings ------------------------------------------------------------------

// Finding is one entry of /verif/known_findings.json.
type Finding struct {
	ID       string `json:"id"`
	Property string `json:"property"`
	Check    string `json:"check"` // regexp, anchored
	Op       string `json:"op"`    // regexp, anchored
	Class    string `json:"class"` // regexp, anchored
	What     string `json:"what"`
	Replay   string `json:"replay"`
	reC      *regexp.Regexp
	reO      *regexp.Regexp
	reK      *regexp.Regexp
}

type findingsFile struct {
	Findings []*Finding `json:"findings"`
	Fixed    []string   `json:"fixed"`
}

var (
	findOnce sync.Once
	findings []*Finding
)

func loadFindings() {
	findOnce.Do(func() {
		if os.Getenv("VERIF_NO_KNOWN") == "1" {
			return
		}
		b, err := os.ReadFile(filepath.Join(Root(), "known_findings.json"))
		if err != nil {
			return
		}
		var ff findingsFile
		if err := json.Unmarshal(b, &ff); err != nil {
			fmt.Fprintf(os.Stderr, "known_findings.json: %v\n", err)
			return
		}
		for _, f := range ff.Findings {
			f.reC = regexp.MustCompile("^(?:" + f.Check + ")$")
			f.reO = regexp.MustCompile("^(?:" + f.Op + ")$")
			f.reK = regexp.MustCompile("^(?:" + f.Class + ")$")
		}
		findings = ff.Findings
	})
}

// Failure describes one oracle failure.
type Failure struct {
	Property string `json:"property"`
	Check    string `json:"check"`
	Op       string `json:"op"`
	Class    string `json:"class"`
	Msg      string `json:"msg"`
	Case     any    `json:"case"`
}

// KnownFor returns the listed finding matching (property, check, op, class).
func KnownFor(property, check, op, class string) *Finding {
	loadFindings()
	for _, f := range findings {
		if f.Property == property && f.reC.MatchString(check) && f.reO.MatchString(op) && f.reK.MatchString(class) {
			return f
		}
	}
	return nil
}

var nameRe = regexp.MustCompile(`[^A-Za-z0-9_.-]+`)

// Report handles an oracle failure: a failure matching a listed finding is
// counted (and the run continues); anything else is written out as a replay
// file and fails the test. It returns true when the failure was fatal.
func Report(t TB, f Failure) bool {
	t.Helper()
	if kf := KnownFor(f.Property, f.Check, f.Op, f.Class); kf != nil {
		st.mu.Lock()
		h := st.known[kf.ID]
		if h == nil {
			h = &knownHit{What: kf.What, First: f.Msg}
			st.known[kf.ID] = h
		}
		h.Count++
		st.mu.Unlock()
		return false
	}
	if os.Getenv("VERIF_ALL") == "1" {
		// development aid: list every distinct failure class instead of stopping at the first
		k := f.Property + "|" + f.Check + "|" + f.Op + "|" + f.Class
		st.mu.Lock()
		_, seen := st.notes["all:"+k]
		st.notes["all:"+k] = true
		st.mu.Unlock()
		if !seen {
			fmt.Printf("ALL-FAIL %s :: %s\n", k, f.Msg)
		}
		return false
	}
	dir := os.Getenv("VERIF_REPLAY_DIR")
	if dir == "" {
		dir = filepath.Join(Root(), "replays")
	}
	_ = os.MkdirAll(dir, 0o755)
	name := nameRe.ReplaceAllString(fmt.Sprintf("%s-%s-%s-%s", f.Property, f.Check, f.Op, f.Class), "_")
	if len(name) > 150 {
		name = name[:150]
	}
	path := filepath.Join(dir, name+".json")
	b, _ := json.MarshalIndent(f, "", " ")
	_ = os.WriteFile(path, b, 0o644)
	st.mu.Lock()
	if len(st.violations) < 50 {
		st.violations = append(st.violations, map[string]any{"check": f.Check, "op": f.Op, "class": f.Class, "msg": f.Msg, "replay": path})
	}
	st.mu.Unlock()
	fmt.Printf("VERIF-FAIL property=%s check=%s op=%s class=%s replay=%s\n", f.Property, f.Check, f.Op, f.Class, path)
	t.Fatalf("[%s/%s op=%s class=%s] %s", f.Property, f.Check, f.Op, f.Class, f.Msg)
	return true
}
