package cat

import (
	"context"

	"github.com/samber/ro"
	"verifharness/model"
)

// Row is one behaviour of the catalogue.
type Row struct {
	Name     string
	Variants []string // constructor variants that must be observationally identical
	Params   [][]int  // boundary parameter tuples ([]int{} when the row has none)
	Build    func(variant string, p []int, e *Env) Stage
	Model    func(p []int, m *MEnv) model.Operator
	Pos      []string // user-callback positions (fault-injection points)
	// flags
	Waits     bool   // waits inside its subscribe function: only terminating inputs
	Resub     bool   // re-subscribes its source by definition
	Stateful  bool   // keeps per-subscription state (C12 non-triviality)
	Early     bool   // may terminate before its source
	NoSub0    bool   // some parameter values never subscribe the source (Take(0))
	Async     bool   // uses goroutines / timers (excluded from sync checks)
	CtxRule   string // "item" (default), "some", "end", "arg", "new"
	FloatIn   bool
	SubsPer   func(p []int, script int) int // expected source subscriptions per Subscribe (nil = 1)
	ErrCb     []string // positions that may return an error ("ret" faults)
	// Diverges reports inputs for which the definition itself never terminates
	// (the generator does not produce them), given the value count and ending.
	Diverges func(p []int, values int, end byte) bool
}

var (
	v4   = []string{"", "WithContext", "I", "IWithContext"}
	none = [][]int{{}}
)

func odd(x int) bool  { return x%2 == 1 }
func mapF(x int) int  { return x*3 + 1 }
func keyF(x int) int  { return x % 2 }
func accF(a, x int) int { return a*2 + x }

type (
	obsI = ro.Observable[int]
	opII = func(ro.Observable[int]) ro.Observable[int]
	ctxT = context.Context
)

// predA builds the four variants of an operator whose predicate family is
// (T)bool / (ctx,T)(ctx,bool) / (T,i)bool / (ctx,T,i)(ctx,bool).
func predA(e *Env, pos, variant string, f func(int) bool,
	plain func(func(int) bool) opII,
	wc func(func(ctxT, int) (ctxT, bool)) opII,
	ix func(func(int, int64) bool) opII,
	ixc func(func(ctxT, int, int64) (ctxT, bool)) opII) Stage {
	switch variant {
	case "":
		return st(plain(func(x int) bool { e.Hit(pos, nil, false); return f(x) }))
	case "WithContext":
		return st(wc(func(c ctxT, x int) (ctxT, bool) { e.Hit(pos, c, true); return e.Wrap(pos, c), f(x) }))
	case "I":
		return st(ix(func(x int, i int64) bool { e.Hit(pos, nil, false); e.SawIdx(pos, i); return f(x) }))
	case "IWithContext":
		return st(ixc(func(c ctxT, x int, i int64) (ctxT, bool) {
			e.Hit(pos, c, true)
			e.SawIdx(pos, i)
			return e.Wrap(pos, c), f(x)
		}))
	}
	panic("variant " + variant)
}

// predB: (T)bool / (ctx,T)bool / (T,i)bool / (ctx,T,i)bool, result type R.
func predB[R any](e *Env, pos, variant string, f func(int) bool,
	plain func(func(int) bool) func(obsI) ro.Observable[R],
	wc func(func(ctxT, int) bool) func(obsI) ro.Observable[R],
	ix func(func(int, int64) bool) func(obsI) ro.Observable[R],
	ixc func(func(ctxT, int, int64) bool) func(obsI) ro.Observable[R]) Stage {
	switch variant {
	case "":
		return st(plain(func(x int) bool { e.Hit(pos, nil, false); return f(x) }))
	case "WithContext":
		return st(wc(func(c ctxT, x int) bool { e.Hit(pos, c, true); return f(x) }))
	case "I":
		return st(ix(func(x int, i int64) bool { e.Hit(pos, nil, false); e.SawIdx(pos, i); return f(x) }))
	case "IWithContext":
		return st(ixc(func(c ctxT, x int, i int64) bool { e.Hit(pos, c, true); e.SawIdx(pos, i); return f(x) }))
	}
	panic("variant " + variant)
}

func mpred(m *MEnv, pos string, f func(int) bool) func(v any, i int) bool {
	return func(v any, i int) bool { m.Hit(pos); return f(v.(int)) }
}

func cnt(n int) func(p []int, l int) int { return func([]int, int) int { return n } }

// Rows is the catalogue of synchronous single-source behaviours.
var Rows = []*Row{
	// ---------------------------------------------------------------- transformation
	{Name: "Map", Variants: v4, Params: none, Pos: []string{"Map.project"}, Stateful: true,
		Build: func(v string, p []int, e *Env) Stage {
			const pos = "Map.project"
			switch v {
			case "":
				return st(ro.Map(func(x int) int { e.Hit(pos, nil, false); return mapF(x) }))
			case "WithContext":
				return st(ro.MapWithContext(func(c ctxT, x int) (ctxT, int) { e.Hit(pos, c, true); return e.Wrap(pos, c), mapF(x) }))
			case "I":
				return st(ro.MapI(func(x int, i int64) int { e.Hit(pos, nil, false); e.SawIdx(pos, i); return mapF(x) }))
			default:
				return st(ro.MapIWithContext(func(c ctxT, x int, i int64) (ctxT, int) {
					e.Hit(pos, c, true)
					e.SawIdx(pos, i)
					return e.Wrap(pos, c), mapF(x)
				}))
			}
		},
		Model: func(p []int, m *MEnv) model.Operator {
			return model.Map(func(v any, i int) any { m.Hit("Map.project"); return mapF(v.(int)) })
		}},
	{Name: "MapIdx", Variants: []string{"I", "IWithContext"}, Params: none, Stateful: true,
		Build: func(v string, p []int, e *Env) Stage {
			if v == "I" {
				return st(ro.MapI(func(x int, i int64) int { return x*10 + int(i) }))
			}
			return st(ro.MapIWithContext(func(c ctxT, x int, i int64) (ctxT, int) { return c, x*10 + int(i) }))
		},
		Model: func(p []int, m *MEnv) model.Operator {
			return model.Map(func(v any, i int) any { return v.(int)*10 + i })
		}},
	{Name: "MapTo", Variants: []string{""}, Params: none,
		Build: func(v string, p []int, e *Env) Stage { return st(ro.MapTo[int](7)) },
		Model: func(p []int, m *MEnv) model.Operator { return model.MapTo(7) }},
	{Name: "MapErr", Variants: v4, Params: [][]int{{1}, {2}, {3}, {9}}, Pos: []string{"MapErr.project"}, ErrCb: []string{"MapErr.project"}, Stateful: true, Early: true,
		// p[0]: the value for which the callback returns its own error (9 = never within scope)
		Build: func(v string, p []int, e *Env) Stage {
			const pos = "MapErr.project"
			f := func(c ctxT, has bool, x int) (int, error) {
				if err := e.HitErr(pos, c, has); err != nil {
					return 0, err
				}
				if x == p[0] {
					return 0, &Fault{Key: "maperr-own"}
				}
				return mapF(x), nil
			}
			switch v {
			case "":
				return st(ro.MapErr(func(x int) (int, error) { return f(nil, false, x) }))
			case "WithContext":
				return st(ro.MapErrWithContext(func(c ctxT, x int) (int, ctxT, error) {
					r, err := f(c, true, x)
					return r, e.Wrap(pos, c), err
				}))
			case "I":
				return st(ro.MapErrI(func(x int, i int64) (int, error) {
					e.SawIdx(pos, i)
					return f(nil, false, x)
				}))
			default:
				return st(ro.MapErrIWithContext(func(c ctxT, x int, i int64) (int, ctxT, error) {
					e.SawIdx(pos, i)
					r, err := f(c, true, x)
					return r, e.Wrap(pos, c), err
				}))
			}
		},
		Model: func(p []int, m *MEnv) model.Operator {
			return model.MapErr(func(v any, i int) (any, string) {
				if k := m.HitErr("MapErr.project"); k != "" {
					return nil, k
				}
				if v.(int) == p[0] {
					return nil, "maperr-own"
				}
				return mapF(v.(int)), ""
			})
		}},
	{Name: "Scan", Variants: v4, Params: none, Pos: []string{"Scan.reduce"}, Stateful: true,
		Build: func(v string, p []int, e *Env) Stage {
			const pos = "Scan.reduce"
			switch v {
			case "":
				return st(ro.Scan(func(a, x int) int { e.Hit(pos, nil, false); return accF(a, x) }, 1))
			case "WithContext":
				return st(ro.ScanWithContext(func(c ctxT, a, x int) (ctxT, int) { e.Hit(pos, c, true); return e.Wrap(pos, c), accF(a, x) }, 1))
			case "I":
				return st(ro.ScanI(func(a, x int, i int64) int { e.Hit(pos, nil, false); e.SawIdx(pos, i); return accF(a, x) }, 1))
			default:
				return st(ro.ScanIWithContext(func(c ctxT, a, x int, i int64) (ctxT, int) {
					e.Hit(pos, c, true)
					e.SawIdx(pos, i)
					return e.Wrap(pos, c), accF(a, x)
				}, 1))
			}
		},
		Model: func(p []int, m *MEnv) model.Operator {
			return model.Scan(func(a, v any, i int) any { m.Hit("Scan.reduce"); return accF(a.(int), v.(int)) }, 1)
		}},
	{Name: "BufferWithCount|Flatten", Variants: []string{""}, Params: [][]int{{1}, {2}, {3}}, Stateful: true,
		Build: func(v string, p []int, e *Env) Stage {
			return st(ro.PipeOp2(ro.BufferWithCount[int](p[0]), ro.Flatten[int]()))
		},
		Model: func(p []int, m *MEnv) model.Operator {
			b, f := model.BufferWithCount(p[0]), model.Flatten()
			return func(s model.Obs) model.Obs { return f(b(s)) }
		}},
	{Name: "Cast", Variants: []string{""}, Params: none,
		Build: func(v string, p []int, e *Env) Stage {
			return st(ro.PipeOp2(ro.Map(func(x int) any { return x }), ro.Cast[any, int]()))
		},
		Model: func(p []int, m *MEnv) model.Operator { return model.Identity() }},
	{Name: "CastMismatch", Variants: []string{""}, Params: none, Early: true,
		// every value equal to 2 is handed over as a string: Cast must fail there
		Build: func(v string, p []int, e *Env) Stage {
			return st(ro.PipeOp2(ro.Map(func(x int) any {
				if x == 2 {
					return "two"
				}
				return x
			}), ro.Cast[any, int]()))
		},
		Model: func(p []int, m *MEnv) model.Operator {
			return model.Cast(func(v any) (any, bool) { return v, v.(int) != 2 })
		}},
	{Name: "BufferWithCount", Variants: []string{""}, Params: [][]int{{1}, {2}, {3}, {5}, {6}}, Stateful: true,
		Build: func(v string, p []int, e *Env) Stage { return st(ro.BufferWithCount[int](p[0])) },
		Model: func(p []int, m *MEnv) model.Operator { return model.BufferWithCount(p[0]) }},
	{Name: "Pairwise", Variants: []string{""}, Params: none, Stateful: true,
		Build: func(v string, p []int, e *Env) Stage { return st(ro.Pairwise[int]()) },
		Model: func(p []int, m *MEnv) model.Operator { return model.Pairwise() }},
	{Name: "StartWith", Variants: []string{""}, Params: [][]int{{0}, {1}, {2}},
		Build: func(v string, p []int, e *Env) Stage { return st(ro.StartWith(seq(p[0], 70)...)) },
		Model: func(p []int, m *MEnv) model.Operator { return model.StartWith(anys(seq(p[0], 70))...) }},
	{Name: "EndWith", Variants: []string{""}, Params: [][]int{{0}, {1}, {2}},
		Build: func(v string, p []int, e *Env) Stage { return st(ro.EndWith(seq(p[0], 80)...)) },
		Model: func(p []int, m *MEnv) model.Operator { return model.EndWith(anys(seq(p[0], 80))...) }},
	{Name: "FlatMap", Variants: v4, Params: none, Pos: []string{"FlatMap.project"}, Stateful: true, Waits: true,
		Build: func(v string, p []int, e *Env) Stage {
			const pos = "FlatMap.project"
			pr := func(x int) obsI { return ro.Just(x, x+10) }
			switch v {
			case "":
				return st(ro.FlatMap(func(x int) obsI { e.Hit(pos, nil, false); return pr(x) }))
			case "WithContext":
				return st(ro.FlatMapWithContext(func(c ctxT, x int) obsI { e.Hit(pos, c, true); return pr(x) }))
			case "I":
				return st(ro.FlatMapI(func(x int, i int64) obsI { e.Hit(pos, nil, false); e.SawIdx(pos, i); return pr(x) }))
			default:
				return st(ro.FlatMapIWithContext(func(c ctxT, x int, i int64) obsI { e.Hit(pos, c, true); e.SawIdx(pos, i); return pr(x) }))
			}
		},
		Model: func(p []int, m *MEnv) model.Operator {
			return model.FlatMap(func(v any, i int) model.Obs {
				m.Hit("FlatMap.project")
				x := v.(int)
				return model.Cold([]model.In{{K: 'N', V: x}, {K: 'N', V: x + 10}, {K: 'C'}})
			})
		}},
	{Name: "MergeMap", Variants: v4, Params: none, Pos: []string{"MergeMap.project"}, Stateful: true,
		// with synchronous cold inners, merging degenerates to concatenation: each
		// inner runs to its end inside the outer Next
		Build: func(v string, p []int, e *Env) Stage {
			const pos = "MergeMap.project"
			pr := func(x int) obsI { return ro.Just(x, x+10) }
			switch v {
			case "":
				return st(ro.MergeMap(func(x int) obsI { e.Hit(pos, nil, false); return pr(x) }))
			case "WithContext":
				return st(ro.MergeMapWithContext(func(c ctxT, x int) obsI { e.Hit(pos, c, true); return pr(x) }))
			case "I":
				return st(ro.MergeMapI(func(x int, i int64) obsI { e.Hit(pos, nil, false); e.SawIdx(pos, i); return pr(x) }))
			default:
				return st(ro.MergeMapIWithContext(func(c ctxT, x int, i int64) (ctxT, obsI) {
					e.Hit(pos, c, true)
					e.SawIdx(pos, i)
					return e.Wrap(pos, c), pr(x)
				}))
			}
		},
		Model: func(p []int, m *MEnv) model.Operator {
			return model.MergeMapCold(func(v any, i int) model.Obs {
				m.Hit("MergeMap.project")
				x := v.(int)
				return model.Cold([]model.In{{K: 'N', V: x}, {K: 'N', V: x + 10}, {K: 'C'}})
			})
		}},
	{Name: "MergeMapIdx", Variants: []string{"I", "IWithContext"}, Params: none, Stateful: true,
		Build: func(v string, p []int, e *Env) Stage {
			if v == "I" {
				return st(ro.MergeMapI(func(x int, i int64) obsI { return ro.Just(x*10 + int(i)) }))
			}
			return st(ro.MergeMapIWithContext(func(c ctxT, x int, i int64) (ctxT, obsI) { return c, ro.Just(x*10 + int(i)) }))
		},
		Model: func(p []int, m *MEnv) model.Operator {
			return model.MergeMapCold(func(v any, i int) model.Obs {
				return model.Cold([]model.In{{K: 'N', V: v.(int)*10 + i}, {K: 'C'}})
			})
		}},
	// ---------------------------------------------------------------- filtering
	{Name: "Filter", Variants: v4, Params: none, Pos: []string{"Filter.pred"}, Stateful: true,
		Build: func(v string, p []int, e *Env) Stage {
			return predA(e, "Filter.pred", v, odd, ro.Filter[int], ro.FilterWithContext[int], ro.FilterI[int], ro.FilterIWithContext[int])
		},
		Model: func(p []int, m *MEnv) model.Operator { return model.Filter(mpred(m, "Filter.pred", odd)) }},
	{Name: "FilterIdx", Variants: []string{"I", "IWithContext"}, Params: none, Stateful: true,
		Build: func(v string, p []int, e *Env) Stage {
			if v == "I" {
				return st(ro.FilterI(func(x int, i int64) bool { return i%2 == 0 }))
			}
			return st(ro.FilterIWithContext(func(c ctxT, x int, i int64) (ctxT, bool) { return c, i%2 == 0 }))
		},
		Model: func(p []int, m *MEnv) model.Operator {
			return model.Filter(func(v any, i int) bool { return i%2 == 0 })
		}},
	{Name: "Distinct", Variants: []string{""}, Params: none, Stateful: true,
		Build: func(v string, p []int, e *Env) Stage { return st(ro.Distinct[int]()) },
		Model: func(p []int, m *MEnv) model.Operator { return model.DistinctBy(func(v any) any { return v }) }},
	{Name: "DistinctBy", Variants: []string{"", "WithContext"}, Params: none, Pos: []string{"DistinctBy.key"}, Stateful: true,
		Build: func(v string, p []int, e *Env) Stage {
			const pos = "DistinctBy.key"
			if v == "" {
				return st(ro.DistinctBy(func(x int) int { e.Hit(pos, nil, false); return keyF(x) }))
			}
			return st(ro.DistinctByWithContext(func(c ctxT, x int) (ctxT, int) { e.Hit(pos, c, true); return e.Wrap(pos, c), keyF(x) }))
		},
		Model: func(p []int, m *MEnv) model.Operator {
			return model.DistinctBy(func(v any) any { m.Hit("DistinctBy.key"); return keyF(v.(int)) })
		}},
	{Name: "IgnoreElements", Variants: []string{""}, Params: none,
		Build: func(v string, p []int, e *Env) Stage { return st(ro.IgnoreElements[int]()) },
		Model: func(p []int, m *MEnv) model.Operator { return model.IgnoreElements() }},
	{Name: "Skip", Variants: []string{""}, Params: [][]int{{0}, {1}, {2}, {4}, {5}, {6}}, Stateful: true,
		Build: func(v string, p []int, e *Env) Stage { return st(ro.Skip[int](int64(p[0]))) },
		Model: func(p []int, m *MEnv) model.Operator { return model.Skip(p[0]) }},
	{Name: "SkipWhile", Variants: v4, Params: none, Pos: []string{"SkipWhile.pred"}, Stateful: true,
		Build: func(v string, p []int, e *Env) Stage {
			return predA(e, "SkipWhile.pred", v, odd, ro.SkipWhile[int], ro.SkipWhileWithContext[int], ro.SkipWhileI[int], ro.SkipWhileIWithContext[int])
		},
		Model: func(p []int, m *MEnv) model.Operator { return model.SkipWhile(mpred(m, "SkipWhile.pred", odd)) }},
	{Name: "SkipLast", Variants: []string{""}, Params: [][]int{{1}, {2}, {4}, {5}, {6}}, Stateful: true, CtxRule: "item",
		Build: func(v string, p []int, e *Env) Stage { return st(ro.SkipLast[int](p[0])) },
		Model: func(p []int, m *MEnv) model.Operator { return model.SkipLast(p[0]) }},
	{Name: "Take", Variants: []string{""}, Params: [][]int{{0}, {1}, {2}, {4}, {5}, {6}}, Stateful: true, Early: true, NoSub0: true,
		Build: func(v string, p []int, e *Env) Stage { return st(ro.Take[int](int64(p[0]))) },
		Model: func(p []int, m *MEnv) model.Operator { return model.Take(p[0]) },
		SubsPer: func(p []int, l int) int {
			if p[0] == 0 {
				return 0
			}
			return 1
		}},
	{Name: "TakeWhile", Variants: v4, Params: none, Pos: []string{"TakeWhile.pred"}, Stateful: true, Early: true,
		Build: func(v string, p []int, e *Env) Stage {
			return predA(e, "TakeWhile.pred", v, odd, ro.TakeWhile[int], ro.TakeWhileWithContext[int], ro.TakeWhileI[int], ro.TakeWhileIWithContext[int])
		},
		Model: func(p []int, m *MEnv) model.Operator { return model.TakeWhile(mpred(m, "TakeWhile.pred", odd)) }},
	{Name: "TakeLast", Variants: []string{""}, Params: [][]int{{0}, {1}, {2}, {4}, {5}, {6}}, Stateful: true, NoSub0: true, CtxRule: "item",
		Build: func(v string, p []int, e *Env) Stage { return st(ro.TakeLast[int](p[0])) },
		Model: func(p []int, m *MEnv) model.Operator { return model.TakeLast(p[0]) },
		SubsPer: func(p []int, l int) int {
			if p[0] == 0 {
				return 0
			}
			return 1
		}},
	{Name: "Head", Variants: []string{""}, Params: none, Early: true,
		Build: func(v string, p []int, e *Env) Stage { return st(ro.Head[int]()) },
		Model: func(p []int, m *MEnv) model.Operator { return model.Head() }},
	{Name: "Tail", Variants: []string{""}, Params: none, Stateful: true,
		Build: func(v string, p []int, e *Env) Stage { return st(ro.Tail[int]()) },
		Model: func(p []int, m *MEnv) model.Operator { return model.Tail() }},
	{Name: "First", Variants: v4, Params: none, Pos: []string{"First.pred"}, Stateful: true, Early: true,
		Build: func(v string, p []int, e *Env) Stage {
			return predA(e, "First.pred", v, func(x int) bool { return x == 2 }, ro.First[int], ro.FirstWithContext[int], ro.FirstI[int], ro.FirstIWithContext[int])
		},
		Model: func(p []int, m *MEnv) model.Operator {
			return model.First(mpred(m, "First.pred", func(x int) bool { return x == 2 }))
		}},
	{Name: "Last", Variants: v4, Params: none, Pos: []string{"Last.pred"}, Stateful: true,
		Build: func(v string, p []int, e *Env) Stage {
			return predA(e, "Last.pred", v, odd, ro.Last[int], ro.LastWithContext[int], ro.LastI[int], ro.LastIWithContext[int])
		},
		Model: func(p []int, m *MEnv) model.Operator { return model.Last(mpred(m, "Last.pred", odd)) }},
	{Name: "ElementAt", Variants: []string{""}, Params: [][]int{{0}, {1}, {2}, {4}, {5}, {6}}, Stateful: true, Early: true,
		Build: func(v string, p []int, e *Env) Stage { return st(ro.ElementAt[int](p[0])) },
		Model: func(p []int, m *MEnv) model.Operator { return model.ElementAt(p[0]) }},
	{Name: "ElementAtOrDefault", Variants: []string{""}, Params: [][]int{{0}, {1}, {2}, {4}, {5}, {6}}, Stateful: true, Early: true,
		Build: func(v string, p []int, e *Env) Stage { return st(ro.ElementAtOrDefault[int](int64(p[0]), 99)) },
		Model: func(p []int, m *MEnv) model.Operator { return model.ElementAtOrDefault(p[0], 99) }},
	// ---------------------------------------------------------------- conditional
	{Name: "All", Variants: v4, Params: none, Pos: []string{"All.pred"}, Stateful: true, CtxRule: "end",
		Build: func(v string, p []int, e *Env) Stage {
			return predB(e, "All.pred", v, odd, ro.All[int], ro.AllWithContext[int], ro.AllI[int], ro.AllIWithContext[int])
		},
		Model: func(p []int, m *MEnv) model.Operator { return model.All(mpred(m, "All.pred", odd)) }},
	{Name: "Contains", Variants: v4, Params: none, Pos: []string{"Contains.pred"}, Stateful: true, Early: true,
		Build: func(v string, p []int, e *Env) Stage {
			return predB(e, "Contains.pred", v, func(x int) bool { return x == 2 }, ro.Contains[int], ro.ContainsWithContext[int], ro.ContainsI[int], ro.ContainsIWithContext[int])
		},
		Model: func(p []int, m *MEnv) model.Operator {
			return model.Contains(mpred(m, "Contains.pred", func(x int) bool { return x == 2 }))
		}},
	{Name: "Find", Variants: v4, Params: none, Pos: []string{"Find.pred"}, Stateful: true, Early: true,
		Build: func(v string, p []int, e *Env) Stage {
			return predB(e, "Find.pred", v, func(x int) bool { return x == 2 }, ro.Find[int], ro.FindWithContext[int], ro.FindI[int], ro.FindIWithContext[int])
		},
		Model: func(p []int, m *MEnv) model.Operator {
			return model.Find(mpred(m, "Find.pred", func(x int) bool { return x == 2 }))
		}},
	{Name: "DefaultIfEmpty", Variants: []string{"", "WithContext"}, Params: none, Stateful: true, CtxRule: "end",
		Build: func(v string, p []int, e *Env) Stage {
			if v == "" {
				return st(ro.DefaultIfEmpty(42))
			}
			return st(ro.DefaultIfEmptyWithContext(context.WithValue(context.Background(), midKey("DefaultIfEmpty.arg"), true), 42))
		},
		Model: func(p []int, m *MEnv) model.Operator { return model.DefaultIfEmpty(42) }},
	// ---------------------------------------------------------------- math
	{Name: "Count", Variants: []string{""}, Params: none, Stateful: true, CtxRule: "end",
		Build: func(v string, p []int, e *Env) Stage { return st(ro.Count[int]()) },
		Model: func(p []int, m *MEnv) model.Operator { return model.Count() }},
	{Name: "Sum", Variants: []string{""}, Params: none, Stateful: true, CtxRule: "end",
		Build: func(v string, p []int, e *Env) Stage { return st(ro.Sum[int]()) },
		Model: func(p []int, m *MEnv) model.Operator { return model.Sum() }},
	{Name: "Average", Variants: []string{""}, Params: none, Stateful: true, CtxRule: "end",
		Build: func(v string, p []int, e *Env) Stage { return st(ro.Average[int]()) },
		Model: func(p []int, m *MEnv) model.Operator { return model.Average() }},
	{Name: "Min", Variants: []string{""}, Params: none, Stateful: true, CtxRule: "some",
		Build: func(v string, p []int, e *Env) Stage { return st(ro.Min[int]()) },
		Model: func(p []int, m *MEnv) model.Operator { return model.MinMax(false) }},
	{Name: "Max", Variants: []string{""}, Params: none, Stateful: true, CtxRule: "some",
		Build: func(v string, p []int, e *Env) Stage { return st(ro.Max[int]()) },
		Model: func(p []int, m *MEnv) model.Operator { return model.MinMax(true) }},
	{Name: "Clamp", Variants: []string{""}, Params: [][]int{{2, 2}, {1, 2}, {0, 9}, {3, 3}},
		Build: func(v string, p []int, e *Env) Stage { return st(ro.Clamp(p[0], p[1])) },
		Model: func(p []int, m *MEnv) model.Operator { return model.Clamp(p[0], p[1]) }},
	{Name: "Reduce", Variants: v4, Params: none, Pos: []string{"Reduce.acc"}, Stateful: true, CtxRule: "some",
		Build: func(v string, p []int, e *Env) Stage {
			const pos = "Reduce.acc"
			switch v {
			case "":
				return st(ro.Reduce(func(a, x int) int { e.Hit(pos, nil, false); return accF(a, x) }, 1))
			case "WithContext":
				return st(ro.ReduceWithContext(func(c ctxT, a, x int) (ctxT, int) { e.Hit(pos, c, true); return e.Wrap(pos, c), accF(a, x) }, 1))
			case "I":
				return st(ro.ReduceI(func(a, x int, i int64) int { e.Hit(pos, nil, false); e.SawIdx(pos, i); return accF(a, x) }, 1))
			default:
				return st(ro.ReduceIWithContext(func(c ctxT, a, x int, i int64) (ctxT, int) {
					e.Hit(pos, c, true)
					e.SawIdx(pos, i)
					return e.Wrap(pos, c), accF(a, x)
				}, 1))
			}
		},
		Model: func(p []int, m *MEnv) model.Operator {
			return model.Reduce(func(a, v any, i int) any { m.Hit("Reduce.acc"); return accF(a.(int), v.(int)) }, 1)
		}},
	// ---------------------------------------------------------------- sinks
	{Name: "ToSlice", Variants: []string{""}, Params: none, Stateful: true, CtxRule: "end",
		Build: func(v string, p []int, e *Env) Stage { return st(ro.ToSlice[int]()) },
		Model: func(p []int, m *MEnv) model.Operator { return model.ToSlice() }},
	{Name: "ToMap", Variants: v4, Params: none, Pos: []string{"ToMap.project"}, Stateful: true, CtxRule: "end",
		Build: func(v string, p []int, e *Env) Stage {
			const pos = "ToMap.project"
			switch v {
			case "":
				return st(ro.ToMap(func(x int) (int, int) { e.Hit(pos, nil, false); return keyF(x), x }))
			case "WithContext":
				return st(ro.ToMapWithContext(func(c ctxT, x int) (int, int) { e.Hit(pos, c, true); return keyF(x), x }))
			case "I":
				return st(ro.ToMapI(func(x int, i int64) (int, int) { e.Hit(pos, nil, false); e.SawIdx(pos, i); return keyF(x), x }))
			default:
				return st(ro.ToMapIWithContext(func(c ctxT, x int, i int64) (int, int) { e.Hit(pos, c, true); e.SawIdx(pos, i); return keyF(x), x }))
			}
		},
		Model: func(p []int, m *MEnv) model.Operator {
			return model.ToMap(func(v any, i int) (any, any) { m.Hit("ToMap.project"); return keyF(v.(int)), v })
		}},
	// ---------------------------------------------------------------- utility
	{Name: "Tap", Variants: []string{"Tap", "TapWithContext", "Do", "DoWithContext"}, Params: none, Pos: []string{"Tap.next", "Tap.error", "Tap.complete"},
		Build: func(v string, p []int, e *Env) Stage {
			n := func(x int) { e.Hit("Tap.next", nil, false) }
			er := func(err error) { e.Hit("Tap.error", nil, false) }
			c := func() { e.Hit("Tap.complete", nil, false) }
			nc := func(cx ctxT, x int) { e.Hit("Tap.next", cx, true) }
			ec := func(cx ctxT, err error) { e.Hit("Tap.error", cx, true) }
			cc := func(cx ctxT) { e.Hit("Tap.complete", cx, true) }
			switch v {
			case "Tap":
				return st(ro.Tap(n, er, c))
			case "Do":
				return st(ro.Do(n, er, c))
			case "TapWithContext":
				return st(ro.TapWithContext(nc, ec, cc))
			default:
				return st(ro.DoWithContext(nc, ec, cc))
			}
		},
		Model: func(p []int, m *MEnv) model.Operator {
			return model.Tap(func(any) { m.Hit("Tap.next") }, func(string) { m.Hit("Tap.error") }, func() { m.Hit("Tap.complete") })
		}},
	{Name: "TapOnNext", Variants: []string{"TapOnNext", "TapOnNextWithContext", "DoOnNext", "DoOnNextWithContext"}, Params: none, Pos: []string{"Tap.next"},
		Build: func(v string, p []int, e *Env) Stage {
			n := func(x int) { e.Hit("Tap.next", nil, false) }
			nc := func(cx ctxT, x int) { e.Hit("Tap.next", cx, true) }
			switch v {
			case "TapOnNext":
				return st(ro.TapOnNext(n))
			case "DoOnNext":
				return st(ro.DoOnNext(n))
			case "TapOnNextWithContext":
				return st(ro.TapOnNextWithContext(nc))
			default:
				return st(ro.DoOnNextWithContext(nc))
			}
		},
		Model: func(p []int, m *MEnv) model.Operator {
			return model.Tap(func(any) { m.Hit("Tap.next") }, func(string) {}, func() {})
		}},
	{Name: "TapOnError", Variants: []string{"TapOnError", "TapOnErrorWithContext", "DoOnError", "DoOnErrorWithContext"}, Params: none, Pos: []string{"Tap.error"},
		Build: func(v string, p []int, e *Env) Stage {
			n := func(err error) { e.Hit("Tap.error", nil, false) }
			nc := func(cx ctxT, err error) { e.Hit("Tap.error", cx, true) }
			switch v {
			case "TapOnError":
				return st(ro.TapOnError[int](n))
			case "DoOnError":
				return st(ro.DoOnError[int](n))
			case "TapOnErrorWithContext":
				return st(ro.TapOnErrorWithContext[int](nc))
			default:
				return st(ro.DoOnErrorWithContext[int](nc))
			}
		},
		Model: func(p []int, m *MEnv) model.Operator {
			return model.Tap(func(any) {}, func(string) { m.Hit("Tap.error") }, func() {})
		}},
	{Name: "TapOnComplete", Variants: []string{"TapOnComplete", "TapOnCompleteWithContext", "DoOnComplete", "DoOnCompleteWithContext"}, Params: none, Pos: []string{"Tap.complete"},
		Build: func(v string, p []int, e *Env) Stage {
			n := func() { e.Hit("Tap.complete", nil, false) }
			nc := func(cx ctxT) { e.Hit("Tap.complete", cx, true) }
			switch v {
			case "TapOnComplete":
				return st(ro.TapOnComplete[int](n))
			case "DoOnComplete":
				return st(ro.DoOnComplete[int](n))
			case "TapOnCompleteWithContext":
				return st(ro.TapOnCompleteWithContext[int](nc))
			default:
				return st(ro.DoOnCompleteWithContext[int](nc))
			}
		},
		Model: func(p []int, m *MEnv) model.Operator {
			return model.Tap(func(any) {}, func(string) {}, func() { m.Hit("Tap.complete") })
		}},
	{Name: "TapOnSubscribe", Variants: []string{"TapOnSubscribe", "TapOnSubscribeWithContext", "DoOnSubscribe", "DoOnSubscribeWithContext"}, Params: none, Pos: []string{"Tap.subscribe"},
		Build: func(v string, p []int, e *Env) Stage {
			n := func() { e.Hit("Tap.subscribe", nil, false) }
			nc := func(cx ctxT) { e.Hit("Tap.subscribe", cx, true) }
			switch v {
			case "TapOnSubscribe":
				return st(ro.TapOnSubscribe[int](n))
			case "DoOnSubscribe":
				return st(ro.DoOnSubscribe[int](n))
			case "TapOnSubscribeWithContext":
				return st(ro.TapOnSubscribeWithContext[int](nc))
			default:
				return st(ro.DoOnSubscribeWithContext[int](nc))
			}
		},
		Model: func(p []int, m *MEnv) model.Operator {
			return model.TapOnSubscribe(func() { m.Hit("Tap.subscribe") })
		}},
	{Name: "TapOnFinalize", Variants: []string{"TapOnFinalize", "DoOnFinalize"}, Params: none, Pos: []string{"Tap.finalize"},
		Build: func(v string, p []int, e *Env) Stage {
			f := func() { e.Hit("Tap.finalize", nil, false) }
			if v == "TapOnFinalize" {
				return st(ro.TapOnFinalize[int](f))
			}
			return st(ro.DoOnFinalize[int](f))
		},
		Model: func(p []int, m *MEnv) model.Operator { return model.PassThrough() }},
	{Name: "Serialize", Variants: []string{""}, Params: none,
		Build: func(v string, p []int, e *Env) Stage { return st(ro.Serialize[int]()) },
		Model: func(p []int, m *MEnv) model.Operator { return model.PassThrough() }},
	{Name: "Materialize", Variants: []string{""}, Params: none,
		Build: func(v string, p []int, e *Env) Stage { return st(ro.Materialize[int]()) },
		Model: func(p []int, m *MEnv) model.Operator { return model.Materialize() }},
	{Name: "Materialize|Dematerialize", Variants: []string{""}, Params: none,
		Build: func(v string, p []int, e *Env) Stage {
			return st(ro.PipeOp2(ro.Materialize[int](), ro.Dematerialize[int]()))
		},
		Model: func(p []int, m *MEnv) model.Operator {
			a, b := model.Materialize(), model.Dematerialize()
			return func(s model.Obs) model.Obs { return b(a(s)) }
		}},
	{Name: "ContextWithValue", Variants: []string{""}, Params: none,
		Build: func(v string, p []int, e *Env) Stage { return st(ro.ContextWithValue[int](midKey("ContextWithValue"), true)) },
		Model: func(p []int, m *MEnv) model.Operator { return model.Identity() }},
	{Name: "ContextMap", Variants: []string{"", "I"}, Params: none, Pos: []string{"ContextMap.project"},
		Build: func(v string, p []int, e *Env) Stage {
			const pos = "ContextMap.project"
			if v == "" {
				return st(ro.ContextMap[int](func(c ctxT) ctxT { e.Hit(pos, c, true); return context.WithValue(c, midKey(pos), true) }))
			}
			return st(ro.ContextMapI[int](func(c ctxT, i int64) ctxT {
				e.Hit(pos, c, true)
				e.SawIdx(pos, i)
				return context.WithValue(c, midKey(pos), true)
			}))
		},
		Model: func(p []int, m *MEnv) model.Operator {
			return model.Map(func(v any, i int) any { m.Hit("ContextMap.project"); return v })
		}},
	// ---------------------------------------------------------------- error handling
	{Name: "OnErrorReturn", Variants: []string{""}, Params: none,
		Build: func(v string, p []int, e *Env) Stage { return st(ro.OnErrorReturn(55)) },
		Model: func(p []int, m *MEnv) model.Operator { return model.OnErrorReturn(55) }},
	{Name: "ThrowIfEmpty", Variants: []string{""}, Params: none, Pos: []string{"ThrowIfEmpty.throw"}, Stateful: true,
		Build: func(v string, p []int, e *Env) Stage {
			return st(ro.ThrowIfEmpty[int](func() error { e.Hit("ThrowIfEmpty.throw", nil, false); return ErrThrown }))
		},
		Model: func(p []int, m *MEnv) model.Operator {
			return model.ThrowIfEmpty(func() string { m.Hit("ThrowIfEmpty.throw"); return model.ErrThrowIfEmpty })
		}},
	{Name: "Catch", Variants: []string{""}, Params: [][]int{{0}, {1}}, Pos: []string{"Catch.finally"},
		// p[0] = 0: fallback succeeds (60, 61, C); 1: fallback fails (60, E9)
		Build: func(v string, p []int, e *Env) Stage {
			return st(ro.Catch(func(err error) obsI {
				e.Hit("Catch.finally", nil, false)
				if p[0] == 0 {
					return ro.Just(60, 61)
				}
				return ro.Pipe1(ro.Just(60), ro.MapErr(func(x int) (int, error) { return 0, errOf(9) }))
			}))
		},
		Model: func(p []int, m *MEnv) model.Operator {
			return model.Catch(func(string) model.Obs {
				m.Hit("Catch.finally")
				if p[0] == 0 {
					return model.Cold([]model.In{{K: 'N', V: 60}, {K: 'N', V: 61}, {K: 'C'}})
				}
				return model.Cold([]model.In{{K: 'E', E: "e9"}})
			})
		}},
	{Name: "OnErrorResumeNextWith", Variants: []string{""}, Params: [][]int{{0}, {1}, {2}}, Waits: true, Resub: true,
		// p[0] = number of fallbacks; fallback k emits 60+k and the last one errors when p[0] == 2
		Build: func(v string, p []int, e *Env) Stage {
			return st(ro.OnErrorResumeNextWith(resumeReal(p[0])...))
		},
		Model: func(p []int, m *MEnv) model.Operator { return model.OnErrorResumeNextWith(resumeModel(p[0])...) }},
	{Name: "Retry", Variants: []string{"Retry", "RetryWithConfig"}, Params: [][]int{{1, 0}, {2, 0}, {3, 0}, {1, 1}, {2, 1}}, Waits: true, Resub: true,
		// p = {MaxRetries, ResetOnSuccess}; the plain Retry variant is only run with a capped source
		Build: func(v string, p []int, e *Env) Stage {
			return st(ro.RetryWithConfig[int](ro.RetryConfig{MaxRetries: uint64(p[0]), ResetOnSuccess: p[1] == 1}))
		},
		Model: func(p []int, m *MEnv) model.Operator { return model.Retry(p[0], p[1] == 1) },
		// ResetOnSuccess over a source that delivers a value and then fails retries for ever (documented)
		Diverges: func(p []int, values int, end byte) bool { return p[1] == 1 && values > 0 && end == 'E' }},
	{Name: "RepeatWith", Variants: []string{""}, Params: [][]int{{0}, {1}, {2}, {3}}, Waits: true, Resub: true, NoSub0: true,
		Build: func(v string, p []int, e *Env) Stage { return st(ro.RepeatWith[int](int64(p[0]))) },
		Model: func(p []int, m *MEnv) model.Operator { return model.RepeatWith(p[0]) }},
	{Name: "DoWhile", Variants: v4, Params: [][]int{{0}, {1}, {2}}, Pos: []string{"DoWhile.cond"}, Waits: true, Resub: true,
		// p[0] = number of times the condition answers true
		Build: func(v string, p []int, e *Env) Stage {
			const pos = "DoWhile.cond"
			n := 0
			cond := func() bool { n++; return n <= p[0] }
			switch v {
			case "":
				return resetting(&n, ro.DoWhile[int](func() bool { e.Hit(pos, nil, false); return cond() }))
			case "WithContext":
				return resetting(&n, ro.DoWhileWithContext[int](func(c ctxT) (ctxT, bool) { e.Hit(pos, c, true); return e.Wrap(pos, c), cond() }))
			case "I":
				return resetting(&n, ro.DoWhileI[int](func(i int64) bool { e.Hit(pos, nil, false); e.SawIdx(pos, i); return cond() }))
			default:
				return resetting(&n, ro.DoWhileIWithContext[int](func(c ctxT, i int64) (ctxT, bool) {
					e.Hit(pos, c, true)
					e.SawIdx(pos, i)
					return e.Wrap(pos, c), cond()
				}))
			}
		},
		Model: func(p []int, m *MEnv) model.Operator {
			return model.DoWhile(func(i int) bool { m.Hit("DoWhile.cond"); return i < p[0] })
		}},
	{Name: "While", Variants: v4, Params: [][]int{{0}, {1}, {2}}, Pos: []string{"While.cond"}, Waits: true, Resub: true, NoSub0: true,
		Build: func(v string, p []int, e *Env) Stage {
			const pos = "While.cond"
			n := 0
			cond := func() bool { n++; return n <= p[0] }
			switch v {
			case "":
				return resetting(&n, ro.While[int](func() bool { e.Hit(pos, nil, false); return cond() }))
			case "WithContext":
				return resetting(&n, ro.WhileWithContext[int](func(c ctxT) (ctxT, bool) { e.Hit(pos, c, true); return e.Wrap(pos, c), cond() }))
			case "I":
				return resetting(&n, ro.WhileI[int](func(i int64) bool { e.Hit(pos, nil, false); e.SawIdx(pos, i); return cond() }))
			default:
				return resetting(&n, ro.WhileIWithContext[int](func(c ctxT, i int64) (ctxT, bool) {
					e.Hit(pos, c, true)
					e.SawIdx(pos, i)
					return e.Wrap(pos, c), cond()
				}))
			}
		},
		Model: func(p []int, m *MEnv) model.Operator {
			return model.While(func(i int) bool { m.Hit("While.cond"); return i < p[0] })
		}},
	// ---------------------------------------------------------------- combining with cold companions
	{Name: "MergeWith", Variants: []string{"MergeWith", "MergeWithN"}, Params: [][]int{{0}, {1}, {2}, {5}},
		// with synchronous cold companions: the source plays first, then each companion
		Build: func(v string, p []int, e *Env) Stage {
			cs := companions(p[0])
			if v == "MergeWithN" {
				switch p[0] {
				case 1:
					return st(ro.MergeWith1(cs[0]))
				case 2:
					return st(ro.MergeWith2(cs[0], cs[1]))
				case 5:
					return st(ro.MergeWith5(cs[0], cs[1], cs[2], cs[3], cs[4]))
				}
			}
			return st(ro.MergeWith(cs...))
		},
		Model: func(p []int, m *MEnv) model.Operator { return model.MergeWithCold(companionsModel(p[0])...) }},
	{Name: "ConcatWith", Variants: []string{""}, Params: [][]int{{0}, {1}, {2}}, Waits: true,
		Build: func(v string, p []int, e *Env) Stage { return st(ro.ConcatWith(companions(p[0])...)) },
		Model: func(p []int, m *MEnv) model.Operator { return model.ConcatWith(companionsModel(p[0])...) }},
}

func errOf(id int) error { return rtErr(id) }

func seq(n, base int) []int {
	out := make([]int, n)
	for i := range out {
		out[i] = base + i
	}
	return out
}

func anys(xs []int) []any {
	out := make([]any, len(xs))
	for i, x := range xs {
		out[i] = x
	}
	return out
}

// resetting wraps a stage whose callback state (a counter owned by the harness
// closure) must restart with every subscription of the resulting observable:
// the counter is reset by a TapOnSubscribe placed downstream-most.
func resetting(n *int, op opII) Stage {
	return func(s obsI) ro.Observable[any] {
		return anyOf(ro.TapOnSubscribe[int](func() { *n = 0 })(op(s)))
	}
}

// companions are the fixed cold observables used by the combining rows:
// companion k emits 70+10k, 71+10k then completes.
func companions(n int) []obsI {
	out := make([]obsI, n)
	for k := range out {
		out[k] = ro.Just(70+10*k, 71+10*k)
	}
	return out
}

func companionsModel(n int) []model.Obs {
	out := make([]model.Obs, n)
	for k := range out {
		out[k] = model.Cold([]model.In{{K: 'N', V: 70 + 10*k}, {K: 'N', V: 71 + 10*k}, {K: 'C'}})
	}
	return out
}

func resumeReal(n int) []obsI {
	out := make([]obsI, n)
	for k := range out {
		if n == 2 && k == 1 {
			out[k] = ro.NewObservableWithContext(func(c ctxT, d ro.Observer[int]) ro.Teardown {
				d.NextWithContext(c, 61)
				d.ErrorWithContext(c, errOf(9))
				return nil
			})
			continue
		}
		out[k] = ro.Just(60 + k)
	}
	return out
}

func resumeModel(n int) []model.Obs {
	out := make([]model.Obs, n)
	for k := range out {
		if n == 2 && k == 1 {
			out[k] = model.Cold([]model.In{{K: 'N', V: 61}, {K: 'E', E: "e9"}})
			continue
		}
		out[k] = model.Cold([]model.In{{K: 'N', V: 60 + k}, {K: 'C'}})
	}
	return out
}

// ByName finds a row.
func ByName(name string) *Row {
	for _, r := range Rows {
		if r.Name == name {
			return r
		}
	}
	return nil
}

