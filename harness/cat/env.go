package cat

import (
	"context"
	"fmt"
	"sync"

	"github.com/samber/ro"
	"verifharness/model"
	"verifharness/rt"
)

// FaultPlan says at which invocation (0-based) of a callback position a fault
// fires and of what kind: "perr" panic(error), "pstr" panic(string), "pval"
// panic(non-error value), "ret" returned error (error-aware callbacks only).
type FaultPlan struct {
	At   int    `json:"at"`
	Kind string `json:"kind"`
}

// CtxSeen is one context observed by an instrumented callback.
type CtxSeen struct {
	Pos string
	Ctx context.Context
}

// Env instruments the user callbacks handed to ro's operators.
type Env struct {
	mu    sync.Mutex
	Calls map[string]int
	Idx   map[string][]int64
	Ctxs  []CtxSeen
	Plan  map[string]FaultPlan
	Mark  bool // context-returning callbacks attach MidKey markers
	Fired []string
}

func NewEnv() *Env {
	return &Env{Calls: map[string]int{}, Idx: map[string][]int64{}, Plan: map[string]FaultPlan{}}
}

type faultVal struct{ Key string }

// FaultKey names the fault injected at the k-th call of pos.
func FaultKey(pos string, k int) string { return fmt.Sprintf("fault:%s:%d", pos, k) }

// hit counts an invocation and returns the planned fault key for this
// invocation ("" if none) together with its kind.
func (e *Env) hit(pos string) (string, string) {
	e.mu.Lock()
	defer e.mu.Unlock()
	k := e.Calls[pos]
	e.Calls[pos] = k + 1
	if p, ok := e.Plan[pos]; ok && p.At == k {
		key := FaultKey(pos, k)
		e.Fired = append(e.Fired, key)
		return key, p.Kind
	}
	return "", ""
}

// Hit is called at the entry of every instrumented callback: it records the
// context (when the callback has one) and raises the planned panic, if any.
// "ret" faults are not raised here; use HitErr.
func (e *Env) Hit(pos string, ctx context.Context, hasCtx bool) {
	if hasCtx {
		e.mu.Lock()
		e.Ctxs = append(e.Ctxs, CtxSeen{pos, ctx})
		e.mu.Unlock()
	}
	key, kind := e.hit(pos)
	raise(key, kind)
}

func raise(key, kind string) {
	switch kind {
	case "":
	case "perr":
		panic(&Fault{Key: key})
	case "pstr":
		panic(key)
	case "pval":
		panic(faultVal{key})
	case "ret":
		// ignored by callbacks that cannot return an error: degrade to perr
		panic(&Fault{Key: key})
	}
}

// HitErr is Hit for error-returning callbacks: a "ret" fault is returned.
func (e *Env) HitErr(pos string, ctx context.Context, hasCtx bool) error {
	if hasCtx {
		e.mu.Lock()
		e.Ctxs = append(e.Ctxs, CtxSeen{pos, ctx})
		e.mu.Unlock()
	}
	key, kind := e.hit(pos)
	if kind == "ret" {
		return &Fault{Key: key}
	}
	raise(key, kind)
	return nil
}

// SawIdx records the index an indexed callback received.
func (e *Env) SawIdx(pos string, i int64) {
	e.mu.Lock()
	e.Idx[pos] = append(e.Idx[pos], i)
	e.mu.Unlock()
}

type midKey string

// Wrap returns the context a context-returning callback hands back: the same
// context, extended with a marker when Mark is set.
func (e *Env) Wrap(pos string, ctx context.Context) context.Context {
	if !e.Mark || ctx == nil {
		return ctx
	}
	return context.WithValue(ctx, midKey(pos), true)
}

// MidMarker returns the key under which Wrap(pos, ...) stores its marker.
func MidMarker(pos string) any { return midKey(pos) }

// MEnv is the model-side twin of Env: same counting, faults become throws.
type MEnv struct {
	Calls map[string]int
	Plan  map[string]FaultPlan
}

func NewMEnv(plan map[string]FaultPlan) *MEnv {
	return &MEnv{Calls: map[string]int{}, Plan: plan}
}

// Hit counts and throws the planned fault.
func (m *MEnv) Hit(pos string) {
	k := m.Calls[pos]
	m.Calls[pos] = k + 1
	if p, ok := m.Plan[pos]; ok && p.At == k && p.Kind != "ret" {
		panic(model.Throw{Key: FaultKey(pos, k)})
	}
}

// HitErr counts and returns the key of a planned "ret" fault ("" if none);
// panicking kinds throw.
func (m *MEnv) HitErr(pos string) string {
	k := m.Calls[pos]
	m.Calls[pos] = k + 1
	if p, ok := m.Plan[pos]; ok && p.At == k {
		if p.Kind == "ret" {
			return FaultKey(pos, k)
		}
		panic(model.Throw{Key: FaultKey(pos, k)})
	}
	return ""
}

// Stage is one catalogue stage at the recorder's type.
type Stage func(ro.Observable[int]) ro.Observable[any]

// IntStage is a stage usable inside chains.
type IntStage func(ro.Observable[int]) ro.Observable[int]

// anyOf erases the element type without adding a ro stage (an extra operator at
// the outermost position would recover panics and re-wrap subscribers, hiding
// what the stage under test does at its own boundary).
func anyOf[T any](o ro.Observable[T]) ro.Observable[any] { return anyObs[T]{o} }

type anyObs[T any] struct{ src ro.Observable[T] }

func (a anyObs[T]) Subscribe(d ro.Observer[any]) ro.Subscription {
	return a.src.Subscribe(fwd[T]{d})
}

func (a anyObs[T]) SubscribeWithContext(ctx context.Context, d ro.Observer[any]) ro.Subscription {
	return a.src.SubscribeWithContext(ctx, fwd[T]{d})
}

type fwd[T any] struct{ d ro.Observer[any] }

func (f fwd[T]) Next(v T)                                      { f.d.Next(v) }
func (f fwd[T]) NextWithContext(ctx context.Context, v T)      { f.d.NextWithContext(ctx, v) }
func (f fwd[T]) Error(err error)                               { f.d.Error(err) }
func (f fwd[T]) ErrorWithContext(ctx context.Context, e error) { f.d.ErrorWithContext(ctx, e) }
func (f fwd[T]) Complete()                                     { f.d.Complete() }
func (f fwd[T]) CompleteWithContext(ctx context.Context)       { f.d.CompleteWithContext(ctx) }
func (f fwd[T]) IsClosed() bool                                { return f.d.IsClosed() }
func (f fwd[T]) HasThrown() bool                               { return f.d.HasThrown() }
func (f fwd[T]) IsCompleted() bool                             { return f.d.IsCompleted() }

func st[T any](op func(ro.Observable[int]) ro.Observable[T]) Stage {
	return func(s ro.Observable[int]) ro.Observable[any] { return anyOf(op(s)) }
}

// ModelIn converts a harness script to model input.
func ModelIn(script []rt.Ev) []model.In {
	out := make([]model.In, len(script))
	for i, e := range script {
		switch e.K {
		case 'N':
			out[i] = model.In{K: 'N', V: e.V}
		case 'E':
			out[i] = model.In{K: 'E', E: fmt.Sprintf("e%d", e.V)}
		default:
			out[i] = model.In{K: 'C'}
		}
	}
	return out
}

func rtErr(id int) error { return rt.Err(id) }
