package cat

import (
	"math"
	"sort"

	"github.com/samber/ro"
	"verifharness/model"
)

// Enc flattens a normalised value into ints so that any row can be followed by
// any other row inside a chain. The encoding keeps slice boundaries (-1
// terminator) so it is injective enough to expose reordering, loss and
// duplication.
func Enc(v any) []int {
	switch x := Norm(v).(type) {
	case nil:
		return []int{-9}
	case int:
		return []int{x}
	case bool:
		if x {
			return []int{1}
		}
		return []int{0}
	case float64:
		if math.IsInf(x, 0) || x > 1e9 || x < -1e9 {
			return []int{-998}
		}
		return []int{int(math.Round(x * 100))}
	case string:
		if x == "NaN" {
			return []int{-999}
		}
		return []int{len(x)}
	case []any:
		out := []int{}
		for _, e := range x {
			out = append(out, Enc(e)...)
		}
		return append(out, -1)
	case map[any]any:
		keys := make([]int, 0, len(x))
		for k := range x {
			keys = append(keys, k.(int))
		}
		sort.Ints(keys)
		out := []int{}
		for _, k := range keys {
			out = append(out, k)
			out = append(out, Enc(x[k])...)
		}
		return append(out, -2)
	case model.Notif:
		switch x.K {
		case 'N':
			return append([]int{-10}, Enc(x.V)...)
		case 'E':
			return []int{-11, len(x.E)}
		}
		return []int{-12}
	}
	return []int{-7}
}

// ChainStage turns a row instance into an int -> int stage.
func ChainStage(s Stage) IntStage {
	return func(src ro.Observable[int]) ro.Observable[int] {
		return ro.Flatten[int]()(ro.Map(func(v any) []int { return Enc(v) })(s(src)))
	}
}

// ChainModel is the model twin of ChainStage.
func ChainModel(op model.Operator) model.Operator {
	enc := model.Map(func(v any, i int) any {
		xs := Enc(v)
		out := make([]any, len(xs))
		for i, x := range xs {
			out[i] = x
		}
		return out
	})
	fl := model.Flatten()
	return func(s model.Obs) model.Obs { return fl(enc(op(s))) }
}

// Link is one element of a chain description.
type Link struct {
	Op      string `json:"op"`
	Variant string `json:"variant"`
	P       []int  `json:"params"`
}
