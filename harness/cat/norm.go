// Package cat is the operator catalogue: it binds ro's constructors (with
// instrumented callbacks and generated parameters) to their reference models.
package cat

import (
	"errors"
	"fmt"
	"math"
	"reflect"
	"strings"

	"github.com/samber/ro"
	"verifharness/model"
	"verifharness/rt"
)

// Norm converts a value delivered by ro into the representation the models use:
// every integer kind -> int, float NaN -> "NaN", slices -> []any, maps ->
// map[any]any, lo tuples -> []any, Notification -> model.Notif.
func Norm(v any) any {
	if v == nil {
		return nil
	}
	rv := reflect.ValueOf(v)
	switch rv.Kind() {
	case reflect.Int, reflect.Int8, reflect.Int16, reflect.Int32, reflect.Int64:
		if rv.Type().PkgPath() == "time" {
			return v
		}
		return int(rv.Int())
	case reflect.Uint, reflect.Uint8, reflect.Uint16, reflect.Uint32, reflect.Uint64:
		return int(rv.Uint())
	case reflect.Float32, reflect.Float64:
		f := rv.Float()
		if math.IsNaN(f) {
			return "NaN"
		}
		return f
	case reflect.Slice, reflect.Array:
		if rv.Kind() == reflect.Slice && rv.IsNil() {
			return []any(nil)
		}
		out := make([]any, rv.Len())
		for i := range out {
			out[i] = Norm(rv.Index(i).Interface())
		}
		return out
	case reflect.Map:
		out := map[any]any{}
		it := rv.MapRange()
		for it.Next() {
			out[Norm(it.Key().Interface())] = Norm(it.Value().Interface())
		}
		return out
	case reflect.Struct:
		t := rv.Type()
		if strings.HasPrefix(t.Name(), "Notification[") {
			k := rv.FieldByName("Kind").Uint()
			n := model.Notif{}
			switch ro.Kind(k) {
			case ro.KindNext:
				n.K, n.V = 'N', Norm(rv.FieldByName("Value").Interface())
			case ro.KindError:
				n.K = 'E'
				if e, ok := rv.FieldByName("Err").Interface().(error); ok {
					n.E = ErrKey(e)
				}
			case ro.KindComplete:
				n.K = 'C'
			}
			return n
		}
		if strings.HasPrefix(t.Name(), "Tuple") {
			out := make([]any, rv.NumField())
			for i := range out {
				out[i] = Norm(rv.Field(i).Interface())
			}
			return out
		}
		return v
	}
	return v
}

var sentinels = []struct {
	err error
	key string
}{
	{ro.ErrFirstEmpty, model.ErrFirstEmpty},
	{ro.ErrLastEmpty, model.ErrLastEmpty},
	{ro.ErrHeadEmpty, model.ErrHeadEmpty},
	{ro.ErrTailEmpty, model.ErrTailEmpty},
	{ro.ErrElementAtNotFound, model.ErrElementAtNF},
	{ro.ErrUnicastSubjectConcurrent, model.ErrUnicastConcurr},
}

// ErrThrown is what the harness' ThrowIfEmpty callback returns.
var ErrThrown = errors.New("thrown-if-empty")

// ErrKey maps an error delivered by ro to the model's error key.
func ErrKey(err error) string {
	if err == nil {
		return "<nil>"
	}
	if id := rt.ErrID(err); id >= 0 {
		return fmt.Sprintf("e%d", id)
	}
	var f *Fault
	if errors.As(err, &f) {
		return f.Key
	}
	if errors.Is(err, ErrThrown) {
		return model.ErrThrowIfEmpty
	}
	// ro.ErrHeadEmpty and ro.ErrFirstEmpty carry the same text but are distinct values
	for _, s := range sentinels {
		if errors.Is(err, s.err) {
			return s.key
		}
	}
	msg := err.Error()
	switch {
	case strings.HasPrefix(msg, "ro.Cast:"):
		return model.ErrCast
	case strings.HasPrefix(msg, "ro.Timeout:"):
		return model.ErrTimeout
	}
	// non-error panic values are wrapped as "unexpected error: <%v of the value>"
	if i := strings.Index(msg, "fault:"); i >= 0 {
		k := msg[i:]
		if j := strings.IndexAny(k, "} "); j >= 0 {
			k = k[:j]
		}
		return k
	}
	return "?" + msg
}

// Fault is the error value the harness injects (as a panic value or as a
// returned error).
type Fault struct{ Key string }

func (f *Fault) Error() string { return f.Key }

// TraceOf converts a recorder trace to the model representation.
func TraceOf(t rt.Trace) model.Trace {
	out := model.Trace{End: t.End}
	for _, v := range t.Vals {
		out.Vals = append(out.Vals, Norm(v))
	}
	if t.End == 'E' {
		out.Err = ErrKey(t.Err)
	}
	return out
}

// SameTrace compares traces (values by DeepEqual after normalisation).
func SameTrace(a, b model.Trace) bool {
	if a.End != b.End || a.Err != b.Err || len(a.Vals) != len(b.Vals) {
		return false
	}
	for i := range a.Vals {
		if !reflect.DeepEqual(Norm(a.Vals[i]), Norm(b.Vals[i])) {
			return false
		}
	}
	return true
}
