module verifharness

go 1.25

require (
	github.com/anishathalye/porcupine v1.3.0
	github.com/prometheus/client_golang v1.16.0
	github.com/prometheus/client_model v0.6.1
	github.com/samber/lo v1.52.0
	github.com/samber/ro v0.2.0
	github.com/samber/ro/ee v0.0.0
	github.com/samber/ro/ee/plugins/prometheus v0.0.0
	github.com/samber/ro/plugins/bytes v0.0.0
	github.com/samber/ro/plugins/encoding/base64 v0.0.0
	github.com/samber/ro/plugins/encoding/csv v0.0.0
	github.com/samber/ro/plugins/encoding/gob v0.0.0
	github.com/samber/ro/plugins/encoding/json v0.0.0
	github.com/samber/ro/plugins/ratelimit/native v0.0.0
	github.com/samber/ro/plugins/ratelimit/ulule v0.0.0
	github.com/samber/ro/plugins/regexp v0.0.0
	github.com/samber/ro/plugins/sort v0.0.0
	github.com/samber/ro/plugins/stdio v0.0.0
	github.com/samber/ro/plugins/strconv v0.0.0
	github.com/samber/ro/plugins/strings v0.0.0
	github.com/samber/ro/plugins/template v0.0.0
	github.com/samber/ro/plugins/time v0.0.0
	github.com/ulule/limiter/v3 v3.11.2
	golang.org/x/exp v0.0.0-20240613232115-7f521ea00fb8
	golang.org/x/sys v0.29.0
	pgregory.net/rapid v1.3.0
)

require (
	github.com/beorn7/perks v1.0.1 // indirect
	github.com/cespare/xxhash/v2 v2.3.0 // indirect
	github.com/golang/protobuf v1.5.3 // indirect
	github.com/matttproud/golang_protobuf_extensions v1.0.4 // indirect
	github.com/pkg/errors v0.9.1 // indirect
	github.com/prometheus/common v0.44.0 // indirect
	github.com/prometheus/procfs v0.15.1 // indirect
	golang.org/x/text v0.22.0 // indirect
	google.golang.org/protobuf v1.34.2 // indirect
)

replace (
	github.com/samber/ro => /repo
	github.com/samber/ro/ee => /repo/ee
	github.com/samber/ro/ee/plugins/prometheus => /repo/ee/plugins/prometheus
	github.com/samber/ro/plugins/bytes => /repo/plugins/bytes
	github.com/samber/ro/plugins/encoding/base64 => /repo/plugins/encoding/base64
	github.com/samber/ro/plugins/encoding/csv => /repo/plugins/encoding/csv
	github.com/samber/ro/plugins/encoding/gob => /repo/plugins/encoding/gob
	github.com/samber/ro/plugins/encoding/json => /repo/plugins/encoding/json
	github.com/samber/ro/plugins/ratelimit/native => /repo/plugins/ratelimit/native
	github.com/samber/ro/plugins/ratelimit/ulule => /repo/plugins/ratelimit/ulule
	github.com/samber/ro/plugins/regexp => /repo/plugins/regexp
	github.com/samber/ro/plugins/sort => /repo/plugins/sort
	github.com/samber/ro/plugins/stdio => /repo/plugins/stdio
	github.com/samber/ro/plugins/strconv => /repo/plugins/strconv
	github.com/samber/ro/plugins/strings => /repo/plugins/strings
	github.com/samber/ro/plugins/template => /repo/plugins/template
	github.com/samber/ro/plugins/time => /repo/plugins/time
)
